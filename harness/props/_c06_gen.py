"""Seeded generator of Python functions/modules with rich control flow (C06, C07).

Nested and sequential branches, boolean operators, loops with break/continue/else, infinite
loops, try/except/else/finally, with, match, early returns/raises, generators (yield as
statement, as condition, in loops), comprehensions, nested functions.  Only syntax matters for
C06/C07 (the code is compiled and instrumented, the functions are never called)."""
from __future__ import annotations

IND = "    "


class Gen:
    def __init__(self, rng, max_depth=3, budget=14, allow_yield=False, allow_try=True):
        self.rng = rng
        self.max_depth = max_depth
        self.budget = budget
        self.allow_yield = allow_yield
        self.allow_try = allow_try
        self.nvar = 0

    def var(self):
        return self.rng.choice(["a", "b", "c", "x", "y"])

    def atom(self):
        r = self.rng
        return r.choice([self.var(), self.var(), str(r.randrange(5)), "None", "xs", "len(xs)", "a + 1", "b[0]", "f(x)"])

    def cond(self, depth=0):
        r = self.rng
        c = r.random()
        if c < 0.35 or depth > 1:
            op = r.choice(["<", "<=", "==", "!=", ">", ">=", "is", "is not", "in", "not in"])
            return f"{self.atom()} {op} {self.atom()}"
        if c < 0.5:
            return self.var()
        if c < 0.6:
            return f"not {self.cond(depth + 1)}"
        if c < 0.78:
            return f"({self.cond(depth + 1)} and {self.cond(depth + 1)})"
        if c < 0.92:
            return f"({self.cond(depth + 1)} or {self.cond(depth + 1)})"
        if c < 0.96:
            return f"{self.atom()} < {self.atom()} <= {self.atom()}"
        if self.allow_yield and r.random() < 0.8:
            return f"(yield {self.atom()})"
        return f"({self.atom()} if {self.cond(depth + 1)} else {self.atom()})"

    def simple(self):
        r = self.rng
        c = r.random()
        if c < 0.45:
            return f"{self.var()} = {self.atom()}"
        if c < 0.6:
            return f"{self.var()} += 1"
        if c < 0.7:
            return f"g({self.atom()})"
        if c < 0.76:
            return f"{self.var()} = [i for i in xs if i > {r.randrange(3)}]"
        if c < 0.8:
            return f"{self.var()} = {self.atom()} if {self.cond(1)} else {self.atom()}"
        if c < 0.84:
            return f"assert {self.cond(1)}"
        if c < 0.88:
            return "pass"
        if self.allow_yield:
            return r.choice([f"yield {self.atom()}", f"{self.var()} = yield {self.atom()}", "yield from xs", "yield"])
        return f"{self.var()} = {self.atom()}"

    def block(self, depth, in_loop, n=None):
        r = self.rng
        n = n if n is not None else r.choice([1, 1, 2, 2, 3])
        out = []
        for k in range(n):
            if self.budget <= 0:
                break
            out += self.stmt(depth, in_loop)
        if not out:
            out = ["pass"]
        return out

    def indent(self, lines):
        return [IND + ln for ln in lines]

    def plain(self):
        r = self.rng
        return r.choice([f"{self.var()} = {self.atom()}", f"{self.var()} += 1", f"g({self.atom()})", "pass",
                         f"{self.var()} = {self.atom()} if {self.cond(1)} else {self.atom()}"])

    def noexit_block(self, depth, n=None):
        """Statements that never leave the enclosing endless loop: no break/return/raise/yield/assert/try."""
        r = self.rng
        out = []
        for _ in range(n or r.choice([1, 1, 2, 3])):
            c = r.random()
            self.budget -= 1
            if depth >= 4 or c < 0.25:
                out += [self.plain()]
            elif c < 0.6:
                out += [f"if {self.cond(1)}:"] + self.indent(self.noexit_block(depth + 1, 1))
                if r.random() < 0.4:
                    out += [f"elif {self.cond(1)}:"] + self.indent(self.noexit_block(depth + 1, 1))
                if r.random() < 0.7:
                    out += ["else:"] + self.indent(self.noexit_block(depth + 1, 1) + (["continue"] if r.random() < 0.3 else []))
            elif c < 0.85:
                head = r.choice(["for i in xs:", f"for {self.var()} in range({self.atom()}):", f"while {self.cond(1)}:", f"while {self.var()}:"])
                body = self.noexit_block(depth + 1)
                if r.random() < 0.3:
                    body = [f"if {self.cond(1)}:", IND + "continue"] + body
                out += [head] + self.indent(body)
                if r.random() < 0.2:
                    out += ["else:"] + self.indent([self.plain()])
            else:
                out += [f"match {self.var()}:"]
                for pat in r.sample(["0", "1 | 2", "[p, q]", "str() as s"], r.choice([1, 2])):
                    out += [IND + f"case {pat}:"] + self.indent(self.indent(self.noexit_block(depth + 1, 1)))
                if r.random() < 0.5:
                    out += [IND + "case _:"] + self.indent(self.indent([r.choice([self.plain(), "continue"])]))
        return out

    def endless(self, depth):
        """`while True:` without any way out whose body branches / nests loops; the function may or may
        not have another exit (an early return in front of the loop)."""
        r = self.rng
        out = []
        if r.random() < 0.5:
            out += [f"if {self.cond(1)}:", IND + r.choice(["return 0", "return", "return a"])]
        body = self.noexit_block(depth + 1, r.choice([1, 2, 2, 3]))
        if all(not ln.startswith(("if ", "for ", "while ", "match ")) for ln in body):
            body += [f"if {self.cond(1)}:"] + self.indent([self.plain()]) + ["else:"] + self.indent([self.plain()])
        return out + ["while True:"] + self.indent(body)

    def exc_loop(self, depth, in_loop):
        """Endless loop that is continued / left only through exception handlers, optionally inside
        a `with` and behind an early return (value-less CDG cycles once the early return is excluded)."""
        r = self.rng
        handler = lambda: r.choice(["except:", "except:", "except ValueError:", "except (KeyError, IndexError):"])  # noqa: E731
        body = ["try:", IND + f"g({self.atom()})", handler()]
        if r.random() < 0.7:
            body += [IND + f"if {self.cond(1)}:", IND + IND + self.simple()]
        body += [IND + r.choice(["continue", "continue", "break", "pass"])]
        if r.random() < 0.7:
            body += [f"if {self.cond(1)}:"] + self.indent(self.block(depth + 2, True, n=1))
        if r.random() < 0.7:
            inner = ["try:", IND + f"g({self.atom()})"]
            if r.random() < 0.3:
                inner = ["try:", IND + "try:", IND + IND + f"g({self.atom()})", IND + handler(), IND + IND + "raise"]
            body += inner + [handler(), IND + r.choice(["break", "break", "return a", "continue"])]
        out = []
        if r.random() < 0.6:
            out += [f"if {self.cond(1)}:", IND + r.choice(["return 0", "return", "raise ValueError(a)"])]
        out += [r.choice(["while True:", "while True:", f"while {self.var()}:"])] + self.indent(body)
        if r.random() < 0.5:
            out = [r.choice(["with f(a):", "with f(a) as h:"])] + self.indent(out)
        return out

    def stmt(self, depth, in_loop):
        r = self.rng
        self.budget -= 1
        c = r.random()
        if depth >= self.max_depth:
            c = c * 0.3
        if c < 0.22:
            return [self.simple()]
        if self.allow_try and r.random() < 0.08:
            return self.exc_loop(depth, in_loop)
        if r.random() < 0.05:
            return self.endless(depth)
        if c < 0.27:
            ch = ["return " + self.atom(), "return", "raise ValueError(a)"]
            if in_loop:
                ch += ["break", "continue", "break", "continue"]
            return [r.choice(ch)]
        if c < 0.30:
            if in_loop:
                return [f"if {self.cond()}:", IND + r.choice(["break", "continue", "return a"])]
            return [f"if {self.cond()}:", IND + r.choice(["return a", "raise KeyError(b)", "return"])]
        if c < 0.55:
            out = [f"if {self.cond()}:"] + self.indent(self.block(depth + 1, in_loop))
            k = r.random()
            while k < 0.3 and self.budget > 0:
                out += [f"elif {self.cond()}:"] + self.indent(self.block(depth + 1, in_loop))
                k = r.random() + 0.1
            if r.random() < 0.5:
                out += ["else:"] + self.indent(self.block(depth + 1, in_loop))
            return out
        if c < 0.66:
            head = r.choice([f"while {self.cond()}:", f"while {self.cond()}:", "while True:", f"while {self.var()}:"])
            out = [head] + self.indent(self.block(depth + 1, True))
            if r.random() < 0.25 and head != "while True:":
                out += ["else:"] + self.indent(self.block(depth + 1, in_loop))
            return out
        if c < 0.78:
            head = r.choice(["for i in xs:", f"for {self.var()} in range({self.atom()}):", "for i, j in enumerate(xs):"])
            out = [head] + self.indent(self.block(depth + 1, True))
            if r.random() < 0.25:
                out += ["else:"] + self.indent(self.block(depth + 1, in_loop))
            return out
        if c < 0.90 and self.allow_try:
            out = ["try:"] + self.indent(self.block(depth + 1, in_loop))
            k = r.random()
            has_exc = False
            if k < 0.8:
                has_exc = True
                out += [r.choice(["except ValueError:", "except (KeyError, IndexError) as e:", "except Exception:"])]
                out += self.indent(self.block(depth + 1, in_loop))
                if r.random() < 0.3:
                    out += ["except:"] + self.indent(self.block(depth + 1, in_loop))
                if r.random() < 0.3:
                    out += ["else:"] + self.indent(self.block(depth + 1, in_loop))
            if not has_exc or r.random() < 0.35:
                # no break/continue/return restrictions in finally on 3.12, but keep it simple
                out += ["finally:"] + self.indent(self.block(depth + 1, False if in_loop else in_loop))
            return out
        if c < 0.94:
            return [r.choice(["with f(a) as h:", "with f(a), f(b):"])] + self.indent(self.block(depth + 1, in_loop))
        if c < 0.97:
            out = [f"match {self.var()}:"]
            for pat in r.sample(["0", "1 | 2", "[p, q]", "{'k': v}", "str() as s", "(p, *rest)"], r.choice([1, 2, 3])):
                guard = f" if {self.cond(1)}" if r.random() < 0.3 else ""
                out += [IND + f"case {pat}{guard}:"] + self.indent(self.indent(self.block(depth + 1, in_loop)))
            if r.random() < 0.5:
                out += [IND + "case _:"] + self.indent(self.indent(self.block(depth + 1, in_loop)))
            return out
        # nested function (its own code object)
        name = f"inner{r.randrange(100)}"
        sub = Gen(r, max_depth=2, budget=min(5, max(1, self.budget)), allow_yield=r.random() < 0.3, allow_try=self.allow_try)
        body = sub.block(0, False)
        return [f"def {name}(a, xs=()):"] + self.indent(body) + [f"{self.var()} = {name}"]


def gen_function(rng, name="f", allow_try=True, size=None):
    """Source lines of one function definition."""
    if rng.random() < 0.06:
        g = Gen(rng, max_depth=3, budget=12, allow_yield=False, allow_try=allow_try)
        pre = g.block(0, False, n=1) if rng.random() < 0.3 else []
        return [f"def {name}(a, b=0, c=None, x=1, y=2, xs=(), f=len, g=print):"] + g.indent(pre + g.endless(0))
    allow_yield = rng.random() < 0.3
    g = Gen(rng, max_depth=rng.choice([1, 2, 3, 4]), budget=size or rng.choice([2, 4, 8, 14, 24]),
            allow_yield=allow_yield, allow_try=allow_try)
    body = g.block(0, False, n=rng.choice([1, 2, 3, 4]))
    if rng.random() < 0.5:
        body += ["return " + g.atom()]
    return [f"def {name}(a, b=0, c=None, x=1, y=2, xs=(), f=len, g=print):"] + g.indent(body)


def gen_module(rng, n_funcs=None, allow_try=True):
    """Source text of a module with functions, optionally a class with methods."""
    n = n_funcs or rng.choice([1, 2, 3])
    lines = ["import os", ""]
    for k in range(n):
        lines += gen_function(rng, f"fun{k}", allow_try=allow_try) + ["", ""]
    if rng.random() < 0.4:
        lines += ["class K:"]
        for k in range(rng.choice([1, 2])):
            fn = gen_function(rng, f"meth{k}", allow_try=allow_try)
            fn[0] = fn[0].replace("(a,", "(self, a,")
            lines += [IND + ln for ln in fn] + [""]
        lines += [""]
    if rng.random() < 0.3:
        lines += [f"if os.sep == '/':", IND + "FLAG = 1", "else:", IND + "FLAG = 2", ""]
    return "\n".join(lines) + "\n"


def compiles(src):
    try:
        return compile(src, "<gen>", "exec")
    except SyntaxError:
        return None
