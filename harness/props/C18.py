"""C18 — generated test files pass when run against the module under test.

T  static proofs about the writer model (names closed, xfail iff unexpected, raises wraps only
   raising statements, what pytest reports).
K2 random abstract suites are built as real TestCase objects over a stub SUT, written by the real
   TestSuiteWriter; the written file is parsed with `ast` and compared with the model inside Coq.
S  (a) static closure of every written file (ast scoping, independent of the model);
   (b) pytest in a fresh interpreter on the stub files;
   (c) the runtime part outside every theorem: real Pynguin generations on corpus/C18/sut x seeds x
       assertion modes, exported file run with pytest against the uninstrumented module.
"""
from __future__ import annotations

import concurrent.futures as cf
import json
import os
import re
import shutil
import subprocess
import sys
import time
from pathlib import Path

import vlib

sys.path.insert(0, str(Path(__file__).resolve().parent))
import _c18_lib as L  # noqa: E402
import _c18_seedpatch as SP  # noqa: E402
import _c18_stub as S  # noqa: E402

SRC = ["src/pynguin/testcase/export.py", "src/pynguin/assertion/assertion_to_ast.py", "src/pynguin/generator.py",
       "src/pynguin/assertion/assertiontraceobserver.py", "src/pynguin/testcase/testcase.py"]
SUT_DIR = vlib.VERIF / "corpus" / "C18" / "sut"
SUT_MODULES = ["numeric", "strings", "containers", "state", "enums", "floats", "rnd", "errors", "shapes.area", "foreign", "exits", "kwclash", "declared", "rndkey", "summary", "testnames", "nestedexc", "shadow"]
MODES = ["MUTATION_ANALYSIS", "SIMPLE", "NONE", "CHECKED_MINIMIZING"]
GEN = str(Path(__file__).resolve().parent / "_c18_gen.py")


# ------------------------------------------------------------------------------------------------
def eval_stub(spec, outdir):
    """Write one stub suite with the real writer; returns a record."""
    os.makedirs(outdir, exist_ok=True)
    ab, src, path = S.write_suite(spec, outdir)
    canonical = spec["module"]
    tops, ofs = S.abstract_file(src, spec["module"], canonical, ab)
    return {"spec": spec, "abstract": ab, "src": src, "path": path, "tops": tops, "ofuncs": ofs,
            "unbound": L.static_unbound(src)}


def stub_failures(rec, pr, fname):
    """Direct oracle on one written stub file: [(signature, message)]."""
    bad = []
    for where, name, kind in rec["unbound"]:
        bad.append((f"unbound-name:{kind}", f"{where} uses `{name}`, which nothing in the file binds"))
    for sig, msg in L.judge_file(rec["src"], fname, pr):
        bad.append(("pytest:" + sig, msg))
    return bad


def run_stub_batch(recs, workdir, chunk=120):
    """pytest on all stub files (renamed to be unique), a few processes in parallel."""
    names = []
    for i, r in enumerate(recs):
        fn = f"test_s{i:05d}.py"
        (Path(workdir) / fn).write_text(r["src"])
        names.append(fn)
    chunks = [names[i:i + chunk] for i in range(0, len(names), chunk)]
    results = {}
    with cf.ThreadPoolExecutor(max_workers=8) as ex:
        for part, pr in zip(chunks, ex.map(lambda fs: L.run_pytest(fs, str(workdir), [str(S.STUB_DIR)], timeout=900), chunks)):
            for fn in part:
                results[fn] = pr
    return names, results


def shrink_spec(spec, sig, scratch, budget=30):
    """Drop tests, then statements, while the same signature is reproduced."""
    n = [0]

    def fails(sp):
        if n[0] >= budget:
            return False
        n[0] += 1
        d = Path(scratch) / f"shrink{n[0]}"
        try:
            rec = eval_stub(sp, str(d))
            fn = "test_shrink.py"
            (d / fn).write_text(rec["src"])
            pr = L.run_pytest([fn], str(d), [str(S.STUB_DIR)]) if sig.startswith("pytest:") else {"collect_errors": [], "tests": {}, "tail": ""}
            sigs = {s for s, _ in stub_failures(rec, pr, fn)} if sig.startswith("pytest:") else {
                f"unbound-name:{k}" for _, _, k in rec["unbound"]}
            return sig in sigs
        except Exception:  # noqa: BLE001
            return False

    cur = json.loads(json.dumps(spec))
    changed = True
    while changed:
        changed = False
        for i in range(len(cur["tests"])):
            cand = dict(cur, tests=cur["tests"][:i] + cur["tests"][i + 1:])
            if cand["tests"] and fails(cand):
                cur, changed = cand, True
                break
    for ti in range(len(cur["tests"])):
        i = len(cur["tests"][ti]) - 1
        while i >= 0:
            t = cur["tests"][ti]
            cand = dict(cur, tests=cur["tests"][:ti] + [t[:i] + t[i + 1:]] + cur["tests"][ti + 1:])
            if fails(cand):
                cur = cand
            i -= 1
    return cur


def assertion_filter_differences(rng, n):
    """AssertionGenerator.__remove_non_holding_assertions on random verification traces: exactly the assertions
    reported as failed or erroneous are removed, the others stay, in order (or the call raises)."""
    import libcst as cst
    import pynguin.assertion.assertion as ass
    import pynguin.assertion.assertion_trace as at
    import pynguin.assertion.assertiongenerator as agm
    import pynguin.testcase.testcase as tcm

    flt = getattr(agm.AssertionGenerator, "_AssertionGenerator__remove_non_holding_assertions")

    class _Res:
        def __init__(self, trace):
            self.assertion_verification_trace = trace
            self.timeout = False

    bad = []
    for _ in range(n):
        t = tcm.TestCase()
        sizes = [rng.choice([0, 1, 2, 3, 3, 4, 6]) for _ in range(rng.choice([1, 2, 3]))]
        for si, k in enumerate(sizes):
            t.add_statement(tcm.Statement(
                node=cst.parse_statement(f"var_{si} = {si}\n"), bound_variable=f"var_{si}",
                assertions=[ass.ObjectAssertion(f"var_{si}.f{j}", j) if rng.random() < 0.8 else ass.FloatAssertion(f"var_{si}.g{j}", float("nan"))
                            for j in range(k)]))
        trace = at.AssertionVerificationTrace()
        spec = []
        for si, k in enumerate(sizes):
            failed = {j for j in range(k) if rng.random() < 0.35}
            error = {j for j in range(k) if rng.random() < 0.15}
            for j in failed:
                trace.failed[si].add(j)
            for j in error:
                trace.error[si].add(j)
            spec.append((sorted(failed), sorted(error), [j for j in range(k) if j not in failed | error]))
        before = [[id(a) for a in st.assertions] for st in t.statements()]
        try:
            flt(t, _Res(trace))
            kept = [[before[si].index(id(a)) for a in st.assertions] for si, st in enumerate(t.statements())]
        except Exception as e:  # noqa: BLE001
            kept = f"raises {type(e).__name__}"
        for si, (failed, error, expected) in enumerate(spec):
            got = kept if isinstance(kept, str) else kept[si]
            if got != expected:
                bad.append({"n": sizes[si], "failed": failed, "error": error, "kept": got, "expected": expected})
                break
    return bad


def seed_patch_differences(repo, seeds):
    """[(label, generation-side outcome, exported-patch outcome)] over a catalogue of seed objects."""
    script = str(Path(__file__).resolve().parent / "_c18_seedpatch.py")
    env = dict(os.environ, PYTHONHASHSEED="0")
    bad = []
    for sd in seeds:
        outs = {}
        for mode in ("gen", "export"):
            r = subprocess.run([sys.executable, script, mode, str(repo), str(sd)], capture_output=True, text=True, timeout=300, env=env)
            line = [ln for ln in r.stdout.splitlines() if ln.startswith("RESULT ")]
            outs[mode] = json.loads(line[-1][7:]) if line else {"crash": r.stderr[-300:]}
        for k in sorted(set(outs["gen"]) | set(outs["export"])):
            if outs["gen"].get(k) != outs["export"].get(k):
                bad.append((k, outs["gen"].get(k), outs["export"].get(k)))
    return bad


# ------------------------------------------------------------------------------------------------
def e2e_job(job, repo, scratch):
    """One real generation + pytest.  Returns dict(status=ok|nofile|timeout|crash, ...)."""
    module, seed, mode, no_xfail = job
    out = Path(scratch) / f"e2e-{module}-{seed}-{mode}-{int(no_xfail)}"
    shutil.rmtree(out, ignore_errors=True)
    out.mkdir(parents=True)
    a = {"repo": str(repo), "project": str(SUT_DIR), "module": module, "seed": seed, "mode": mode,
         "no_xfail": no_xfail, "out": str(out), "iterations": 6}
    env = dict(os.environ, PYTHONHASHSEED="0")
    t = time.time()
    try:
        r = subprocess.run([sys.executable, GEN, json.dumps(a)], capture_output=True, text=True, timeout=400, env=env)
    except subprocess.TimeoutExpired:
        return {"job": job, "status": "timeout"}
    line = [ln for ln in r.stdout.splitlines() if ln.startswith("RESULT ")]
    if not line:
        return {"job": job, "status": "crash", "detail": r.stderr[-600:]}
    res = json.loads(line[-1][7:])
    if not res["file"]:
        return {"job": job, "status": "nofile", "errors": res["errors"]}
    src = Path(res["file"]).read_text()
    fname = os.path.basename(res["file"])
    try:
        pr = L.run_pytest([fname], str(out), [str(SUT_DIR)], timeout=300)
    except subprocess.TimeoutExpired:
        return {"job": job, "status": "pytest-timeout", "src": src}
    bad = [("pytest:" + s, m) for s, m in L.judge_file(src, fname, pr)]
    if any(s == "pytest:test-failed:AssertionError:value" for s, _ in bad):
        # is the failing assertion stale because statement minimisation (which runs after assertion
        # generation) removed a state-changing statement?  Only a verified cause gets the narrow class.
        stale, why = {}, ""
        try:
            pre_src = Path(res["pre"]["file"]).read_text()
            pre_pr = L.run_pytest([fname], str(out / "pre"), [str(SUT_DIR)], timeout=300)
            stale = L.stale_after_minimisation(src, pr, pre_src, pre_pr, fname)
        except Exception as e:  # noqa: BLE001
            why = f"snapshot analysis failed: {type(e).__name__}: {e}"
        n_value = sum(s_ == "pytest:test-failed:AssertionError:value" for s_, _ in bad)
        if len(stale) < n_value:
            # second opinion: the same job generated again with statement minimisation switched off
            # (generation is reproducible per seed for these modules); its export plays the snapshot's role
            try:
                a2 = dict(a, minimization="NONE", out=str(out / "nomin"))
                (out / "nomin").mkdir(exist_ok=True)
                r2 = subprocess.run([sys.executable, GEN, json.dumps(a2)], capture_output=True, text=True, timeout=400, env=env)
                l2 = [ln for ln in r2.stdout.splitlines() if ln.startswith("RESULT ")]
                f2 = json.loads(l2[-1][7:])["file"] if l2 else None
                if f2:
                    src2 = Path(f2).read_text()
                    pr2 = L.run_pytest([fname], str(out / "nomin"), [str(SUT_DIR)], timeout=300)
                    for k_, v_ in L.stale_after_minimisation(src, pr, src2, pr2, fname).items():
                        stale.setdefault(k_, v_ + " (compared with a generation without statement minimisation)")
            except Exception as e:  # noqa: BLE001
                why += f" second generation failed: {type(e).__name__}: {e}"
        new_bad = []
        for s, m in bad:
            fn_ = next((k for k in stale if f"::{k} reported" in m), None)
            if s == "pytest:test-failed:AssertionError:value" and fn_ is not None:
                new_bad.append(("pytest:test-failed:AssertionError:stale-after-minimisation", m + " || " + stale[fn_]))
            else:
                new_bad.append((s, m + (" || cause analysis: " + why if why and s.endswith(":value") else "")))
        bad = new_bad
    if res.get("filter", {}).get("timeouts", 0) > 0:
        # a never-holding assertion is only removed when a filtering execution delivers a verdict
        tag = f" || {res['filter']['timeouts']} of {res['filter']['calls']} filtering executions timed out during this generation"
        bad = [((s + ":filter-timed-out", m + tag) if s.startswith("pytest:test-failed:AssertionError:non-holding-") else (s, m))
               for s, m in bad]
    for where, name, kind in L.static_unbound(src):
        bad.append((f"unbound-name:{kind}", f"{fname}::{where} uses `{name}`, which nothing in the file binds"))
    import ast as _ast

    mod = _ast.parse(src)
    fs = L.test_functions(mod)
    return {"job": job, "status": "ok", "src": src, "fname": fname, "bad": bad, "tests": len(fs),
            "xfail": sum(any(L.is_xfail_decorator(d) for d in f.decorator_list) for f in fs),
            "asserts": sum(isinstance(n, _ast.Assert) for f in fs for n in _ast.walk(f)),
            "raises": src.count("pytest.raises("), "approx": src.count("pytest.approx("),
            "secs": round(time.time() - t, 1)}


# ------------------------------------------------------------------------------------------------
def run(ctx: vlib.Ctx):
    vlib.setup_impl_path()
    ctx.digest_sources(SRC)
    ctx.coq_static()
    if not ctx.quick:
        ctx.coqchk()
    scratch = ctx.mkscratch()
    rng = ctx.rng

    # ---- K2 + S(a,b): stub suites through the real writer ---------------------------------------
    corpus = json.loads((vlib.VERIF / "corpus" / "C18.json").read_text())
    specs = [c["spec"] for c in corpus if c.get("kind") == "stub"]
    n_rand = 160 if ctx.quick else 1000
    if os.environ.get("VERIF_STUB_N") is not None:   # developer knob (self-tests); unset in normal runs
        n_rand = int(os.environ["VERIF_STUB_N"])
    for _ in range(n_rand):
        specs.append(S.gen_suite(rng))
    recs = []
    pre_sigs: set[str] = set()
    for i, sp in enumerate(specs):
        rec = eval_stub(sp, str(scratch / f"stub{i}"))
        recs.append(rec)
        shutil.rmtree(scratch / f"stub{i}", ignore_errors=True)
        nst = sum(len(t) for t in rec["abstract"])
        ctx.case_seen(json.dumps(sp, sort_keys=True), nontrivial=nst > 0)
        ctx.count("stub:module:" + sp["module"])
        ctx.count("stub:no_xfail" if sp["no_xfail"] else "stub:xfail-mode")
        ctx.count("stub:seed-fixture" if sp["seed"] is not None else "stub:no-seed")
        if not sp["tests"]:
            ctx.count("stub:empty-suite")
        for t in rec["abstract"]:
            if not t:
                ctx.count("stub:empty-test")
            for s in t:
                ctx.count("stub:stmt:" + ("raises-" + ("expected" if s["expected"] else "unexpected") if s["exc"] else "plain"))
                if s["exc"]:
                    ctx.count("stub:exc:" + ("builtin" if s["exc"][1] is None else "imported"))
                    if s["exc"][2]:
                        ctx.count("stub:exc:base-exception-not-exception:" + s["exc"][0])
                seen_by_writer = s.get("exc_writer")
                if s.get("exc_class") != seen_by_writer:
                    kind = "base-exception" if s["exc"] and s["exc"][2] else "exception"
                    sig = f"reexecution:exception-missed:{kind}"
                    if sig not in pre_sigs:
                        pre_sigs.add(sig)
                        ctx.fail(sig, f"statement `{s['code'].strip()}` raises {s.get('exc_class')} when executed, but the "
                                      f"writer's re-execution (_per_statement_exceptions) recorded {seen_by_writer}",
                                 {"kind": "stub", "spec": sp, "written_file": rec["src"]})
                for a in s["asserts"]:
                    ctx.count("stub:assert:" + a[0])
    ctx.log(f"stub suites written: {len(recs)}")
    stubdir = scratch / "stubrun"
    stubdir.mkdir()
    names, results = run_stub_batch(recs, stubdir)
    n_fail = 0
    seen_sig = set()
    for rec, fn in zip(recs, names):
        bad = stub_failures(rec, results[fn], fn)
        rec["bad"] = bad
        for sig, msg in bad:
            n_fail += 1
            if sig in seen_sig:
                continue
            seen_sig.add(sig)
            small = shrink_spec(rec["spec"], sig, scratch)
            ctx.fail(sig, msg, {"kind": "stub", "spec": small, "written_file": rec["src"] if small == rec["spec"] else None})
    ctx.log("stub files run under pytest")
    ctx.leg("S-stub", files=len(recs), failures=n_fail,
            tests=sum(len(r["ofuncs"]) for r in recs), xfail=sum(f["xfail"] for r in recs for f in r["ofuncs"]))
    if recs:
        r0 = recs[len(corpus)] if len(recs) > len(corpus) else recs[0]
        ctx.sample({"stub_spec": r0["spec"], "written": r0["src"][-600:]})

    cases = [S.c_case(r["spec"], r["spec"]["module"], S.public_names(r["spec"]["module"]), r["abstract"], r["tops"], r["ofuncs"])
             for r in recs]
    bad_idx = ctx.run_cases("C18_cases", "From Verif Require Import Models.C18.", "C18.case", "C18.check_case", cases, shard=100)
    if bad_idx is None:
        pass
    elif bad_idx:
        ctx.leg("K2", ok=False, mismatches=len(bad_idx))
        if not any(recs[i]["bad"] for i in bad_idx):
            r = recs[bad_idx[0]]
            ctx.broken("correspondence:C18-writer-model",
                       "the writer model (about which the theorems are proved) no longer predicts the file the real "
                       "TestSuiteWriter writes (header, decorators, wrapping or names)",
                       {"spec": r["spec"], "written_file": r["src"], "header_seen": r["tops"], "functions_seen": r["ofuncs"],
                        "mismatching_suites": len(bad_idx)})
    else:
        ctx.leg("K2", ok=True, suites=len(cases))

    ctx.log("model evaluated on the stub suites")
    # ---- K: the filter that removes non-holding assertions, against its specification ---------------------
    fbad = assertion_filter_differences(rng, 200 if ctx.quick else 3000)
    if fbad:
        ctx.fail("assertion-filter:wrong-assertions-removed",
                 f"after a filtering execution that reports assertions {fbad[0]['failed']} (failed) / {fbad[0]['error']} (error) of a "
                 f"statement with {fbad[0]['n']} assertions, the statement keeps {fbad[0]['kept']} instead of {fbad[0]['expected']}",
                 {"kind": "filter", "case": fbad[0]})
    ctx.leg("K-filter", ok=not fbad, cases=200 if ctx.quick else 3000)
    # ---- K: the two copies of the random.Random.seed patch (generation time vs. exported text) -------
    sp_bad = seed_patch_differences(ctx.repo, [rng.randrange(1, 10**6), 0])
    for label, g, e in sp_bad[:1]:
        ctx.fail(f"seed-patch-diverges:{label.split(':')[0]}",
                 f"random seeding with a {label} behaves differently while Pynguin generates ({g}) and in the exported test "
                 f"file ({e}): a statement that passes during generation fails under pytest or vice versa",
                 {"kind": "seedpatch", "differences": sp_bad[:20]})
    ctx.leg("K-seedpatch", ok=not sp_bad, compared=2 * len(SP.OBJECTS) * 2)
    # ---- S(c): real generations ----------------------------------------------------------------
    jobs = []
    for c in corpus:
        if c.get("kind") == "e2e":
            jobs.append(tuple(c["job"]))
    if ctx.quick:
        for m in SUT_MODULES:
            jobs.append((m, rng.randrange(1, 10**6), rng.choice(MODES + ["SIMPLE"]), rng.random() < 0.25))
    else:
        for m in SUT_MODULES:
            for mode in MODES:
                for _ in range(3):
                    jobs.append((m, rng.randrange(1, 10**6), mode, rng.random() < 0.25))
    jobs = list(dict.fromkeys(jobs))
    if os.environ.get("VERIF_E2E_LIMIT") is not None:   # developer knob (self-tests); unset in normal runs
        jobs = jobs[: int(os.environ["VERIF_E2E_LIMIT"])]
    stats = {"ok": 0, "nofile": 0, "timeout": 0, "crash": 0, "pytest-timeout": 0}
    tot = {"tests": 0, "xfail": 0, "asserts": 0, "raises": 0, "approx": 0}
    e2e_fail = 0
    with cf.ThreadPoolExecutor(max_workers=8 if ctx.quick else 12) as ex:
        for res in ex.map(lambda j: e2e_job(j, ctx.repo, scratch), jobs):
            stats[res["status"]] = stats.get(res["status"], 0) + 1
            job = res["job"]
            ctx.count("e2e:module:" + job[0])
            ctx.count("e2e:mode:" + job[2])
            ctx.count("e2e:" + res["status"])
            if res["status"] == "nofile":
                for e in res["errors"]:
                    if e.startswith("Export"):
                        ctx.count("e2e:export-failed:" + e.split("|")[-1])
            if res["status"] in ("crash", "nofile"):
                # the generation of a deterministic corpus module ended without a test file
                detail = res.get("detail") or "; ".join(res.get("errors", []))
                m_ = re.findall(r"\b([A-Z]\w*(?:Error|Exception))\b", detail)
                sig = f"generation-{'crashed' if res['status'] == 'crash' else 'wrote-no-file'}:{m_[-1] if m_ else 'unknown'}"
                e2e_fail += 1
                if sig not in seen_sig:
                    seen_sig.add(sig)
                    ctx.fail(sig, f"generating tests for corpus module {job[0]} (seed {job[1]}, {job[2]}) produced no test file: {detail[-400:]}",
                             {"kind": "e2e", "job": list(job), "written_file": None,
                              "module_source": (SUT_DIR / (job[0].replace(".", "/") + ".py")).read_text()})
                continue
            if res["status"] != "ok":
                continue
            ctx.case_seen(("e2e", job, res["src"]), nontrivial=res["tests"] > 0)
            for k in tot:
                tot[k] += res[k]
            for sig, msg in res["bad"]:
                e2e_fail += 1
                if sig in seen_sig:
                    continue
                seen_sig.add(sig)
                ctx.fail(sig, msg, {"kind": "e2e", "job": list(job), "module_source": (SUT_DIR / (job[0].replace(".", "/") + ".py")).read_text(),
                                    "written_file": res["src"]})
            if res["tests"] and len(ctx.cov["samples"]) < 3:
                ctx.sample({"e2e_job": list(job), "written": res["src"][-500:]})
    ctx.log("real generations done")
    ctx.leg("S-e2e", jobs=len(jobs), failures=e2e_fail, **stats, **{"total_" + k: v for k, v in tot.items()})
    if stats["ok"] == 0 and jobs:
        ctx.broken("e2e-no-runs", "no real generation produced a test file (all timed out / failed to export)", stats)
    ctx.cov["rule"] = ("stub: random suites (0-4 tests, 0-9 statements; 18 statement templates incl. raising with builtin/"
                       "SUT/foreign exception classes, declared or not; six assertion kinds with plain and dotted sources) "
                       "x no_xfail x seed fixture x black, distinct = distinct spec, non-trivial = has a statement; "
                       "e2e: real generations (module, seed, assertion mode, no_xfail), distinct = distinct written file, "
                       "non-trivial = at least one test function")
    ctx.assumptions += [
        "test cases handed to the writer are well scoped (wf_suite): statements mention builtins, the module alias, pytest, "
        "public SUT names and variables bound earlier; assertion references are bound (C15/C19)",
        "a deterministic SUT: a statement raises under pytest what it raised when the writer re-executed it; kept "
        "assertions hold (C20/C21); pytest.raises(E) accepts exactly the recorded class name",
        "names are bound to the intended objects (a SUT public name shadowing a builtin or `pytest` is not modelled)",
    ]
    ctx.cov["trusted_base"] += [
        "hand-written model Models/C18.v tied by the stub-suite correspondence of this run",
        "harness/props/_c18_lib.py (ast name analysis, pytest runner), _c18_stub.py (generator, abstraction)",
        "CPython, pytest, libcst, black: outside the model, sampled by the runtime oracle",
    ]
    ctx.notes.append(f"e2e status: {stats}; exports that failed altogether are counted, not judged (value rendering is C20/C23)")


def replay(ctx, path):
    vlib.setup_impl_path()
    d = json.loads(open(path).read())["replay"]
    scratch = ctx.mkscratch()
    if d["kind"] == "filter":
        import random as _r

        print("differences now:", assertion_filter_differences(_r.Random(0), 300)[:2])
        return 0
    if d["kind"] == "seedpatch":
        print("differences now:", seed_patch_differences(ctx.repo, [0]))
        return 0
    if d["kind"] == "stub":
        rec = eval_stub(d["spec"], str(scratch / "r"))
        fn = "test_replay.py"
        (scratch / "r" / fn).write_text(rec["src"])
        pr = L.run_pytest([fn], str(scratch / "r"), [str(S.STUB_DIR)])
        print(rec["src"])
        print("oracle:", stub_failures(rec, pr, fn))
        case = S.c_case(rec["spec"], rec["spec"]["module"], S.public_names(rec["spec"]["module"]), rec["abstract"], rec["tops"], rec["ofuncs"])
        print("model agrees:", ctx.coq_eval("From Verif Require Import Models.C18.", "C18.check_case " + case))
    else:
        res = e2e_job(tuple(d["job"]), ctx.repo, scratch)
        print("fresh generation:", {k: v for k, v in res.items() if k != "src"})
        if not d.get("written_file"):
            return 0
        fn = "test_replayed.py"
        (scratch / fn).write_text(d["written_file"])
        pr = L.run_pytest([fn], str(scratch), [str(SUT_DIR)])
        print("stored file under pytest:", L.judge_file(d["written_file"], fn, pr), L.static_unbound(d["written_file"]))
    shutil.rmtree(scratch, ignore_errors=True)
    return 0
