"""C29 — filesystem isolation: T (static proofs), K2 (operation sequences run inside a real
FilesystemIsolation over a sandbox tree, replayed step by step by the Coq model: result kind, the
_created set and the whole tree after every operation and after exit), S (direct oracle: sandbox
tree before == after)."""
from __future__ import annotations

import json
import multiprocessing as mp
import os
import random

import vlib
from vlib import clist, cpair

from props import _c29_fs as F

SRC = ["src/pynguin/utils/fs_isolation.py", "src/pynguin/testcase/execution.py", "src/pynguin/testcase/export.py"]
IMPORTS = "From Verif Require Import Models.C29.\nOpen Scope Z_scope."


# ---------------------------------------------------------------------------------------------
def c_path(p):
    return clist(str(int(c)) for c in p)


def c_node(n):
    return "C29.Dir" if n == "D" else "C29.File " + clist(str(ord(ch)) for ch in n)


def c_tree(t):
    return clist(cpair(c_path(p), c_node(n)) for p, n in t)


def c_op(op):
    k = op[0]
    if k == "Open":
        return f"C29.Open {c_path(op[1])} C29.{op[2]} {clist(str(ord(ch)) for ch in op[3])}"
    if k == "OsOpen":
        acc, creat, excl, trunc, append, tmpfile = op[2]
        fl = ("{| C29.acc := C29.%s; C29.o_creat := %s; C29.o_excl := %s; C29.o_trunc := %s; C29.o_append := %s; "
              "C29.o_tmpfile := %s |}") % (acc, *(vlib.cbool(b) for b in (creat, excl, trunc, append, tmpfile)))
        return f"C29.OsOpen {c_path(op[1])} {fl} {clist(str(ord(ch)) for ch in op[3])}"
    if k in ("Mkdir", "Makedirs"):
        return f"C29.{k} {c_path(op[1])} {vlib.cbool(op[2])}"
    if k in ("Rename", "CopyFile", "Copy", "Move"):
        return f"C29.{k} {c_path(op[1])} {c_path(op[2])}"
    return f"C29.{k} {c_path(op[1])}"


def modelable(rec) -> bool:
    """Symlinks / foreign names never appear in model-tied cases unless the implementation misbehaves badly."""
    for t in [rec["before"], rec["after"]] + [s[3] for s in rec["steps"]]:
        for p, n in t:
            if n.startswith(F.LINK) or any(isinstance(c, str) for c in p):
                return False
    return True


def c_case(init, rec):
    steps = clist(
        cpair(c_op(op), cpair("C29." + r, cpair(clist(c_path(p) for p in cr), c_tree(t))))
        for op, r, cr, t in rec["steps"]
    )
    extra = clist(c_path(p) for p in EXTRA)
    return cpair(c_tree(init), cpair(steps, cpair(c_tree(rec["after"]), extra)))


# every path of depth <= 2 over the alphabet is probed after every step (besides everything the
# model or the implementation ever mention)
EXTRA = [(a,) for a in range(len(F.NAMES))] + [(a, b) for a in range(len(F.NAMES)) for b in range(len(F.NAMES))]


def _norm_spell(c):
    sp = c.get("spell")
    return None if sp is None else [[(k, int(v)) for k, v in specs] for specs in sp]


def _norm_case(c):
    return _norm_case2(c) + (bool(c.get("tmp_sibling", False)), _norm_spell(c))


def _norm_case2(c):
    init = [(tuple(p), n) for p, n in c["init"]]
    ops = []
    for o in c["ops"]:
        o = list(o)
        o[1] = tuple(o[1])
        if o[0] in ("Rename", "CopyFile", "Copy", "Move"):
            o[2] = tuple(o[2])
        if o[0] == "OsOpen":
            o[2] = (o[2][0],) + tuple(bool(b) for b in o[2][1:])
        ops.append(tuple(o))
    return init, ops


def _json_case(init, ops, tmp_sibling=False, spell=None):
    return {"tmp_sibling": tmp_sibling, "spell": None if spell is None else [[list(x) for x in sp] for sp in spell], "init": [[list(p), n] for p, n in init], "ops": [[list(x) if isinstance(x, tuple) else x for x in o] for o in ops]}


def _prefix_sibling_touched(rec) -> bool:
    """Did an operation name a pre-existing path while a path created in isolation was a plain string
    prefix of its name without being a parent (or the other way round)?  Only a coverage counter."""
    pre = {p for p, _ in rec["before"]}
    for op, _r, cr, _t in rec["steps"]:
        args = [a for a in op[1:3] if isinstance(a, tuple)]
        for a in args:
            if a in pre or any(a[:k] in pre for k in range(1, len(a))):
                sa = "/".join(F.NAMES[c] for c in a)
                for c in cr:
                    sc = "/".join(F.NAMES[x] for x in c)
                    if sa != sc and sa.startswith(sc) and a[:len(c)] != c:
                        return True
    return False


def _worker(args):
    root, chunk = args
    vlib.setup_impl_path()
    import logging

    # clean-up of stale records below a path that meanwhile became a file logs a warning per path
    logging.getLogger("pynguin.utils.fs_isolation").setLevel(logging.ERROR)
    out = []
    for k, (init, ops, sib, spell) in enumerate(chunk):
        out.append(F.run_case(os.path.join(root, f"sb{k}"), init, ops, sib, spell))
    return out


def run_all(ctx, cases):
    scratch = str(ctx.mkscratch())
    nproc = 1 if ctx.quick else 12
    if nproc == 1:
        return _worker((os.path.join(scratch, "w0"), cases))
    chunks = [cases[i::nproc] for i in range(nproc)]
    with mp.get_context("fork").Pool(nproc) as pool:
        res = pool.map(_worker, [(os.path.join(scratch, f"w{i}"), ch) for i, ch in enumerate(chunks)])
    out = [None] * len(cases)
    for i, r in enumerate(res):
        out[i::nproc] = r
    return out


def shrink(ctx, init, ops, cls, sib=False, spell=None):
    scratch = str(ctx.mkscratch())
    spell = spell if spell is not None else [[("plain", 0)] * F.n_paths(o) for o in ops]

    def fails(i2, o2, s2=None):
        try:
            r = F.oracle(F.run_case(os.path.join(scratch, "shrink"), i2, o2, sib, s2 if s2 is not None else spell))
        except Exception:  # noqa: BLE001
            return False
        return r is not None and r[0] == cls

    changed = True
    while changed:
        changed = False
        for i in range(len(ops)):
            cand, scand = ops[:i] + ops[i + 1:], spell[:i] + spell[i + 1:]
            if fails(init, cand, scand):
                ops, spell, changed = cand, scand, True
                break
    # simplify spellings: plain wherever the failure survives
    for i in range(len(ops)):
        for j in range(len(spell[i])):
            if spell[i][j][0] != "plain":
                scand = [list(x) for x in spell]
                scand[i][j] = ("plain", 0)
                if fails(init, ops, scand):
                    spell = scand
    for i in range(len(init) - 1, -1, -1):
        cand = init[:i] + init[i + 1:]
        # keep the tree parent-closed
        if all(len(p) == 1 or any(q == p[:-1] and n == "D" for q, n in cand) for p, _ in cand) and fails(cand, ops):
            init = cand
    return init, ops, spell


def run(ctx: vlib.Ctx):
    vlib.setup_impl_path()
    ctx.digest_sources(SRC)
    ctx.coq_static()
    if not ctx.quick:
        ctx.coqchk()
    n_seq = 360 if ctx.quick else 5000
    corpus = json.loads((vlib.VERIF / "corpus" / "C29.json").read_text())
    # every corpus case runs in both sandbox layouts (plain / sandbox root = "<private temp dir>_sb")
    cases = [_norm_case2(c) + (sib, _norm_spell(c)) for c in corpus for sib in (False, True)]
    for _ in range(n_seq):
        init = F.gen_init(ctx.rng)
        ops = F.gen_ops(ctx.rng, init, ctx.rng.choice([2, 4, 6, 8, 12]))
        sib = ctx.rng.random() < 0.35
        # two thirds of the sequences name their paths in other spellings (., .., //, trailing /, relative)
        cases.append((init, ops, sib, F.gen_spell(ctx.rng, ops) if ctx.rng.random() < 0.67 else None))
    # oracle-only layouts: pre-existing symbolic links (dangling, to a file, to a directory); the model is
    # symlink-free, so these sequences are not replayed in Coq and their paths are spelled plainly
    n_links = 90 if ctx.quick else 1500
    for _ in range(n_links):
        init = F.gen_init_links(ctx.rng)
        cases.append((init, F.gen_ops(ctx.rng, init, ctx.rng.choice([2, 4, 6, 8])), ctx.rng.random() < 0.2, None))
    recs = run_all(ctx, cases)
    # S: the property on the real filesystem
    n_or = 0
    seen_sig = set()
    for (init, ops, sib, spell), rec in zip(cases, recs):
        ctx.case_seen((init, ops, sib, spell), nontrivial=len(rec["steps"]) > 0)
        for kind in rec["spelled"]:
            ctx.count("spelling:" + kind)
        ctx.count("layout:" + ("root-is-tmpdir-plus-suffix" if sib else "plain") + ("+symlinks" if F.has_links(init) else ""))
        ctx.count("prefix-sibling-touched", int(_prefix_sibling_touched(rec)))
        ctx.count("skipped-outside-model", rec["skipped"])
        for op, r, cr, _t in rec["steps"]:
            ctx.count("op:" + F.op_kind(op))
            ctx.count("flavour:" + op[-1])
            ctx.count("res:" + r)
        ctx.count("created-nonempty-at-exit", int(bool(rec["steps"] and rec["steps"][-1][2])))
        o = F.oracle(rec)
        if o:
            n_or += 1
            if n_or > 40 and not ctx.quick:
                continue
            i2, o2, sp2 = shrink(ctx, init, list(ops), o[0], sib, spell)
            sig = o[0] + ":" + "+".join(sorted({F.op_kind(x) for x in o2}))
            if sig in seen_sig:
                continue
            seen_sig.add(sig)
            rec2 = F.run_case(os.path.join(str(ctx.mkscratch()), "final"), i2, o2, sib, sp2)
            msg = (F.oracle(rec2) or o)[1]
            ctx.fail(sig, f"{msg}; operations: {[(x[0], x[-1]) for x in o2]}", _json_case(i2, o2, sib, sp2) | {"names": F.NAMES})
    ctx.leg("S", oracle_failures=n_or, sequences=len(cases))
    k0 = 2 * len(corpus)
    init, ops, _sib, _spell = cases[k0]
    ctx.sample({"init": [[list(p), n] for p, n in init], "ops": [repr(o) for o in ops],
                "results": [s[1] for s in recs[k0]["steps"]], "created_at_end": [list(p) for p in (recs[k0]["steps"][-1][2] if recs[k0]["steps"] else [])]})
    ctx.cov["rule"] = ("random sequences of 2..12 operations (open r/w/a/x/r+ via builtins.open, io.open, Path.open, os.open; os.open with "
                       "arbitrary flag sets incl. O_TRUNC/O_EXCL/O_APPEND/O_CREAT/O_TMPFILE without a write access mode; "
                       "Path.write_text/bytes; touch; mkdir/makedirs with exist_ok; rename/replace; copyfile/copy/copy2/move; "
                       "remove/unlink/rmdir/rmtree) over sandbox trees with pre-existing files and directories, plus the "
                       "minimised-failure corpus; non-trivial = at least one executed operation; distinct = distinct (tree, ops)")
    # K2: the Coq model replays every sequence
    tied = [i for i in range(len(recs)) if not F.has_links(cases[i][0])]
    usable = [i for i in tied if modelable(recs[i])]
    coq_cases = [c_case(cases[i][0], recs[i]) for i in usable]
    bad = ctx.run_cases("C29_cases", IMPORTS, "C29.case", "C29.check_case", coq_cases, shard=60)
    if bad is None:
        pass
    elif bad or len(usable) < len(tied):
        ctx.leg("K2", ok=False, mismatches=len(bad), unmodelable=len(tied) - len(usable))
        if n_or == 0:
            i = usable[bad[0]] if bad else next(j for j in tied if j not in usable)
            ctx.broken("correspondence:C29-model-vs-fs_isolation",
                       "the isolation model (about which the theorems are proved) no longer reproduces FilesystemIsolation",
                       {"case": _json_case(cases[i][0], cases[i][1], cases[i][2], cases[i][3]),
                        "implementation": [[repr(s[0]), s[1], [list(p) for p in s[2]]] for s in recs[i]["steps"]],
                        "mismatching_sequences": len(bad)})
    else:
        ctx.leg("K2", ok=True, sequences=len(coq_cases), oracle_only_symlink_sequences=len(recs) - len(tied))
    ctx.assumptions += [
        "model-tied sequences: no symlinks, hard links, dir_fd or file-descriptor arguments; the working directory is outside the sandbox and is not changed (path spellings incl. relative ones are exercised)",
        "pre-existing symbolic links (dangling / to a file / to a directory) are covered by the direct oracle only (lstat snapshot before == after), not by the Coq model or its theorems",
        "the filesystem behaves like a POSIX tree (function path -> file content | directory); error kinds are abstracted to ok / refused by the isolation layer / other error",
        "shutil.copytree and shutil.move of a directory to a destination with a missing parent (copytree+rmtree fall-back) are outside the model",
        "the private temporary directory of the isolation is outside the sandbox and not observed",
    ]
    ctx.cov["trusted_base"] += ["hand-written model Models/C29.v tied by step-wise correspondence (this run)",
                                "harness/props/C29.py, _c29_fs.py (generator, sandbox driver, tree snapshots, oracle)"]


def replay(ctx, path):
    vlib.setup_impl_path()
    d = json.loads(open(path).read())["replay"]
    if "case" in d:
        d = d["case"]
    init, ops, sib, spell = _norm_case(d)
    rec = F.run_case(os.path.join(str(ctx.mkscratch()), "replay"), init, ops, sib, spell)
    print("before:", rec["before"])
    for op, r, cr, t in rec["steps"]:
        print(" ", op, "->", r, "| _created:", cr)
    print("after: ", rec["after"])
    print("oracle:", F.oracle(rec))
    print("model agrees:", ctx.coq_eval(IMPORTS, "C29.check_case " + c_case(init, rec)))
    import shutil

    shutil.rmtree(ctx.scratch, ignore_errors=True)
    return 0
