"""C22 helpers: drive the real minimisation code (postprocess.py visitors, generator._minimize) on
synthetic chromosomes with table-driven coverage functions and on suites produced by real
searches; record every coverage query; encode cases for the Coq model; direct oracles."""
from __future__ import annotations

import os
import re
import sys
import traceback
from fractions import Fraction

STRATS = ["CASE", "SUITE", "COMBINED"]
DIRS = ["FORWARD", "BACKWARD"]


# =================================================================================================
# snapshots (plain data) of real chromosomes
def _mods():
    import libcst as cst
    import pynguin.assertion.assertion as ass
    import pynguin.configuration as config
    import pynguin.ga.computations as ff
    import pynguin.ga.postprocess as pp
    import pynguin.ga.testcasechromosome as tcc
    import pynguin.ga.testsuitechromosome as tsc
    import pynguin.generator as gen
    import pynguin.testcase.testcase as tc
    from pynguin.utils.orderedset import OrderedSet

    return dict(cst=cst, ass=ass, config=config, ff=ff, pp=pp, tcc=tcc, tsc=tsc, gen=gen, tc=tc,
                OrderedSet=OrderedSet)


_EMPTY = None


def stmt_code(node) -> str:
    global _EMPTY
    import libcst as cst

    if _EMPTY is None:
        _EMPTY = cst.Module([])
    return _EMPTY.code_for_node(node).strip()


def snap_stmt(test_case, s) -> dict:
    import pynguin.assertion.assertion as ass

    new_node = test_case._transform_assign_to_expr(s.node)  # noqa: SLF001
    roots, kinds = [], []
    for a in s.assertions:
        kinds.append(type(a).__name__)
        if isinstance(a, ass.ExceptionAssertion):
            continue
        if isinstance(a, ass.ReferenceAssertion) and isinstance(a.source, str):
            roots.append((a.source.split(".", 1)[0], "." in a.source))
    return {
        "code": stmt_code(s.node), "ecode": stmt_code(new_node), "can_strip": new_node is not s.node,
        "bound": s.bound_variable, "uses": sorted(s.used_variables()),
        "asrc": [r for r, _ in roots], "dotted": sorted({r for r, d in roots if d}),
        "plain": sorted({r for r, d in roots if not d}), "akinds": kinds,
    }


def snap_tc(test_case) -> list[dict]:
    return [snap_stmt(test_case, s) for s in test_case.statements()]


def snap_suite(suite) -> list[list[dict]]:
    return [snap_tc(c.test_case) for c in suite.test_case_chromosomes]


def key_tc(test_case) -> tuple:
    return tuple(stmt_code(s.node) for s in test_case.statements())


def key_suite(suite) -> tuple:
    return tuple(key_tc(c.test_case) for c in suite.test_case_chromosomes)


def snap_key(snap) -> tuple:
    return tuple(tuple(s["code"] for s in t) for t in snap)


# =================================================================================================
# recording / synthetic coverage functions
def make_classes():
    m = _mods()
    ff = m["ff"]

    class Rec(ff.TestSuiteCoverageFunction):
        """Delegates to a real coverage function and logs (rendered suite, index, value)."""

        def __init__(self, inner, idx, log):
            super().__init__(getattr(inner, "_executor", None))
            self.inner, self.idx, self.log = inner, idx, log

        def compute_coverage(self, individual) -> float:
            v = self.inner.compute_coverage(individual)
            self.log.append((key_suite(individual), self.idx, v))
            return v

    class Synth(ff.TestSuiteCoverageFunction):
        """Table-driven coverage: every statement f<k>(...) covers a goal set that may depend on
        which statements ran before it in the same test case (state dependence)."""

        def __init__(self, spec):
            super().__init__(None)
            # JSON round trips turn the integer keys into strings
            self.spec = {"total": spec["total"],
                         "goals": {int(k): (list(v[0]), [(int(d), list(a)) for d, a in v[1]]) for k, v in spec["goals"].items()}}

        def goals(self, individual):
            covered = set()
            for c in individual.test_case_chromosomes:
                seen = set()
                for s in c.test_case.statements():
                    k = fname(stmt_code(s.node))
                    base, conds = self.spec["goals"].get(k, ([], []))
                    g = base
                    for dep, alt in conds:
                        if dep in seen:
                            g = alt
                    covered.update(g)
                    seen.add(k)
            return covered

        def compute_coverage(self, individual) -> float:
            return len(self.goals(individual)) / self.spec["total"]

    return Rec, Synth


def fname(code: str) -> int:
    m = re.search(r"\bf(\d+)\(", code)
    return int(m.group(1)) if m else -1


def to_frac(v: float) -> Fraction:
    return Fraction(v).limit_denominator(100000)


def build_table(log, nff):
    """{suite key: [Fraction per coverage function]}; raises when the implementation obtained two
    different values for the same rendered suite (non-deterministic oracle)."""
    tab: dict = {}
    for k, idx, v in log:
        row = tab.setdefault(k, [None] * nff)
        fv = to_frac(v)
        if row[idx] is not None and row[idx] != fv:
            raise NonDeterministic(f"coverage function {idx} returned {row[idx]} and {fv} for the same suite")
        row[idx] = fv
    return {k: row for k, row in tab.items() if all(x is not None for x in row)}


class NonDeterministic(Exception):
    pass


# =================================================================================================
# synthetic suites (plain descriptions -> real chromosomes)
def gen_synth(rng, big=False):
    """Description of a synthetic suite: tests = list of statements
    {k, bound, args, asserts:[(kind, source)]}, specs = coverage specifications."""
    ntests = rng.choice([1, 1, 2, 2, 3, 4] + ([5, 6] if big else []))
    k = 0
    tests = []
    for _ in range(ntests):
        if tests and rng.random() < 0.12:
            tests.append([dict(s) for s in rng.choice(tests)])  # exact duplicate test case
            continue
        n = rng.choice([0, 1, 2, 3, 4, 5, 6] + ([8, 10] if big else []))
        stmts, vars_ = [], []
        for _ in range(n):
            nargs = rng.choice([0, 0, 1, 1, 2])
            args = [rng.choice(vars_) for _ in range(nargs)] if vars_ else []
            form = rng.random()
            bound = f"v{k}" if form < 0.85 else None
            if form >= 0.97 and vars_:
                bound = rng.choice(vars_)  # re-binding of an existing name (not produced by pynguin)
            asserts = []
            r = rng.random()
            if r < 0.30 and bound:
                asserts.append(("obj", bound))
            elif r < 0.40 and vars_:
                asserts.append(("obj", rng.choice(vars_)))
            elif r < 0.50 and (vars_ or bound):
                asserts.append(("obj", rng.choice(vars_ + ([bound] if bound else [])) + ".attr"))
            elif r < 0.55:
                asserts.append(("obj", "mod_.GLOBAL"))
            elif r < 0.60:
                asserts.append(("exc", None))
            if rng.random() < 0.1 and bound:
                asserts.append(("len", bound))
            stmts.append({"k": k, "bound": bound, "args": args, "asserts": asserts})
            if bound and bound not in vars_:
                vars_.append(bound)
            k += 1
        tests.append(stmts)
    specs = []
    for _ in range(rng.choice([1, 2, 2])):
        total = rng.choice([3, 4, 6, 8])
        goals = {}
        for t in tests:
            prev = []
            for s in t:
                if s["k"] in goals:
                    prev.append(s["k"])
                    continue
                base = sorted(rng.sample(range(total), rng.choice([0, 0, 1, 1, 2])))
                conds = []
                if prev and rng.random() < 0.35:
                    if base and rng.random() < 0.7:  # same size, other goals: ratio-preserving swap
                        alt = sorted(rng.sample(range(total), len(base)))
                    else:
                        alt = sorted(rng.sample(range(total), rng.choice([0, 1, 2])))
                    conds.append((rng.choice(prev), alt))
                goals[s["k"]] = (base, conds)
                prev.append(s["k"])
        specs.append({"total": total, "goals": goals})
    return {"tests": tests, "specs": specs}


def synth_stmt_code(s) -> str:
    call = f"f{s['k']}({', '.join(s['args'])})"
    return f"{s['bound']} = {call}" if s["bound"] else call


def build_tc(desc_stmts):
    m = _mods()
    cst, tc, ass = m["cst"], m["tc"], m["ass"]
    t = tc.TestCase()
    for s in desc_stmts:
        assertions = []
        for kind, src in s["asserts"]:
            if kind == "obj":
                assertions.append(ass.ObjectAssertion(src, 1))
            elif kind == "len":
                assertions.append(ass.CollectionLengthAssertion(src, 2))
            else:
                assertions.append(ass.ExceptionAssertion("builtins", "ValueError"))
        t.add_statement(tc.Statement(node=cst.parse_statement(synth_stmt_code(s)), bound_variable=s["bound"],
                                     bound_type=int if s["bound"] else None, assertions=assertions))
    return t


def build_suite(desc, ffs=()):
    m = _mods()
    s = m["tsc"].TestSuiteChromosome()
    for f in ffs:
        s.add_coverage_function(f)
    for t in desc["tests"]:
        s.add_test_case_chromosome(m["tcc"].TestCaseChromosome(build_tc(t)))
    return s


def set_minimization(strat, direction):
    m = _mods()
    config = m["config"]
    if config.configuration is None or not isinstance(getattr(config, "configuration", None), config.Configuration):
        config.configuration = config.Configuration(
            project_path="/var/tmp", module_name="mod",
            test_case_output=config.TestCaseOutputConfiguration(output_path="/var/tmp"),
            algorithm=config.Algorithm.DYNAMOSA,
        )
    mn = config.configuration.test_case_output.minimization
    mn.test_case_minimization_strategy = config.MinimizationStrategy[strat]
    mn.test_case_minimization_direction = config.MinimizationDirection[direction]
    config.configuration.test_case_output.post_process = True


class _Algo:
    def __init__(self, ffs):
        self.test_suite_coverage_functions = ffs


def run_minimize(suite, ffs):
    """generator._minimize as _run() calls it (exceptions are logged there and swallowed).
    Returns (error or None, list of _check_coverage verdicts, suite-visitor deletions)."""
    m = _mods()
    gen, pp = m["gen"], m["pp"]
    verdicts, deleted = [], []
    orig_check = gen._check_coverage  # noqa: SLF001
    orig_visit = pp.TestSuiteMinimizationVisitor.visit_test_suite_chromosome

    def check(a, b):
        r = orig_check(a, b)
        verdicts.append((list(a), list(b), r))
        return r

    def visit(self, chromosome):
        before = list(key_suite(chromosome))
        orig_visit(self, chromosome)
        after = list(key_suite(chromosome))
        for t in after:
            before.remove(t)
        deleted.extend(before)

    gen._check_coverage = check  # noqa: SLF001
    pp.TestSuiteMinimizationVisitor.visit_test_suite_chromosome = visit
    err = None
    try:
        gen._minimize(suite, _Algo(ffs))  # noqa: SLF001
    except Exception as e:  # noqa: BLE001
        err = f"{type(e).__name__}: {e}"
    finally:
        gen._check_coverage = orig_check  # noqa: SLF001
        pp.TestSuiteMinimizationVisitor.visit_test_suite_chromosome = orig_visit
    return err, verdicts, deleted


# =================================================================================================
# direct oracles on snapshots (independent of the Coq model)
def embed(result, original):
    """Greedy order-preserving embedding of result tests into original tests such that each result
    test is a subsequence of its original (a statement matches itself or its 'v = e' -> 'e' form).
    Returns the list of original indices, or (None, index of first result test that does not fit)."""
    def fits(r, o):
        j = 0
        for s in r:
            while j < len(o) and s["code"] not in (o[j]["code"], o[j]["ecode"]):
                j += 1
            if j == len(o):
                return False
            j += 1
        return True

    img, j = [], 0
    for i, r in enumerate(result):
        while j < len(original) and not fits(r, original[j]):
            j += 1
        if j == len(original):
            return None, i
        img.append(j)
        j += 1
    return img, None


def asserted_binders(test):
    """(index, statement, via) of the statements whose bound variable is asserted on: the root name of
    the source of a reference assertion anywhere in the test case."""
    plain, dotted = set(), set()
    for s in test:
        plain.update(s["plain"])
        dotted.update(s["dotted"])
    binders: dict = {}
    for s in test:
        if s["bound"] is not None:
            binders[s["bound"]] = binders.get(s["bound"], 0) + 1
    res = []
    for i, s in enumerate(test):
        if s["bound"] is not None and binders[s["bound"]] != 1:
            continue  # re-bound names do not occur in generated tests; the property is about those
        if s["bound"] is not None and s["bound"] in plain:
            res.append((i, s, "plain"))
        elif s["bound"] is not None and s["bound"] in dotted:
            res.append((i, s, "dotted"))
    return res


def oracle(strat, direction, original, result, cov_before, cov_after, deleted):
    """Returns a list of (signature, message, detail)."""
    out = []
    tag = f"{strat}:{direction}"
    # 1. coverage of every optimised function, recomputed from scratch
    for n, (a, b) in enumerate(zip(cov_before, cov_after, strict=True)):
        if abs(a - b) > 1e-9:
            out.append((f"coverage-lost:{tag}" if b < a else f"coverage-changed:{tag}",
                        f"coverage function {n}: {a} before, {b} after minimisation", {"function": n, "before": a, "after": b}))
            break
    # 2. no new statements, order kept
    img, bad = embed(result, original)
    if img is None:
        out.append((f"foreign-statement:{tag}",
                    f"result test {bad} is not a subsequence of any remaining original test",
                    {"result_test": [s["code"] for s in result[bad]]}))
        return out
    # 3. asserted-on statements kept
    deleted_codes = {c for t in deleted for c in t}
    kept = {j: result[i] for i, j in enumerate(img)}
    for j, t in enumerate(original):
        for _, s, via in asserted_binders(t):
            r = kept.get(j)
            if r is not None and any(x["code"] == s["code"] for x in r):
                continue
            if r is not None and any(x["code"] == s["ecode"] for x in r):
                out.append((f"protected-unbound:{tag}:{via}",
                            f"asserted variable {s['bound']} lost its binding: '{s['code']}' became '{s['ecode']}'",
                            {"statement": s["code"], "test": j}))
                continue
            if strat == "SUITE" and r is None and (s["code"] in deleted_codes):
                out.append(("protected-lost:SUITE:whole-test-removed",
                            f"test case {j} holding the asserted statement '{s['code']}' was removed as redundant",
                            {"statement": s["code"], "test": j}))
                continue
            out.append((f"protected-lost:{tag}:{via}",
                        f"statement '{s['code']}' (variable {s['bound']} is asserted on) was removed",
                        {"statement": s["code"], "test": j}))
    return out


# =================================================================================================
# Coq encoding
class Intern:
    def __init__(self):
        self.d = {}

    def __call__(self, x):
        return self.d.setdefault(x, len(self.d))


def cZ(n):
    return f"({int(n)})%Z"


def cl(xs):
    return "[" + "; ".join(xs) + "]"


def c_stmt(s, ic, iv):
    b = "None" if s["bound"] is None else f"(Some {cZ(iv(s['bound']))})"
    return (f"C22.mkStmt {cZ(ic(s['code']))} {cZ(ic(s['ecode']))} {'true' if s['can_strip'] else 'false'} {b} "
            f"{cl(cZ(iv(u)) for u in s['uses'])} {cl(cZ(iv(u)) for u in s['asrc'])}")


def c_tc(t, ic, iv):
    return cl("(" + c_stmt(s, ic, iv) + ")" for s in t)


def c_suite(snap, ic, iv):
    return cl(c_tc(t, ic, iv) for t in snap)


def c_key(k, ic):
    return cl(cl(cZ(ic(c)) for c in t) for t in k)


def c_q(fr: Fraction):
    return f"(Qmake {cZ(fr.numerator)} {fr.denominator}%positive)"


def c_tab(tab, ic):
    return cl(f"({c_key(k, ic)}, {cl(c_q(x) for x in row)})" for k, row in tab.items())


# =================================================================================================
# one synthetic case through the real code
def run_synth_case(desc, kind, arg=None):
    """kind: ('minimize', strat, dir) | 'forward' | 'backward' | 'suite' | 'combined' |
    'protected' | ('remove_fwd', i) | 'ruv'.  Operates on test 0 for test-case-level kinds.
    Returns dict(coq=term, obs=..., oracle=[...])."""
    m = _mods()
    pp, OrderedSet = m["pp"], m["OrderedSet"]
    Rec, Synth = make_classes()
    ic, iv = Intern(), Intern()
    log: list = []
    inner = [Synth(sp) for sp in desc["specs"]]
    ffs = OrderedSet([Rec(f, i, log) for i, f in enumerate(inner)])
    res = {"kind": kind, "oracle": []}
    name = kind if isinstance(kind, str) else kind[0]
    if name == "minimize":
        _, strat, direction = kind
        set_minimization(strat, direction)
        suite = build_suite(desc, ffs)
        original = snap_suite(suite)
        cov_before = [f.compute_coverage(suite) for f in inner]
        err, verdicts, deleted = run_minimize(suite, ffs)
        result = snap_suite(suite)
        cov_after = [f.compute_coverage(suite) for f in inner]
        restored = any(not v[2] for v in verdicts)
        tab = build_table(log, len(inner))
        res["coq"] = (f"C22.KMinimize C22.{strat} C22.{direction} {c_suite(original, ic, iv)} {c_tab(tab, ic)} "
                      f"{c_key(snap_key(result), ic)} {'true' if restored else 'false'}")
        res["obs"] = {"result": [list(t) for t in snap_key(result)], "restored": restored, "error": err,
                      "cov_before": cov_before, "cov_after": cov_after}
        res["oracle"] = oracle(strat, direction, original, result, cov_before, cov_after, deleted)
        if err:
            res["oracle"].append((f"minimize-raised:{strat}:{direction}", f"_minimize raised {err}", {}))
        return res
    if name in ("forward", "backward"):
        t = build_tc(desc["tests"][0])
        original = snap_tc(t)
        V = pp.ForwardIterativeMinimizationVisitor if name == "forward" else pp.BackwardIterativeMinimizationVisitor
        vis = V(ffs)
        vis.visit_default_test_case(t)
        result = snap_tc(t)
        tab = build_table(log, len(inner))
        ctor = "KForward" if name == "forward" else "KBackward"
        res["coq"] = f"C22.{ctor} {c_tc(original, ic, iv)} {c_tab(tab, ic)} {cl(cZ(ic(s['code'])) for s in result)}"
        res["obs"] = {"result": [s["code"] for s in result], "removed": vis.removed_statements}
        if vis.removed_statements != len(original) - len(result):
            res["oracle"].append((f"removed-count:{name}", "removed_statements disagrees with the size difference", {}))
        for sig in oracle("VISITOR", name.upper(), [original], [result], [0.0], [0.0], []):
            res["oracle"].append(sig)
        return res
    if name in ("suite", "combined"):
        suite = build_suite(desc, ffs)
        original = snap_suite(suite)
        V = pp.TestSuiteMinimizationVisitor if name == "suite" else pp.CombinedMinimizationVisitor
        cov_before = [f.compute_coverage(suite) for f in inner]
        suite.accept(V(ffs))
        cov_after = [f.compute_coverage(suite) for f in inner]
        result = snap_suite(suite)
        tab = build_table(log, len(inner))
        ctor = "KSuite" if name == "suite" else "KCombined"
        res["coq"] = f"C22.{ctor} {c_suite(original, ic, iv)} {c_tab(tab, ic)} {c_key(snap_key(result), ic)}"
        res["obs"] = {"result": [list(t) for t in snap_key(result)]}
        if name == "combined":
            res["oracle"] = oracle("VISITOR", "COMBINED", original, result, cov_before, cov_after, [])
        return res
    if name == "protected":
        t = build_tc(desc["tests"][0])
        original = snap_tc(t)
        prot = sorted(pp.get_assertion_protected_variables(t))
        res["coq"] = f"C22.KProtected {c_tc(original, ic, iv)} {cl(cZ(iv(v)) for v in prot)}"
        res["obs"] = {"protected": prot}
        return res
    if name == "remove_fwd":
        t = build_tc(desc["tests"][0])
        original = snap_tc(t)
        i = kind[1]
        removed = t.remove_statement_with_forward_dependencies(i)
        result = snap_tc(t)
        res["coq"] = f"C22.KRemoveFwd {c_tc(original, ic, iv)} {i}%nat {cl(cZ(ic(s['code'])) for s in result)}"
        res["obs"] = {"result": [s["code"] for s in result], "removed": sorted(removed)}
        return res
    if name == "ruv":
        t = build_tc(desc["tests"][0])
        original = snap_tc(t)
        t.remove_unused_variables()
        result = snap_tc(t)
        res["coq"] = (f"C22.KRuv {c_tc(original, ic, iv)} "
                      + cl(f"({cZ(ic(s['code']))}, {'true' if s['bound'] is not None else 'false'})" for s in result))
        res["obs"] = {"result": [s["code"] for s in result]}
        for o, r in zip(original, result, strict=True):
            if o["akinds"] != r["akinds"]:
                res["oracle"].append(("assertions-dropped:ruv", f"'{o['code']}' lost its assertions (C19)", {}))
                break
        return res
    raise ValueError(kind)


# =================================================================================================
# real runs (executed in a child process)
def real_run(spec):
    """spec: dict(repo, project, module, seed, iterations, algorithm, assertions, metrics, combos).
    Returns dict(cases=[{combo, coq, obs, oracle}], info=..., error=...)."""
    try:
        return _real_run(spec)
    except Exception as e:  # noqa: BLE001
        return {"error": f"{type(e).__name__}: {e}", "traceback": traceback.format_exc()[-2500:], "spec": spec, "cases": []}


def _real_run(spec):
    import logging

    src = spec["repo"] + "/src"
    if src in sys.path:
        sys.path.remove(src)
    sys.path.insert(0, src)
    os.environ["PYNGUIN_DANGER_AWARE"] = "1"
    logging.disable(logging.CRITICAL)
    m = _mods()
    config, gen, pp, tsc, tcc, OrderedSet = m["config"], m["gen"], m["pp"], m["tsc"], m["tcc"], m["OrderedSet"]
    out = spec["scratch"]
    os.makedirs(out, exist_ok=True)
    cfg = config.Configuration(
        project_path=spec["project"], module_name=spec["module"],
        test_case_output=config.TestCaseOutputConfiguration(
            output_path=out, assertion_generation=config.AssertionGenerator[spec["assertions"]]),
        algorithm=config.Algorithm[spec["algorithm"]],
        stopping=config.StoppingConfiguration(
            maximum_iterations=spec["iterations"], maximum_search_time=-1,
            # the corpus modules cannot loop; generous limits keep a loaded machine from turning a
            # slow execution into a 'timeout' (which would look like lost coverage)
            maximum_test_execution_timeout=20, test_execution_time_per_statement=10),
        seeding=config.SeedingConfiguration(seed=spec["seed"]),
        search_algorithm=config.SearchAlgorithmConfiguration(
            chromosome_length=spec.get("length", 10), population=spec.get("population", 8)),
        statistics_output=config.StatisticsOutputConfiguration(
            report_dir=out, statistics_backend=config.StatisticsBackend.NONE,
            coverage_metrics=[config.CoverageMetric[x] for x in spec["metrics"]]),
    )
    gen.set_configuration(cfg)
    setup = gen._setup_and_check()  # noqa: SLF001
    if setup is None:
        return {"error": "setup failed", "spec": spec, "cases": []}
    executor, cluster, cp = setup
    algorithm = gen._instantiate_test_generation_strategy(executor, cluster, cp)  # noqa: SLF001
    result = algorithm.generate_tests()
    executor.clear_observers()
    executor.clear_remote_observers()
    gen._generate_assertions(executor, result, cluster)  # noqa: SLF001
    real_ffs = list(algorithm.test_suite_coverage_functions)
    Rec, _ = make_classes()

    def fresh_cov(suite):
        s = tsc.TestSuiteChromosome()
        for t in suite.test_case_chromosomes:
            s.add_test_case_chromosome(tcc.TestCaseChromosome(t.test_case.clone()))
        return [f.compute_coverage(s) for f in real_ffs]

    pre = snap_suite(result)
    if not any(pre):
        return {"error": None, "spec": spec, "cases": [], "info": {"skipped": "search produced no statements"}}
    cov_before = fresh_cov(result)
    if cov_before != fresh_cov(result):
        return {"error": None, "spec": spec, "cases": [], "info": {"skipped": "flaky suite"}}
    cases = []
    for strat, direction in spec["combos"]:
        mn = cfg.test_case_output.minimization
        mn.test_case_minimization_strategy = config.MinimizationStrategy[strat]
        mn.test_case_minimization_direction = config.MinimizationDirection[direction]
        c = result.clone()
        c.accept(pp.ExceptionTruncation())  # idempotent; gives the model its input
        s0 = snap_suite(c)
        log: list = []
        ffs = OrderedSet([Rec(f, i, log) for i, f in enumerate(real_ffs)])
        for f in ffs:
            c.add_coverage_function(f)
        err, verdicts, deleted = run_minimize(c, ffs)
        post = snap_suite(c)
        cov_after = fresh_cov(c)
        if cov_after != cov_before:
            # report a difference only when it is reproducible (three more measurements of both)
            again = [(fresh_cov(result), fresh_cov(c)) for _ in range(3)]
            if any(a != cov_before or b != cov_after for a, b in again):
                cases.append({"combo": [strat, direction], "oracle": [], "coq": None, "unstable": True,
                              "obs": {"cov_before": cov_before, "cov_after": cov_after, "again": again}})
                continue
        ic, iv = Intern(), Intern()
        entry = {"combo": [strat, direction], "oracle": oracle(strat, direction, pre, post, cov_before, cov_after, deleted)}
        if err:
            entry["oracle"].append((f"minimize-raised:{strat}:{direction}", f"_minimize raised {err}", {}))
        restored = any(not v[2] for v in verdicts)
        try:
            tab = build_table(log, len(real_ffs))
            if verdicts and snap_key(s0) not in tab:  # cached original coverage: what _minimize compared with
                tab[snap_key(s0)] = [to_frac(x) for x in verdicts[0][0]]
            entry["coq"] = (f"C22.KMinimize C22.{strat} C22.{direction} {c_suite(s0, ic, iv)} {c_tab(tab, ic)} "
                            f"{c_key(snap_key(post), ic)} {'true' if restored else 'false'}")
        except NonDeterministic as e:
            entry["coq"] = None
            entry["nondeterministic"] = str(e)
        entry["obs"] = {
            "original": [[s["code"] + ("   # assert " + ",".join(s["asrc"]) if s["asrc"] else "") for s in t] for t in pre],
            "result": [list(t) for t in snap_key(post)], "restored": restored, "error": err,
            "cov_before": cov_before, "cov_after": cov_after, "queries": len(log),
        }
        cases.append(entry)
    info = {"tests": len(pre), "statements": sum(len(t) for t in pre), "coverage": cov_before,
            "asserted": sum(len(asserted_binders(t)) for t in pre)}
    return {"error": None, "spec": spec, "cases": cases, "info": info}


def real_run_subprocess(spec, timeout=900):
    """Run real_run(spec) in a fresh interpreter (no fork hazards, clean sys.modules)."""
    import json
    import subprocess

    os.makedirs(spec["scratch"], exist_ok=True)
    sp = os.path.join(spec["scratch"], "spec.json")
    op = os.path.join(spec["scratch"], "result.json")
    with open(sp, "w") as f:
        json.dump(spec, f)
    env = dict(os.environ)
    env.update({"PYTHONPATH": spec["repo"] + "/src", "PYTHONHASHSEED": "0", "PYNGUIN_DANGER_AWARE": "1",
                "SE2P_PYNGUIN_VERIF": "1"})
    try:
        r = subprocess.run([sys.executable, os.path.abspath(__file__), sp, op], env=env, capture_output=True,
                           text=True, timeout=timeout)
    except subprocess.TimeoutExpired:
        return {"error": f"real run exceeded {timeout}s", "spec": spec, "cases": []}
    if not os.path.exists(op):
        return {"error": "real run produced no result", "traceback": (r.stderr or "")[-2500:], "spec": spec, "cases": []}
    with open(op) as f:
        return json.load(f)


if __name__ == "__main__":
    import json

    with open(sys.argv[1]) as f:
        _spec = json.load(f)
    _res = real_run(_spec)
    with open(sys.argv[2], "w") as f:
        json.dump(_res, f, default=str)
