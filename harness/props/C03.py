"""C03 — reported branch outcomes equal the branches actually taken.

T   Properties/C03.v: branches_exact for every well-formed instrumented CFG and every run.
K1b every real instrumented CFG (BRANCH metric) of the corpus is extracted — jump opcode, branch_value of
    the real networkx edges, probe kind from the real call arguments, probe positions, loop probes,
    handler blocks — and `check_cfg` is evaluated on it inside Coq; registry completeness (every live
    block ending in a conditional jump / FOR_ITER is a predicate with two goals, every code object
    without predicate is branch-less) is compared in the harness.
S   sys.monitoring BRANCH (+PY_START) events of the uninstrumented code mapped to (block, outcome)
    through instruction offsets vs the zero-distance sides / executed code objects of the trace.
"""
from __future__ import annotations

import concurrent.futures as cf
import dis
import json
import os

import vlib
from vlib import cbool, clist, cnat, cpair

from props import _c01_gen as G
from props import _c01_impl as I

SRC = ["src/pynguin/instrumentation/version/python3_10.py", "src/pynguin/instrumentation/version/python3_11.py",
       "src/pynguin/instrumentation/version/python3_12.py", "src/pynguin/instrumentation/controlflow.py",
       "src/pynguin/instrumentation/tracer.py", "src/pynguin/ga/coveragegoals.py"]

JUMPS = {"POP_JUMP_IF_TRUE": "C03.JT", "POP_JUMP_IF_FALSE": "C03.JF", "POP_JUMP_IF_NONE": "C03.JN",
         "POP_JUMP_IF_NOT_NONE": "C03.JNN"}
COND_OPS = set(JUMPS) | {"FOR_ITER"}
OPERATOR_METHODS = {"__eq__", "__ne__", "__lt__", "__le__", "__gt__", "__ge__", "__contains__", "__bool__", "__len__",
                    "<genexpr>", "<listcomp>"}


def extract_cfg(sp, coid, d):
    """Abstract one instrumented code object for the Coq checker; returns (term, problems, info)."""
    from bytecode.instr import TryBegin

    from pynguin.instrumentation.version import common as c

    meta = d["meta"]
    bcfg = meta.cfg.bytecode_cfg
    graph = meta.cfg.graph
    nodes = {n.index: n for n in meta.cfg.basic_block_nodes}
    preds = {(m.code_object_id, m.node.index): pid for pid, m in sp.existing_predicates.items()}
    handlers = set()
    for blk in bcfg:
        for e in blk:
            if isinstance(e, TryBegin):
                handlers.add(bcfg.get_block_index(e.target))
    problems, blocks, info = [], [], {"preds": 0, "for": 0, "none": 0, "pseudo_before_probe": 0, "passthrough": 0}
    # A FOR_ITER may target a block that holds only a TryBegin (the try region is re-entered on the way
    # to END_FOR).  Such a block has no instruction, cannot be left by an exception and is entered only
    # from its FOR_ITER: it is part of the exhaustion edge.
    passthrough = set()
    for b in d["blocks"]:
        origs0 = [e for e in b["inst"] if e[0] == "O"]
        if origs0 and origs0[-1][1] == "FOR_ITER" and b["index"] in nodes:
            jump_instr = [e for e in bcfg[b["index"]] if hasattr(e, "name") and e.name == "FOR_ITER"][-1]
            k = bcfg.get_block_index(jump_instr.arg)
            while k is not None and k in nodes and not any(e[0] in ("O", "A") for e in d["blocks"][k]["inst"]):
                ps = {u.index for u in graph.predecessors(nodes[k]) if hasattr(u, "index")}
                if ps != ({b["index"]} if not passthrough & ps else ps) and not ps <= passthrough | {b["index"]}:
                    break
                passthrough.add(k)
                k = d["blocks"][k]["next"]
    info["passthrough"] = len(passthrough)
    for b in d["blocks"]:
        bi = b["index"]
        els = b["inst"]
        origs = [e for e in els if e[0] == "O"]
        # probes of this block, by record
        recs = []
        k = 0
        while k < len(els):
            e = els[k]
            if e[0] == "A":
                rec = I.RECORDS[e[1]]
                m = len(rec["instrs"])
                if e[2] != 0 or [x[:3] for x in els[k:k + m]] != [("A", e[1], j) for j in range(m)]:
                    problems.append(f"block {bi}: snippet not contiguous")
                    break
                recs.append((k, k + m, rec))
                k += m
            else:
                k += 1
        eprobes, predrec = [], []
        for s, t, rec in recs:
            args = rec["args"]
            if rec["method"] == "executed_code_object":
                if not (bi == 0 and s == 0):
                    problems.append(f"block {bi}: code-object probe not at the very start")
                continue
            if rec["method"] == "executed_bool_predicate" and isinstance(args[0], c.InstrumentationConstantLoad):
                # loop probe: True at raw position right after the code-object probe / start, False after END_FOR
                before = [x for x in els[:s] if x[0] != "A"]
                if args[0].value is True:
                    if before:
                        problems.append(f"block {bi}: loop-body probe not at the start of the block")
                else:
                    if not (before and before[-1][0] == "O" and before[-1][1] == "END_FOR"):
                        problems.append(f"block {bi}: loop-exit probe not immediately after END_FOR")
                    if any(x[0] == "O" for x in before[:-1]):
                        problems.append(f"block {bi}: instructions before END_FOR in the exit block")
                eprobes.append((args[1].value, bool(args[0].value)))
            else:
                predrec.append((s, t, rec))
        last = origs[-1][1] if origs else None
        live = b["live"]
        hb = cbool(bi in handlers)
        ep = clist(cpair(cnat(p), cbool(v)) for p, v in eprobes)
        term = None
        if not live:
            if recs:
                problems.append(f"block {bi}: dead block was instrumented")
            term = "C03.TOther []"
        elif last in COND_OPS:
            node = nodes[bi]
            pid = preds.get((coid, bi))
            if pid is None:
                problems.append(f"block {bi}: ends in {last} but no predicate is registered")
                term = "C03.TOther []"
            else:
                info["preds"] += 1
                succ = {}
                for _u, v, data in graph.out_edges(node, data=True):
                    if hasattr(v, "index"):
                        succ[data.get("branch_value")] = v.index
                jump_instr = [e for e in bcfg[bi] if hasattr(e, "name") and e.name == last][-1]
                tgt = bcfg.get_block_index(jump_instr.arg)
                nxt = b["next"]
                if last == "FOR_ITER":
                    info["for"] += 1
                    if succ.get(True) != nxt or succ.get(False) != tgt:
                        problems.append(f"block {bi}: FOR_ITER edges labelled {succ}, body {nxt}, exit {tgt}")
                    if predrec:
                        problems.append(f"block {bi}: predicate probe inside a FOR_ITER block")
                    # the exit probe may live in a later block when END_FOR is not in the target block
                    term = f"C03.TFor {cnat(pid)} {cnat(nxt)} {cnat(_exit_block(d, tgt))}"
                else:
                    lbl = None
                    for val, idx in succ.items():
                        if idx == tgt and val is not None:
                            lbl = val
                    if tgt == nxt:
                        lbl = None
                    if lbl is None or succ.get(not lbl) != nxt:
                        problems.append(f"block {bi}: edges of {last} labelled {succ}, target {tgt}, next {nxt}")
                        lbl = bool(lbl)
                    if len(predrec) != 1:
                        problems.append(f"block {bi}: {len(predrec)} predicate probes for one conditional jump")
                        term = "C03.TOther []"
                    else:
                        s, t, rec = predrec[0]
                        args = rec["args"]
                        after = [x for x in els[t:] if x[0] == "O"]
                        between = [x for x in els[t:] if x[0] not in ("O", "A")]
                        if rec["method"] == "executed_compare_predicate" and isinstance(args[1], c.InstrumentationConstantLoad):
                            info["none"] += 1
                            kind = "C03.PIsNone" if args[3].value.name == "IS" else "C03.PIsNotNone"
                            want = 1
                            if args[2].value != pid:
                                problems.append(f"block {bi}: probe reports predicate {args[2].value}, registered {pid}")
                        else:
                            kind = "C03.PTruth"
                            if rec["method"] == "executed_compare_predicate" and args[3].value.name in ("IN", "NOT_IN"):
                                info.setdefault("in_pids", []).append(pid)
                            want = 1 if rec["method"] == "executed_bool_predicate" else 2
                            pidarg = args[1] if rec["method"] == "executed_bool_predicate" else args[2]
                            if pidarg.value != pid:
                                problems.append(f"block {bi}: probe reports predicate {pidarg.value}, registered {pid}")
                            if rec["method"] == "executed_compare_predicate" and not (len(after) == 2 and after[0][1] in ("COMPARE_OP", "IS_OP", "CONTAINS_OP")):
                                problems.append(f"block {bi}: compare probe not immediately before the comparison")
                            if rec["method"] == "executed_exception_match" and not (len(after) == 2 and after[0][1] == "CHECK_EXC_MATCH"):
                                problems.append(f"block {bi}: exception probe not immediately before CHECK_EXC_MATCH")
                        if len(after) != want:
                            problems.append(f"block {bi}: predicate probe {rec['method']} is followed by {len(after)} instructions, expected {want}")
                        if any(x[0] != "O" and x[0] != "A" for x in els[:s]):
                            info["pseudo_before_probe"] += 1
                        term = f"C03.TCond {cnat(pid)} {JUMPS[last]} {cbool(lbl)} {kind} {cnat(tgt)} {cnat(nxt)}"
        if term is None and bi in passthrough:
            term = "C03.TOther []"
        if term is None:
            if predrec:
                problems.append(f"block {bi}: predicate probe in a block without conditional jump")
            succs = sorted(v.index for _u, v in graph.out_edges(nodes[bi]) if hasattr(v, "index")) if bi in nodes else []
            term = f"C03.TOther {clist(cnat(x) for x in succs)}"
        blocks.append("{| C03.eprobes := %s; C03.bterm := %s; C03.handler := %s |}" % (ep, term, hb))
    return clist(blocks), problems, info


def _exit_block(d, tgt):
    """Block that holds the END_FOR of a loop whose FOR_ITER targets block `tgt`."""
    k = tgt
    while k is not None:
        b = d["blocks"][k]
        if any(e[0] == "O" and e[1] == "END_FOR" for e in b["inst"]):
            return k
        k = b["next"]
    return tgt


def cond_offsets(code):
    """[(offset, fallthrough offset, opname)] of the conditional jumps of a code object, in order."""
    ins = list(dis.get_instructions(code))
    res = []
    for k, i in enumerate(ins):
        if i.opname in COND_OPS:
            nxt = ins[k + 1].offset if k + 1 < len(ins) else None
            res.append((i.offset, nxt, i.opname))
    return res


def _work(job):
    n, src, path, specs = job
    I.setup()
    from pynguin.instrumentation import version

    with open(path, "w") as f:
        f.write(src)
    res = {"n": n, "cases": [], "fails": [], "stats": {}}
    plain = compile(src, path, "exec")
    I.reset_records()
    try:
        sp, code, _pool = I.instrument(src, path, ("BRANCH",), seeding=False)
    except Exception as e:  # noqa: BLE001
        res["fails"].append(["instrument:" + type(e).__name__, str(e)[:200], None])
        return res
    if n % 2 == 0:
        # module A (this program) then, after reset(), a different module B with the same shape of code objects but a
        # branch-less f: the registries must describe B only
        other = src[:src.index("def f(")] + "def f(a, b, s, l, o):\n    x = a\n    return x\n"
        try:
            sp2, _code2 = I.reinstrument_after_reset(src, other, path, ("BRANCH",))
        except Exception as e:  # noqa: BLE001
            res["fails"].append(["reload:instrument:" + type(e).__name__, str(e)[:200], None])
        else:
            from pynguin.ga import coveragegoals as bg

            with_pred = {m.code_object_id for m in sp2.existing_predicates.values()}
            want = sorted(c for c in sp2.existing_code_objects if c not in with_pred)
            got = sorted(sp2.branch_less_code_objects)
            pool = sorted(g.code_object_id for g in bg.BranchGoalPool(sp2).branchless_code_object_goals)
            if got != want or pool != want:
                res["fails"].append(["reload:branchless-code-object-hidden",
                                     f"after reset() + instrumenting a different module: code objects without predicate {want}, "
                                     f"branch_less_code_objects {got}, BranchlessCodeObjectGoals {pool}", None])
            if sorted(sp2.existing_predicates) != list(range(len(sp2.existing_predicates))):
                res["fails"].append(["reload:predicate-ids-not-dense", f"{sorted(sp2.existing_predicates)[:8]}", None])
        with open(path, "w") as f:
            f.write(src)
        I.reset_records()
        try:
            sp, code, _pool = I.instrument(src, path, ("BRANCH",), seeding=False)
        except Exception as e:  # noqa: BLE001
            res["fails"].append(["instrument:" + type(e).__name__, str(e)[:200], None])
            return res
    ex = I.extract_blocks(sp, plain, code)
    key2co, off2blk = {}, {}
    in_pids = set()
    for coid, d in ex.items():
        term, problems, info = extract_cfg(sp, coid, d)
        for p in problems:
            res["fails"].append(["structure:" + p.split(": ", 1)[1].split(" ")[0] + "-" + p.split(": ", 1)[1].split(" ")[1],
                                 f"code object {d['name']}: {p}", None])
        res["cases"].append([term, d["name"], info])
        in_pids |= set(info.pop("in_pids", []))
        for k, v in info.items():
            res["stats"][k] = res["stats"].get(k, 0) + v
        # offsets of conditional jumps -> block index (same linear order in dis and in the block list)
        key = d["tree_index"]
        key2co[key] = coid
        oblocks = [b for b in d["blocks"] if b["orig"] and [e for e in b["orig"] if e[0] == "O"] and
                   [e for e in b["orig"] if e[0] == "O"][-1][1] in COND_OPS]
        off2blk[key] = (oblocks, d["orig_code"])
    maps = {}
    for key, (oblocks, oc) in off2blk.items():
        offs = cond_offsets(oc)
        if [o[2] for o in offs] != [[e for e in b["orig"] if e[0] == "O"][-1][1] for b in oblocks]:
            res["fails"].append(["harness:offset-map", f"cannot align conditional jumps of code object {key}", None])
            return res
        maps[key] = {o[0]: (b["index"], o[1], o[2]) for o, b in zip(offs, oblocks)}
    pid_of = {(m.code_object_id, m.node.index): pid for pid, m in sp.existing_predicates.items()}
    branchless = set(sp.branch_less_code_objects)
    import types as _types

    from pynguin.ga import coveragegoals as cg

    goals = [(pid, v, cg.BranchGoal(m.code_object_id, pid, value=v)) for pid, m in sp.existing_predicates.items() for v in (True, False)]
    bl_goals = [(coid, cg.BranchlessCodeObjectGoal(coid)) for coid in sorted(branchless)]
    seq = I.sequence_of(specs)
    truths = I.monitored_sequence(plain, path, seq, ("BRANCH", "PY_START"))
    runs = I.traced_sequence(sp, code, path, seq)
    per_exec = []      # (trace, expected covered (pid, outcome) pairs, expected code objects) of every judged execution
    for k, (truth, (exc, trace)) in enumerate(zip(truths, runs, strict=True)):
        kk = k if k < len(specs) else None
        if exc != truth["exc"]:
            res["fails"].append(["behaviour-differs", f"execution {k}: plain {truth['exc']} instrumented {exc}", kk])
            continue
        taken = set()
        for key, off, dest in truth["branches"]:
            if key not in maps or off not in maps[key]:
                continue
            bi, fall, opname = maps[key][off]
            jumped = dest != fall
            lbl = version.get_branch_type(dis.opmap[opname])
            v = lbl if jumped else (not lbl)
            pid = pid_of.get((key2co[key], bi))
            taken.add((pid if pid is not None else f"unregistered:{key}:{bi}", bool(v)))
        entered = {key2co[key] for key in truth.get("starts", []) if key in key2co}
        rep_co = set(trace.executed_code_objects)
        missing_cos = entered - rep_co
        if not all(sp.existing_code_objects[c].code_object.co_name in OPERATOR_METHODS for c in missing_cos):
            missing_cos = set()
        # the goal level: the real BranchGoal.is_covered on the real execution result
        result = _types.SimpleNamespace(execution_trace=trace)
        reported = {(pid, v) for pid, v, g in goals if g.is_covered(result)}
        if reported != taken:
            extra = sorted(map(str, reported - taken))
            missing = sorted(map(str, taken - reported))
            kind = "reported-not-taken" if extra else "taken-not-reported"
            if not extra and all(isinstance(p, int) and p in in_pids and p not in trace.executed_predicates
                                 for p, _v in taken - reported):
                # the tracer deliberately does not evaluate `x in <one-shot iterator>` (it would consume it)
                kind = "taken-not-reported:membership-unobserved"
            if (not extra and exc is not None and missing_cos
                    and all(isinstance(p, int) and sp.existing_predicates[p].code_object_id in missing_cos for p, _v in taken - reported)):
                # the comparison raised while the TRACER evaluated it (tracing disabled), so the subject never
                # evaluated it itself and the operator method's body was not traced
                kind = "taken-not-reported:operator-raised-in-tracer"
            dist = {p: (trace.true_distances.get(p), trace.false_distances.get(p)) for p, _v in (reported ^ taken) if isinstance(p, int)}
            res["fails"].append([f"branches:{kind}", f"execution {k}: goals covered but outcome not taken {extra}; taken but goal not "
                                 f"covered {missing}; (true, false) distances {dist}", kk])
        if entered != rep_co:
            res["fails"].append(["code-objects:" + ("reported-not-entered" if rep_co - entered else
                                                    "entered-not-reported:operator-raised-in-tracer" if exc is not None and missing_cos
                                                    else "entered-not-reported"),
                                 f"entered {sorted(entered)} reported {sorted(rep_co)} (branch-less: {sorted(branchless)})", kk])
        elif {c for c, g in bl_goals if g.is_covered(result)} != entered & branchless:
            res["fails"].append(["code-objects:branchless-goal", f"branch-less goals covered differ from branch-less code objects entered {sorted(entered & branchless)}", kk])
        res["stats"]["runs"] = res["stats"].get("runs", 0) + 1
        res["stats"]["edges"] = res["stats"].get("edges", 0) + len(taken)
        # what this execution is expected to contribute to a suite: the ground truth; where the single execution
        # already deviates (reported above, possibly a known finding) its own report, so that only the merge is judged
        per_exec.append((trace, taken if reported == taken else reported, entered if entered == rep_co else rep_co))
    # --- suite level: traces of several executions merged the way analyze_results / ExecutionTrace.merge does ----
    if len(per_exec) >= 2:
        from pynguin.instrumentation.tracer import ExecutionTrace

        want = set().union(*(t for _tr, t, _c in per_exec))
        want_co = set().union(*(c for _tr, _t, c in per_exec))
        for order, seq_tr in (("in order", per_exec), ("reversed", per_exec[::-1])):
            merged = ExecutionTrace()
            for tr_k, _t, _c in seq_tr:
                merged.merge(tr_k)
            result = _types.SimpleNamespace(execution_trace=merged)
            got = {(pid, v) for pid, v, g in goals if g.is_covered(result)}
            if got != want:
                lost, extra = sorted(map(str, want - got)), sorted(map(str, got - want))
                dist = {p: (merged.true_distances.get(p), merged.false_distances.get(p)) for p, _v in (got ^ want) if isinstance(p, int)}
                res["fails"].append(["suite:" + ("covered-branch-lost-by-merge" if lost else "branch-gained-by-merge"),
                                     f"{len(seq_tr)} execution traces merged {order}: branches covered by some execution but not by the "
                                     f"merged trace {lost}; covered only by the merged trace {extra}; merged (true, false) distances {dist}", None])
                break
            if set(merged.executed_code_objects) != want_co:
                res["fails"].append(["suite:code-objects-differ-after-merge",
                                     f"merged {order}: code objects {sorted(merged.executed_code_objects)}, union of executions {sorted(want_co)}", None])
                break
        res["stats"]["merged_suites"] = res["stats"].get("merged_suites", 0) + 1
    return res


def _isolated_work(job):
    n, src, path, specs = job
    specs, dropped = I.usable_specs(src, path, specs)
    stats = {"inconclusive:" + k: v for k, v in dropped.items()}
    r = I.isolated(_work, (n, src, path, specs), timeout=900)
    if "crash" in r:
        # the plain program runs normally on these inputs (usable_specs), so the interpreter died because of
        # the instrumented code; find the input
        hit = None
        for k, s in enumerate(specs):
            if "crash" in I.isolated(_work, (n, src, path, [s]), timeout=300):
                hit = k
                break
        if hit is None and specs:
            stats["inconclusive:crash-not-reproduced"] = 1
            return {"n": n, "cases": [], "fails": [], "stats": stats, "specs": specs}
        cause = I.crash_cause(src, path, specs[hit]) if hit is not None else ""
        return {"n": n, "cases": [], "fails": [["crash:" + r["crash"] + cause, "interpreter died when running the instrumented code"
                                                + ("; it also dies on the code that only went through bytecode's from_code/to_code round trip"
                                                   if cause else ""), hit]],
                "stats": stats, "specs": specs}
    if "inconclusive" in r:
        stats["inconclusive:" + r["inconclusive"]] = stats.get("inconclusive:" + r["inconclusive"], 0) + 1
        return {"n": n, "cases": [], "fails": [], "stats": stats, "specs": specs}
    if "harness_error" in r:
        return {"n": n, "cases": [], "fails": [["harness:" + r["harness_error"].split(":")[0], r["harness_error"] + r.get("tb", ""), None]],
                "stats": stats, "specs": specs}
    r["stats"].update(stats)
    r["specs"] = specs
    return r


def run(ctx: vlib.Ctx):
    I.setup()
    ctx.digest_sources(SRC)
    ctx.coq_static()
    if not ctx.quick:
        ctx.coqchk()
    scratch = ctx.mkscratch()
    corpus = json.loads((vlib.VERIF / "corpus" / "C03.json").read_text())
    n_prog = 40 if ctx.quick else 400
    n_inp = 4 if ctx.quick else 6
    progs = [(c["src"], c.get("specs") or []) for c in corpus]
    for s in G.SEED_PROGRAMS:
        progs.append((s, []))
    while len(progs) < n_prog:
        src, used = G.gen_module(ctx.rng)
        progs.append((src, []))
        for u in used:
            ctx.count("stmt:" + u)
    progs = [(src, list(specs) + [G.gen_input(ctx.rng) for _ in range(n_inp)]) for src, specs in progs]
    ctx.cov["rule"] = ("generated modules (harness/props/_c01_gen.py) + seeds; one case per instrumented code object (its whole "
                       "CFG); distinct = distinct CFG terms; non-trivial = the CFG has at least one predicate")
    jobs = [(n, src, str(scratch / f"bm_{n}.py"), specs) for n, (src, specs) in enumerate(progs)]
    with cf.ProcessPoolExecutor(max_workers=min(12, os.cpu_count() or 4)) as exr:
        results = list(exr.map(_isolated_work, jobs, chunksize=2))
    cases, where, n_or, seen = [], [], 0, set()
    for r in results:
        for term, name, info in r["cases"]:
            cases.append(term)
            where.append((r["n"], name))
            ctx.case_seen(term, nontrivial=info["preds"] > 0)
        for k, v in r["stats"].items():
            ctx.count("S:" + k, v)
        for sig, msg, k in r["fails"]:
            n_or += 1
            if sig in seen:
                continue
            seen.add(sig)
            src, specs = progs[r["n"]][0], r.get("specs", progs[r["n"]][1])
            ctx.fail(sig, msg, {"program": src, "input": specs[k] if k is not None and k < len(specs) else None, "inputs": specs})
    ctx.sample({"program": progs[-1][0][len(G.PRELUDE):][:500], "cfg": cases[-1][:600] if cases else None})
    ctx.leg("S", failures=n_or, programs=len(progs))
    bad = ctx.run_cases("C03_cfgs", "From Verif Require Import Models.C03.", "C03.case", "C03.check_case", cases, shard=150)
    if bad:
        ctx.leg("K1b", ok=False, mismatches=len(bad))
        n, name = where[bad[0]]
        if n_or == 0:
            ctx.broken("correspondence:cfg-premises",
                       "an instrumented CFG violates the premises of branches_exact (edge labels inconsistent with the probe, "
                       "loop probe missing/misplaced, or a loop body/exit block reachable otherwise)",
                       {"program": progs[n][0], "code_object": name, "cfg": cases[bad[0]][:3000], "failing_cfgs": len(bad)})
    elif bad is not None:
        ctx.leg("K1b", ok=True, cfgs=len(cases))
    ctx.assumptions += ["CPython's conditional jumps behave as `taken` says; the zero-distance side of a predicate is the truth of the tested value (C04)",
                        "sys.monitoring BRANCH events are the ground truth for 'the interpreter took the outcome'",
                        "an exception leaves a predicate block before its probe or not at all (the probe and the jump are adjacent; C04 for compare probes)"]
    ctx.cov["trusted_base"] += ["harness/props/C03.py (CFG abstraction, offset mapping), harness/props/_c01_impl.py"]


def replay(ctx, path):
    I.setup()
    d = json.loads(open(path).read())["replay"]
    scratch = ctx.mkscratch()
    r = _isolated_work((0, d["program"], str(scratch / "replay.py"), d.get("inputs") or ([d["input"]] if d.get("input") else [])))
    print(d["program"])
    print("input:", d.get("input"))
    print("failures:", r["fails"] or "none")
    return 0
