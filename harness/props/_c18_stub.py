"""C18/C24: random abstract suites -> real TestCase objects over the stub SUT -> real TestSuiteWriter;
abstraction of the input suite and of the written file into terms of Models/C18.v."""
from __future__ import annotations

import ast
import importlib
import math
import os
import re
import sys
from pathlib import Path
from unittest import mock

import _c18_lib as L

STUB_DIR = Path(__file__).resolve().parents[2] / "corpus" / "C18" / "stub"
BOOM = ["ValueError", "KeyError", "ZeroDivisionError", "StubError", "_HiddenError", "InvalidOperation",
        "JSONDecodeError", "SystemExit", "GeneratorExit", "StubAbort", "SystemExit", "KeyboardInterrupt", "BoxFull", "BoxFull"]


def alias_of(module: str) -> str:
    return module.rsplit(".", 1)[-1] + "_"


# ------------------------------------------------------------------------------------------------
# generator (pure function of rng; JSON-able)
def gen_test(rng, module: str, n: int | None = None):
    al = alias_of(module)
    stmts, ok, ghosts, boxes = [], [], [], []
    k = 0
    n = rng.choice([0, 1, 2, 3, 5, 8]) if n is None else n

    def args():
        m = rng.choice([0, 0, 1, 2])
        xs = []
        for _ in range(m):
            c = rng.random()
            if ok and c < 0.6:
                xs.append(rng.choice(ok))
            elif c < 0.8:
                xs.append(str(rng.randint(-9, 9)))
            else:
                xs.append(rng.choice(["'s'", "None", "2.5", "[1]", "float"]))
        return ", ".join(xs)

    def invariants():
        menu = []
        for b in boxes:
            menu += [["IsInstance", b, module, "Box"], ["TypeName", b, module, "Box"], ["Float", b + ".ratio", 0.5],
                     ["Object", b + ".color", {"enum": "RED"}], ["Object", b + ".v", 0]]
        menu.append(["Object", al + ".LIMIT", 3])
        return menu

    LITERALS = ["'abc'", '"it\'s"', "''", "b'x'", "17", "-4", "2.5", "-0.5", "True", "None", "[1, 'a']", "(1,)", "()",
                "{'k': 1}", "{1, 2}", "[]", "{}", "'''doc-like'''"]
    unused: set[str] = set()
    if n and rng.random() < 0.35:
        # an unused primitive in FIRST position: the writer rewrites `var = <literal>` to a bare literal
        stmts.append({"code": f"var_{k} = {rng.choice(LITERALS)}\n", "bind": f"var_{k}", "type": None, "expected": [],
                      "asserts": []})
        unused.add(f"var_{k}")
        k += 1
    for _ in range(n):
        t = rng.choices(
            ["int", "none", "bool", "fl", "text", "lst", "shade", "ok", "box", "put", "boom", "fail", "bare", "type",
             "rawraises", "rawassert", "ghost", "expr", "kw"],
            [8, 6, 2, 8, 4, 5, 5, 5, 8, 4, 12, 3, 4, 2, 2, 2, 2, 3, 4])[0]
        v = f"var_{k}"
        s = {"code": None, "bind": v, "type": None, "expected": [], "asserts": []}
        menu = []
        raising = False
        if t == "int":
            val = rng.randint(-50, 50)
            s["code"], s["type"], menu = f"{v} = {val}", "int", [["Object", v, val]]
        elif t == "none" and rng.random() < 0.7:
            s["code"] = f"{v} = {rng.choice(LITERALS)}"
            if rng.random() < 0.6:
                unused.add(v)
        elif t == "none":
            s["code"], menu = f"{v} = None", [["Object", v, None]]
        elif t == "bool":
            s["code"], s["type"], menu = f"{v} = True", "bool", [["Object", v, True]]
        elif t == "fl":
            s["code"], s["type"], menu = f"{v} = {al}.fl({args()})", "float", [["Float", v, 1.5]]
        elif t == "text":
            s["code"], s["type"], menu = f"{v} = {al}.text({args()})", "str", [["Object", v, "abc"]]
        elif t == "lst":
            s["code"], s["type"] = f"{v} = {al}.lst({args()})", "list"
            menu = [["Object", v, [1, 2]], ["Len", v, 2], ["IsInstance", v, "builtins", "list"],
                    ["TypeName", v, "builtins", "list"]]
        elif t == "shade":
            s["code"], menu = f"{v} = {al}.shade({args()})", [["Object", v, {"enum": "GREEN"}]]
        elif t == "shade" + "x":
            pass
        elif t == "ok" and rng.random() < 0.25:
            s["code"], menu = f"{v} = {al}.hidden_shade({args()})", [["Object", v, {"enum_private": "X"}]]
        elif t == "ok":
            s["code"], s["type"], menu = f"{v} = {al}.ok({args()})", "int", [["Object", v, 7]]
        elif t == "box":
            s["code"] = f"{v} = {al}.Box()"
            menu = [["IsInstance", v, module, "Box"], ["TypeName", v, module, "Box"], ["Float", v + ".ratio", 0.5],
                    ["Len", v + ".items", 0], ["Object", v + ".color", {"enum": "RED"}], ["Object", v + ".v", 0],
                    ["Object", v + ".items", []], ["Object", v + ".mode", {"enum_nested": "A"}]]
        elif t == "put" and boxes:
            s["code"], s["type"] = f"{v} = {rng.choice(boxes)}.put({rng.randint(0, 5)})", "int"
        elif t == "boom":
            kind = rng.choice(BOOM)
            extra = args() if rng.random() < 0.3 else ""
            s["code"] = f"{v} = {al}.boom('{kind}'{', ' + extra if extra else ''})"
            if kind == "KeyboardInterrupt":
                # always declared: pytest re-raises a KeyboardInterrupt that escapes a test and aborts the
                # whole session, so the unexpected (xfail) variant cannot be batched (see notes/C18.md)
                s["expected"] = [kind]
            elif rng.random() < 0.4:
                s["expected"] = ["Full" if kind == "BoxFull" else kind] + (["TypeError"] if rng.random() < 0.3 else [])
            elif rng.random() < 0.2:
                s["expected"] = ["OSError"]
            menu, raising = [["Exc", "x", kind]], True
        elif t == "fail" and boxes:
            s["code"] = f"{v} = {rng.choice(boxes)}.fail()"
            s["expected"] = ["StubError"] if rng.random() < 0.5 else []
            menu, raising = [["Exc", module, "StubError"]], True
        elif t == "kw":
            # keyword names that are also public names of the SUT (`text` is a function of the stub)
            s["code"], s["type"] = f"{v} = {al}.label(value={rng.randint(0, 9)}, text='x')", "str"
            menu = [["Object", v, "abc"]]
        elif t == "bare":
            s["code"], s["type"], menu = f"{v} = ok({args()})", "int", [["Object", v, 7]]
        elif t == "type":
            s["code"] = f"{v} = {rng.choice(['float', 'complex', 'list'])}"
        elif t == "rawraises":
            s["code"], s["bind"] = f"with pytest.raises(ValueError):\n    {al}.boom('ValueError')", None
        elif t == "rawassert" and ok:
            s["code"], s["bind"] = f"assert {rng.choice(ok)} is not Ellipsis", None
        elif t == "ghost" and ghosts:
            s["code"] = f"{v} = {al}.ok({rng.choice(ghosts)})"
            raising = True
            if rng.random() < 0.5:
                s["expected"] = ["NameError"]
        elif t == "expr":
            s["code"], s["bind"] = f"{al}.ok({args()})", None
        else:
            val = rng.randint(0, 9)
            s["code"], s["type"], menu = f"{v} = {val}", "int", [["Object", v, val]]
        s["code"] += "\n"
        if s["bind"] is not None:
            k += rng.choice([1, 1, 2])
            if raising:
                ghosts.append(v)
            elif v not in unused:
                if t == "box":
                    boxes.append(v)
                ok.append(v)
        if not raising and s["bind"] is not None and rng.random() < 0.4:
            menu = menu + invariants()
        rng.shuffle(menu)
        s["asserts"] = menu[: rng.choice([0, 1, 1, 2, 3])] if not raising else menu[: rng.choice([0, 1])]
        if v in unused:
            s["asserts"] = []     # their binding is rewritten away (liveness is C19's subject)
        stmts.append(s)
    # an assertion about a variable bound by an earlier statement keeps that variable alive only if a
    # later statement reads it (liveness of remove_unused_variables is C19's subject, not ours)
    cross = any(a[0] != "Exc" and a[1].split(".")[0] != st["bind"] and a[1].startswith("var_")
                for st in stmts for a in st["asserts"])
    if ok and (cross or rng.random() < 0.7):
        stmts.append({"code": f"{al}.ok({', '.join(ok)})\n", "bind": None, "type": None, "expected": [], "asserts": []})
    return stmts


def gen_suite(rng):
    module = rng.choice(["c18stub", "c18stub", "c18pkg.sub", "c18all"])
    return {
        "module": module,
        "no_xfail": rng.random() < 0.35,
        "seed": rng.choice([None, None, None, 7]),
        "black": rng.random() < 0.5,
        "tests": [gen_test(rng, module) for _ in range(rng.choice([0, 1, 1, 2, 3, 4]))],
    }


# ------------------------------------------------------------------------------------------------
def _setup_paths():
    p = str(STUB_DIR)
    if p not in sys.path:
        sys.path.insert(0, p)


def py_value(spec, mod):
    if isinstance(spec, dict) and "enum" in spec:
        return getattr(mod.Color, spec["enum"])
    if isinstance(spec, dict) and "enum_nested" in spec:
        return getattr(mod.Box.Mode, spec["enum_nested"])
    if isinstance(spec, dict) and "enum_private" in spec:
        return getattr(mod._Shade, spec["enum_private"])  # noqa: SLF001
    if isinstance(spec, dict) and "float" in spec:
        return float(spec["float"])
    if isinstance(spec, list):
        return [py_value(x, mod) for x in spec]
    return spec


def build_assertion(a, mod):
    import pynguin.assertion.assertion as ass

    k = a[0]
    if k == "Float":
        return ass.FloatAssertion(a[1], float(a[2]) if not isinstance(a[2], dict) else float(a[2]["float"]))
    if k == "Object":
        return ass.ObjectAssertion(a[1], py_value(a[2], mod))
    if k == "TypeName":
        return ass.TypeNameAssertion(a[1], a[2], a[3])
    if k == "IsInstance":
        return ass.IsInstanceAssertion(a[1], a[2], a[3])
    if k == "Len":
        return ass.CollectionLengthAssertion(a[1], int(a[2]))
    if k == "Exc":
        return ass.ExceptionAssertion(a[1], a[2])
    raise ValueError(k)


TYPES = {"int": int, "float": float, "str": str, "list": list, "bool": bool, None: None}


def build_testcase(stmts, module):
    import libcst as cst
    import pynguin.testcase.testcase as tc
    from pynguin.utils.generic.genericaccessibleobject import GenericFunction

    mod = importlib.import_module(module)
    t = tc.TestCase()
    for s in stmts:
        acc = None
        if s["expected"]:
            acc = GenericFunction(mod.boom, mock.MagicMock(), set(s["expected"]), "boom")
        t.add_statement(tc.Statement(
            node=cst.parse_statement(s["code"]), bound_variable=s["bind"], bound_type=TYPES.get(s["type"]),
            assertions=[build_assertion(a, mod) for a in s["asserts"]], accessible=acc))
    t._var_counter = 1000  # noqa: SLF001
    return t


class _Ind:
    def __init__(self, t):
        self.test_case = t


class _Suite:
    def __init__(self, ts):
        self.test_case_chromosomes = [_Ind(t) for t in ts]


def exc_root_name(e) -> str:
    q = e.__qualname__
    return e.__name__ if "<locals>" in q else q.split(".")[0]


def independent_exceptions(t, module):
    """What each statement raises when the test case is executed statement by statement (own execution,
    independent of the writer's re-execution): the exception type or None, for every BaseException."""
    import libcst as cst
    import pytest

    mod = importlib.import_module(module)
    ns = {alias_of(module): mod, "pytest": pytest, "__builtins__": __builtins__}
    for n in dir(mod):
        if not n.startswith("_"):
            ns.setdefault(n, getattr(mod, n))
    res = []
    for st in t.statements():
        code = cst.Module(body=[st.node]).code
        try:
            exec(compile(code, "<independent>", "exec"), ns)  # noqa: S102
            res.append(None)
        except BaseException as e:  # noqa: BLE001  (SystemExit, KeyboardInterrupt, GeneratorExit included)
            res.append(type(e))
    return res


def value_names(v) -> set[str]:
    """Free names of the literal a value is rendered to (stated independently of the renderer)."""
    import enum as _enum

    if isinstance(v, _enum.Enum):
        cls = type(v)
        if "." in cls.__qualname__ or cls.__name__.startswith("_"):
            return {alias_of(cls.__module__)}     # nested / private SUT enum: reached through the alias
        return {cls.__name__}
    if isinstance(v, float) and (math.isnan(v) or math.isinf(v)):
        return {"float"}
    if isinstance(v, (list, tuple)):
        return set().union(*[value_names(x) for x in v]) if v else set()
    if isinstance(v, (set, frozenset)):
        return set().union(*[value_names(x) for x in v]) if v else {"set"}
    if isinstance(v, dict):
        r = set()
        for a, b in v.items():
            r |= value_names(a) | value_names(b)
        return r
    return set()


def abstract_assertion(a, module):
    """(kind, src_root, vals, typeroot) from a real Assertion object."""
    import pynguin.assertion.assertion as ass

    if isinstance(a, ass.ExceptionAssertion):
        return ("AExc", "x", set(), None)
    root = a.source.split(".")[0]
    if isinstance(a, ass.FloatAssertion):
        return ("AFloat", root, value_names(float(a.value)), None)
    if isinstance(a, ass.ObjectAssertion):
        return ("AObject", root, value_names(a.object), None)
    if isinstance(a, ass.TypeNameAssertion):
        return ("ATypeName", root, set(), None)
    if isinstance(a, ass.IsInstanceAssertion):
        t = a.qualname.split(".")[0] if a.module == "builtins" else alias_of(a.module)
        return ("AIsInstance", root, set(), t)
    if isinstance(a, ass.CollectionLengthAssertion):
        return ("ALen", root, set(), None)
    return ("AExc", "x", set(), None)


def write_suite(spec, outdir, testcases=None):
    """Build the suite, run the real writer.  Returns (abstract input, file source, path).
    abstract input: list of tests, each a list of dicts id/binds/uses/exc/expected/asserts."""
    import libcst as cst
    from pynguin.testcase import export
    from pynguin.utils.generic.genericaccessibleobject import GenericCallableAccessibleObject

    _setup_paths()
    module = spec["module"]
    import pynguin.configuration as config

    config.configuration.module_name = module   # as in a real run: the renderer resolves SUT classes against it
    tcs = testcases if testcases is not None else [build_testcase(t, module) for t in spec["tests"]]
    for t in tcs:
        t.remove_unused_variables()
    independent = [independent_exceptions(t, module) for t in tcs]
    recorded = []
    orig = export.TestSuiteWriter._per_statement_exceptions  # noqa: SLF001

    def spy(self, tc, *a, **k):
        r = orig(self, tc, *a, **k)
        recorded.append(list(r))
        return r

    with mock.patch.object(export.TestSuiteWriter, "_per_statement_exceptions", spy):
        path = export.TestSuiteWriter(no_xfail=spec["no_xfail"]).write(
            _Suite(tcs), module, outdir, project_path=str(STUB_DIR), format_with_black=spec["black"],
            seed=spec["seed"])
    abstract = []
    for t, excs, wexcs in zip(tcs, independent, recorded):
        row = []
        for i, (st, e, we) in enumerate(zip(t.statements(), excs, wexcs)):
            code = cst.Module(body=[st.node]).code
            uses, binds = L.stmt_names(code)
            acc = st.accessible
            row.append({
                "id": i, "code": code, "uses": sorted(uses), "binds": sorted(binds),
                # the name a wrapper needs bound: the outermost owner for a class nested in a class
                "exc": None if e is None else (exc_root_name(e), None if e.__module__ == "builtins" else e.__module__,
                                               not issubclass(e, Exception)),
                "exc_class": None if e is None else e.__name__,
                "exc_writer": None if we is None else we.__name__,
                "expected": bool(e is not None and isinstance(acc, GenericCallableAccessibleObject)
                                 and e.__name__ in acc.expected_exceptions),
                "asserts": [abstract_assertion(a, module) for a in st.assertions],
            })
        abstract.append(row)
    return abstract, Path(path).read_text(), str(path)


# ------------------------------------------------------------------------------------------------
# abstraction of the written file
def abstract_file(src: str, module: str, canonical: str, abstract_in):
    """-> (header tops, functions) in a JSON-able form using plain identifier strings."""
    mod = ast.parse(src)
    al = alias_of(module)
    tops = []
    funcs = []
    body = list(mod.body)
    if body and isinstance(body[0], ast.Expr) and isinstance(body[0].value, ast.Constant):
        body = body[1:]

    def internal(x):
        return x.startswith("_pynguin")

    for n in body:
        if isinstance(n, ast.FunctionDef) and n.name.startswith("test_"):
            funcs.append(n)
            continue
        if funcs:
            tops.append({"kind": "unknown", "what": "statement after the first test function", "uses": [], "binds": []})
            continue
        u, b = L.names_of(n)
        u = sorted(x for x in u if x not in L.BUILTINS and not internal(x))
        bb = sorted(x for x in b if not internal(x))
        is_patch = any(internal(x) for x in b) and not isinstance(n, ast.FunctionDef)
        if is_patch:
            if tops and tops[-1]["kind"] == "patch":
                tops[-1]["uses"] = sorted(set(tops[-1]["uses"]) | set(u))
                tops[-1]["binds"] = sorted(set(tops[-1]["binds"]) | set(bb))
            else:
                tops.append({"kind": "patch", "uses": u, "binds": bb})
        elif isinstance(n, ast.FunctionDef) and n.name == "_pynguin_seed_random":
            tops.append({"kind": "fixture", "uses": u, "binds": bb})
        elif isinstance(n, ast.Import) and len(n.names) == 1 and n.names[0].asname is None:
            nm = n.names[0].name
            tops.append({"kind": "import", "name": nm, "is_sut": nm == canonical, "uses": u, "binds": bb})
        elif (isinstance(n, ast.Assign) and len(n.targets) == 1 and isinstance(n.targets[0], ast.Name)
              and n.targets[0].id == al and ast.unparse(n.value) == f"sys.modules[{canonical!r}]"):
            tops.append({"kind": "alias", "uses": u, "binds": bb})
        elif isinstance(n, ast.ImportFrom) and n.level == 0 and all(a.asname is None for a in n.names):
            if tops and tops[-1]["kind"] == "alias" and n.module == canonical:
                tops.append({"kind": "fromsut", "names": [a.name for a in n.names], "uses": u, "binds": bb})
            else:
                pairs = [(n.module, a.name) for a in n.names]
                if tops and tops[-1]["kind"] == "excimports":
                    tops[-1]["pairs"] += pairs
                    tops[-1]["binds"] = sorted(set(tops[-1]["binds"]) | set(bb))
                else:
                    tops.append({"kind": "excimports", "pairs": pairs, "uses": u, "binds": bb})
        else:
            tops.append({"kind": "unknown", "what": ast.unparse(n)[:80], "uses": u, "binds": bb})
    ofuncs = []
    names = [f.name for f in funcs]
    expected_names = [f"test_{i}" for i in range(len(abstract_in))] if abstract_in else ["test_empty"]
    for fi, f in enumerate(funcs):
        xf = [d for d in f.decorator_list if L.is_xfail_decorator(d)]
        items = []
        if len(xf) != len(f.decorator_list) or len(xf) > 1 or names != expected_names:
            items.append({"kind": "unknown", "what": "decorators/names"})
        stmts = abstract_in[fi] if fi < len(abstract_in) else []
        dumps = [ast.dump(ast.parse(s["code"]).body[0]) if len(ast.parse(s["code"]).body) == 1 else None for s in stmts]
        j = 0
        for n in f.body:
            d = ast.dump(n)
            w = L.raises_wrapper(n)
            if j < len(stmts) and d == dumps[j]:
                u, b = L.names_of(n)
                items.append({"kind": "stmt", "w": None, "id": j, "uses": sorted(u), "binds": sorted(b)})
                j += 1
            elif j < len(stmts) and w is not None and ast.dump(w[1]) == dumps[j]:
                u, b = L.names_of(n)
                items.append({"kind": "stmt", "w": w[0], "id": j, "uses": sorted(u), "binds": sorted(b)})
                j += 1
            elif isinstance(n, ast.Assert):
                u, _ = L.names_of(n)
                items.append({"kind": "assert", "uses": sorted(u)})
            elif isinstance(n, ast.Pass):
                items.append({"kind": "pass"})
            else:
                items.append({"kind": "unknown", "what": ast.unparse(n)[:80]})
        ofuncs.append({"xfail": bool(xf), "items": items})
    return tops, ofuncs


# ------------------------------------------------------------------------------------------------
# Coq printers
class Names:
    def __init__(self, module: str, canonical: str):
        self.alias = alias_of(module)
        self.root = canonical.split(".")[0]
        self.b = {"type": 0, "isinstance": 1, "len": 2}
        self.g: dict[str, int] = {}
        self.m: dict[str, int] = {}

    def name(self, s: str) -> str:
        if s == "pytest":
            return "C18.Pytest"
        if s == "sys":
            return "C18.Sys"
        if s == "random":
            return "C18.Random"
        if s == self.alias:
            return "C18.Alias"
        if s == self.root:
            return "C18.SutRoot"
        if s in L.BUILTINS:
            return f"(C18.Builtin {self.b.setdefault(s, len(self.b) + 7)}%N)"
        m = re.fullmatch(r"var_(\d+)", s)
        if m:
            return f"(C18.Var {int(m.group(1))}%N)"
        return f"(C18.Glob {self.g.setdefault(s, len(self.g))}%N)"

    def names(self, xs) -> str:
        return "[" + "; ".join(self.name(x) for x in xs) + "]"

    def mod(self, s: str) -> str:
        return f"{self.m.setdefault(s, len(self.m))}%N"


def c_exc(nm: Names, e) -> str:
    if e is None:
        return "None"
    mod = "None" if e[1] is None else f"(Some {nm.mod(e[1])})"
    base = "true" if len(e) > 2 and e[2] else "false"
    return f"(Some {{| C18.e_name := {nm.name(e[0])}; C18.e_mod := {mod}; C18.e_base := {base} |}})"


def c_assert(nm: Names, a) -> str:
    kind, root, vals, t = a
    k = f"(C18.AIsInstance {nm.name(t)})" if kind == "AIsInstance" else f"C18.{kind}"
    return (f"{{| C18.a_kind := {k}; C18.a_src := {nm.name(root)}; C18.a_vals := {nm.names(sorted(vals))}; "
            f"C18.a_holds := true |}}")


def c_stmt(nm: Names, s) -> str:
    return (f"{{| C18.s_id := {s['id']}%N; C18.s_bind := {nm.names(s['binds'])}; C18.s_uses := {nm.names(s['uses'])}; "
            f"C18.s_exc := {c_exc(nm, s['exc'])}; C18.s_expected := {'true' if s['expected'] else 'false'}; "
            f"C18.s_asserts := [{'; '.join(c_assert(nm, a) for a in s['asserts'])}] |}}")


def c_top(nm: Names, t) -> str:
    k = t["kind"]
    if k == "import":
        top = f"C18.TImport {'C18.SutRoot' if t['is_sut'] else nm.name(t['name'].split('.')[0])}"
    elif k == "alias":
        top = "C18.TAlias"
    elif k == "fromsut":
        top = f"C18.TFromSut {nm.names(t['names'])}"
    elif k == "excimports":
        top = "C18.TExcImports [" + "; ".join(f"({nm.mod(m)}, {nm.name(x)})" for m, x in t["pairs"]) + "]"
    elif k == "patch":
        top = "C18.TPatch"
    elif k == "fixture":
        top = "C18.TFixture"
    else:
        top = "C18.TImport (C18.Glob 999999%N)"
    return f"{{| C18.o_top := {top}; C18.o_uses := {nm.names(t['uses'])}; C18.o_binds := {nm.names(t['binds'])} |}}"


def c_item(nm: Names, it) -> str:
    k = it["kind"]
    if k == "stmt":
        w = "None" if it["w"] is None else f"(Some {nm.name(it['w'])})"
        return f"C18.OStmt {w} {it['id']}%N {nm.names(it['uses'])} {nm.names(it['binds'])}"
    if k == "assert":
        return f"C18.OAssert {nm.names(it['uses'])}"
    if k == "pass":
        return "C18.OPass"
    return "C18.OUnknown"


def c_case(spec, canonical, publics, abstract_in, tops, ofuncs) -> str:
    nm = Names(spec["module"], canonical)
    cfg = (f"{{| C18.no_xfail := {'true' if spec['no_xfail'] else 'false'}; "
           f"C18.seed := {'true' if spec['seed'] is not None else 'false'}; C18.publics := {nm.names(publics)} |}}")
    suite = "[" + "; ".join("[" + "; ".join(c_stmt(nm, s) for s in t) + "]" for t in abstract_in) + "]"
    oh = "[" + "; ".join(c_top(nm, t) for t in tops) + "]"
    of = "[" + "; ".join(
        f"{{| C18.o_xfail := {'true' if f['xfail'] else 'false'}; C18.o_body := [{'; '.join(c_item(nm, i) for i in f['items'])}] |}}"
        for f in ofuncs) + "]"
    return f"({cfg}, {suite}, ({oh}, {of}))"


def public_names(module: str) -> list[str]:
    _setup_paths()
    mod = importlib.import_module(module)
    def collected(n):   # what pytest's default rules would collect from the test module's namespace
        o = getattr(mod, n, None)
        return n.startswith("Test") if isinstance(o, type) else (n.startswith("test") and callable(o))

    return sorted(n for n in dir(mod) if not n.startswith("_") and n != alias_of(module) and not collected(n))
