"""Shared by C25 and C26: generated modules with class hierarchies, test clusters of the real
implementation, random proper types, abstraction of types / class graphs to the Coq model."""
from __future__ import annotations

import importlib
import random
import sys
from pathlib import Path

from vlib import cN, cbool, clist, cnat, copt, cpair

BUILTIN_BASES = ["list", "dict", "set", "int", "str", "Exception"]
BUILTIN_UNIVERSE = ["object", "int", "float", "complex", "bool", "str", "bytes", "list", "set", "dict"]


# ------------------------------------------------------------------------------------------------
# abstract types: ("any",) ("none",) ("inst", cname, (args..)) ("tuple", (args..)) ("union", (items..))
ANY_T = ("any",)
NONE_T = ("none",)


def t_inst(c, args=()):
    return ("inst", c, tuple(args))


def t_tuple(args):
    return ("tuple", tuple(args))


def t_union(items):
    return ("union", tuple(items))


def t_str(t):
    k = t[0]
    if k == "any":
        return "Any"
    if k == "none":
        return "None"
    if k == "inst":
        return t[1].split(".")[-1] + ("[" + ", ".join(map(t_str, t[2])) + "]" if t[2] else "")
    if k == "tuple":
        return "tuple[" + ", ".join(map(t_str, t[1])) + "]"
    return "(" + " | ".join(map(t_str, t[1])) + ")"


def t_contains(t, kind):
    if t[0] == kind:
        return True
    sub = t[2] if t[0] == "inst" else t[1] if t[0] in ("tuple", "union") else ()
    return any(t_contains(x, kind) for x in sub)


def t_classes(t, acc):
    if t[0] == "inst":
        acc.add(t[1])
        for x in t[2]:
            t_classes(x, acc)
    elif t[0] in ("tuple", "union"):
        for x in t[1]:
            t_classes(x, acc)
    return acc


def t_depth(t):
    sub = t[2] if t[0] == "inst" else t[1] if t[0] in ("tuple", "union") else ()
    return 1 + max((t_depth(x) for x in sub), default=0)


def t_to_json(t):
    if t[0] == "inst":
        return ["inst", t[1], [t_to_json(x) for x in t[2]]]
    if t[0] in ("tuple", "union"):
        return [t[0], [t_to_json(x) for x in t[1]]]
    return [t[0]]


def t_from_json(j):
    if j[0] == "inst":
        return ("inst", j[1], tuple(t_from_json(x) for x in j[2]))
    if j[0] in ("tuple", "union"):
        return (j[0], tuple(t_from_json(x) for x in j[1]))
    return (j[0],)


# ------------------------------------------------------------------------------------------------
# generated modules
def gen_hierarchy(rng: random.Random):
    """Returns list of (name, bases, flavour) ; bases are names of earlier classes or builtins."""
    n = rng.choice([2, 3, 4, 5, 6, 8])
    classes = []
    for i in range(n):
        name = f"K{i}"
        flavour = rng.choices(["plain", "generic", "abc", "enum", "builtin"], [10, 3, 2, 1, 3])[0]
        bases = []
        if flavour == "enum":
            classes.append((name, ["enum.Enum"], flavour))
            continue
        prev = [c[0] for c in classes if c[2] != "enum"]
        if prev and rng.random() < 0.75:
            k = rng.choice([1, 1, 1, 2, 2, 3])
            bases = rng.sample(prev, min(k, len(prev)))
        if flavour == "builtin":
            bases.append(rng.choice(BUILTIN_BASES))
        if flavour == "generic":
            bases.append("Generic[T]")
        if flavour == "abc" and not bases:
            bases.append("abc.ABC")
        classes.append((name, bases, flavour))
    return classes


def render_type(t):
    k = t[0]
    if k == "any":
        return "Any"
    if k == "none":
        return "None"
    if k == "inst":
        return t[1] + ("[" + ", ".join(map(render_type, t[2])) + "]" if t[2] else "")
    if k == "tuple":
        return "tuple[" + ", ".join(map(render_type, t[1])) + "]"
    return " | ".join(render_type(x) for x in t[1])


def gen_sig_type(rng, names, generic_names, depth=0):
    """A type that can be written as an annotation (flat unions, arity-correct generics)."""
    c = rng.random()
    if depth >= 2 or c < 0.45:
        return t_inst(rng.choice(names + ["int", "str", "float", "object", "bool", "bytes"]))
    if c < 0.60:
        return t_inst("list", [gen_sig_type(rng, names, generic_names, depth + 1)])
    if c < 0.66:
        return t_inst("set", [gen_sig_type(rng, names, generic_names, depth + 1)])
    if c < 0.72:
        return t_inst("dict", [gen_sig_type(rng, names, generic_names, depth + 1) for _ in range(2)])
    if c < 0.80:
        return t_tuple([gen_sig_type(rng, names, generic_names, depth + 1) for _ in range(rng.choice([1, 2, 2, 3]))])
    if c < 0.92:
        items = []
        for _ in range(rng.choice([2, 2, 3])):
            x = gen_sig_type(rng, names, generic_names, depth + 1) if rng.random() < 0.8 else NONE_T
            if x[0] != "union" and x not in items:
                items.append(x)
        if not items:
            return t_inst("int")
        return t_union(items) if len(items) > 1 else items[0]
    if c < 0.96 and generic_names:
        return t_inst(rng.choice(generic_names), [gen_sig_type(rng, names, generic_names, depth + 1)])
    return ANY_T


DEP_MARK = "\n#====DEP-MODULE====\n"
HEADER = ["from __future__ import annotations", "import abc, enum", "from typing import Any, Generic, TypeVar", 'T = TypeVar("T")', ""]


def render_classes(rng, classes, names, generic_names, lines):
    """names: what annotations of this module may mention."""
    for name, bases, flavour in classes:
        lines.append(f"class {name}({', '.join(bases)}):" if bases else f"class {name}:")
        if flavour == "enum":
            lines += ["    A = 1", "    B = 2", ""]
            continue
        if rng.random() < 0.6:
            k = rng.choice([0, 1, 2])
            params = ", ".join(f"p{j}: {render_type(gen_sig_type(rng, names, generic_names))}" for j in range(k))
            lines += [f"    def __init__(self{', ' if params else ''}{params}) -> None:", "        pass"]
        if flavour == "abc" and rng.random() < 0.5:
            lines += ["    @abc.abstractmethod", "    def am(self) -> int: ..."]
        if rng.random() < 0.5:
            lines += [f"    def meth(self, a: {render_type(gen_sig_type(rng, names, generic_names))}) -> "
                      f"{render_type(gen_sig_type(rng, names, generic_names))}:", "        raise NotImplementedError"]
        own = [b for b in bases if b in names]
        if own and rng.random() < 0.6:      # the very common `def parent(self) -> Base`
            lines += [f"    def as_base(self) -> {rng.choice(own)}:", "        return self"]
        lines += ["    x = 0", ""]


def render_functions(rng, names, generic_names, lines):
    for i in range(rng.choice([2, 4, 6])):
        k = rng.choice([0, 1, 2])
        params = ", ".join(f"p{j}: {render_type(gen_sig_type(rng, names, generic_names))}" for j in range(k))
        lines += [f"def f{i}({params}) -> {render_type(gen_sig_type(rng, names, generic_names))}:",
                  "    raise NotImplementedError", ""]
    if len(names) >= 1 and rng.random() < 0.7:
        # a generator whose non-union return type holds a nested union, and requests that only 'maybe' match it
        a, b = rng.choice(names), rng.choice(names + ["int", "str"])
        shape = rng.choice(["tuple", "tuple", "list"])
        if shape == "tuple":
            ret, req = f"tuple[{a} | {b}, {a}]", f"tuple[{a}, {a}]"
        else:
            ret, req = f"list[{a} | {b}]", f"list[{a}]"
        lines += [f"def g_nested() -> {ret}:", "    raise NotImplementedError", "",
                  f"def g_use(p0: {req} | None, p1: {req} | int, p2: {req}) -> None:", "    pass", ""]


def render_module(rng, classes, split=0):
    """split > 0: the first `split` classes live in a dependency module; the module under test imports by name
    only those of them it uses as base classes (the rest is reached through the hierarchy walk only)."""
    names = [c[0] for c in classes]
    generic = [c[0] for c in classes if c[2] == "generic"]
    if not split:
        lines = list(HEADER)
        render_classes(rng, classes, names, generic, lines)
        render_functions(rng, names, generic, lines)
        return "\n".join(lines) + "\n"
    dep, root = classes[:split], classes[split:]
    dep_names = [c[0] for c in dep]
    dlines = list(HEADER)
    render_classes(rng, dep, dep_names, [g for g in generic if g in dep_names], dlines)
    used = sorted({b for _, bases, _ in root for b in bases if b in dep_names})
    if not used:
        used = [dep_names[-1]]
    rnames = used + [c[0] for c in root]
    rlines = list(HEADER) + [f"from __DEP__ import {', '.join(used)}", ""]
    render_classes(rng, root, rnames, [g for g in generic if g in rnames], rlines)
    render_functions(rng, rnames, [g for g in generic if g in rnames], rlines)
    return "\n".join(rlines) + "\n" + DEP_MARK + "\n".join(dlines) + "\n"


def split_source(src, depname="c25_dep_probe"):
    if DEP_MARK in src:
        root, dep = src.split(DEP_MARK)
        return root.replace("__DEP__", depname), dep
    return src, None


def gen_module_source(rng):
    """A module source whose class statements execute (MRO / layout conflicts are re-drawn); in a third of the
    cases a two-module project (source of the module under test + DEP_MARK + source of the dependency)."""
    for _ in range(30):
        classes = gen_hierarchy(rng)
        split = rng.randrange(1, len(classes)) if len(classes) >= 3 and rng.random() < 0.35 else 0
        src = render_module(rng, classes, split)
        root, dep = split_source(src)
        try:
            ns = {"__name__": "c25_probe"}
            if dep is not None:
                exec(compile(dep, "<gen-dep>", "exec"), ns)  # noqa: S102
                root = "\n".join(ln for ln in root.splitlines() if not ln.startswith("from c25_dep_probe import"))
            exec(compile(root, "<gen>", "exec"), ns)  # noqa: S102
        except TypeError:
            continue
        return src, [c[0] for c in classes]
    src = "class K0:\n    pass\nclass K1(K0):\n    pass\ndef f0(a: K0) -> K1:\n    raise NotImplementedError\n"
    return src, ["K0", "K1"]


class Cluster:
    """A test cluster of the real implementation for a generated module."""

    def __init__(self, scratch: Path, modname: str, src: str, class_names):
        import pynguin.configuration as config
        from pynguin.analyses.module import generate_test_cluster

        self.depname = f"{modname}_dep"
        root_src, dep_src = split_source(src, self.depname)
        (scratch / f"{modname}.py").write_text(root_src)
        if dep_src is not None:
            (scratch / f"{self.depname}.py").write_text(dep_src)
        if str(scratch) not in sys.path:
            sys.path.insert(0, str(scratch))
        importlib.invalidate_caches()
        config.configuration.module_name = modname
        self.modname = modname
        self.src = src
        self.cluster = generate_test_cluster(modname)
        self.ts = self.cluster.type_system
        self.module = sys.modules[modname]
        depmod = sys.modules.get(self.depname)
        # analysed classes: those on the inheritance chain of a class of the module under test (defined there or
        # imported by name).  Dependency classes that are only mentioned somewhere are registered at best, never walked.
        chain = set()
        for v in vars(self.module).values():
            if isinstance(v, type) and v.__module__ in (modname, self.depname):
                chain.update(v.__mro__)
        self.raw = {}
        for n in class_names:
            r = getattr(self.module, n, None) or (getattr(depmod, n, None) if depmod else None)
            if r is not None and r in chain:
                self.raw[n] = r
        self.class_names = [n for n in class_names if n in self.raw]
        self.unreached = [n for n in class_names if n not in self.raw]
        import builtins

        for b in BUILTIN_UNIVERSE:
            self.raw[b] = getattr(builtins, b)
        self.info = {n: self.ts.to_type_info(r) for n, r in self.raw.items()}
        self.universe = list(self.raw)

    @classmethod
    def bare(cls):
        """A fresh TypeSystem() without any analysed module (only the builtin universe)."""
        import builtins

        from pynguin.analyses.typesystem import TypeSystem

        self = cls.__new__(cls)
        self.modname, self.src, self.cluster, self.module = None, None, None, None
        self.ts = TypeSystem()
        self.class_names = []
        self.raw = {b: getattr(builtins, b) for b in BUILTIN_UNIVERSE}
        self.info = {n: self.ts.to_type_info(r) for n, r in self.raw.items()}
        self.universe = list(self.raw)
        return self

    @classmethod
    def bare_from(cls, other, names, edges=()):
        """A fresh TypeSystem() that knows the classes `names` of cluster `other` and the given edges
        (inserted in the given order); nothing has been asked of it yet."""
        from pynguin.analyses.typesystem import TypeSystem

        self = cls.__new__(cls)
        self.modname, self.src, self.cluster, self.module = None, other.src, None, None
        self.ts = TypeSystem()
        self.class_names = list(other.class_names)
        self.raw = dict(other.raw)
        self.info = {}
        for n in names:
            self.info[n] = self.ts.to_type_info(other.resolve(n).raw_type)
        self.universe = list(other.universe)
        for a, b in edges:
            self.ts.add_subclass_edge(super_class=self.info[a], sub_class=self.info[b])
        return self

    def close(self):
        if self.modname:
            sys.modules.pop(self.modname, None)
            sys.modules.pop(getattr(self, "depname", "") or "", None)

    # --- abstraction -------------------------------------------------------------------------
    def _norm(self, full_name):
        """Names of classes outside the universe must not depend on the (per cluster) module names."""
        if self.modname:
            if full_name.startswith(self.depname + "."):
                return "DEP." + full_name[len(self.depname) + 1:]
            if full_name.startswith(self.modname + "."):
                return "MOD." + full_name[len(self.modname) + 1:]
        return full_name

    def _denorm(self, name):
        if self.modname and name.startswith("DEP."):
            return self.depname + "." + name[4:]
        if self.modname and name.startswith("MOD."):
            return self.modname + "." + name[4:]
        return name

    def name_of(self, ti):
        for n, i in self.info.items():
            if i == ti:
                return n
        n = "@" + self._norm(ti.full_name)
        self.info[n] = ti
        return n

    def resolve(self, name):
        """TypeInfo for a name; '@...' names (classes outside the universe, possibly first seen on another
        cluster of the same module) are looked up in this cluster's type system.  KeyError if unknown."""
        if name in self.info:
            return self.info[name]
        if name.startswith("@"):
            ti = self.ts.find_type_info(self._denorm(name[1:]))
            if ti is not None:
                self.info[name] = ti
                return ti
        raise KeyError(name)

    def to_real(self, t):
        from pynguin.analyses.typesystem import ANY, NONE_TYPE, Instance, TupleType, UnionType

        k = t[0]
        if k == "any":
            return ANY
        if k == "none":
            return NONE_TYPE
        if k == "inst":
            return Instance(self.resolve(t[1]), tuple(self.to_real(x) for x in t[2]))
        if k == "tuple":
            return TupleType(tuple(self.to_real(x) for x in t[1]))
        return UnionType(tuple(self.to_real(x) for x in t[1]))

    def from_real(self, p):
        """ProperType -> abstract type, None for types outside the model."""
        from pynguin.analyses.typesystem import AnyType, Instance, NoneType, TupleType, UnionType

        if isinstance(p, AnyType):
            return ANY_T
        if isinstance(p, NoneType):
            return NONE_T
        if isinstance(p, Instance):
            args = [self.from_real(x) for x in p.args]
            return None if any(a is None for a in args) else t_inst(self.name_of(p.type), args)
        if isinstance(p, TupleType):
            args = [self.from_real(x) for x in p.args]
            return None if any(a is None for a in args) else t_tuple(args)
        if isinstance(p, UnionType):
            args = [self.from_real(x) for x in p.items]
            return None if any(a is None for a in args) else t_union(args)
        return None

    def hg_of(self, name):
        return self.resolve(name).num_hardcoded_generic_parameters

    def wf(self, t):
        k = t[0]
        if k == "inst":
            h = self.hg_of(t[1])
            return (h is None or len(t[2]) == h) and all(self.wf(x) for x in t[2])
        if k == "tuple":
            return all(self.wf(x) for x in t[1])
        if k == "union":
            return len(t[1]) > 0 and all(self.wf(x) for x in t[1])
        return True

    def graph_for(self, used_names):
        """Ancestor-closed part of the real inheritance graph that contains the used classes.
        Every path between two used classes lies inside it.  Returns (names, edges, hgs)."""
        import networkx as nx

        g = self.ts._graph
        keep = set()
        for n in used_names:
            ti = self.resolve(n)
            keep.add(ti)
            keep |= nx.ancestors(g, ti)
        names = sorted(self.name_of(ti) for ti in keep)
        edges = sorted((self.name_of(a), self.name_of(b)) for a, b in g.edges if a in keep and b in keep)
        hgs = [(n, self.hg_of(n)) for n in names if self.hg_of(n) is not None]
        return names, edges, hgs


# ------------------------------------------------------------------------------------------------
# random well-formed proper types over a cluster's universe
def gen_type(rng, cl: Cluster, depth=0, maxdepth=3):
    c = rng.random()
    if depth >= maxdepth:
        c *= 0.55
    if c < 0.07:
        return ANY_T
    if c < 0.12:
        return NONE_T
    if c < 0.55:
        n = rng.choice(cl.universe)
        h = cl.hg_of(n)
        if h is not None:
            return t_inst(n, [gen_type(rng, cl, depth + 1, maxdepth) for _ in range(h)])
        if rng.random() < 0.12 and depth < maxdepth:
            return t_inst(n, [gen_type(rng, cl, depth + 1, maxdepth) for _ in range(rng.choice([1, 1, 2]))])
        return t_inst(n)
    if c < 0.70:
        n = rng.choice(["list", "set", "dict", "list"])
        return t_inst(n, [gen_type(rng, cl, depth + 1, maxdepth) for _ in range(cl.hg_of(n))])
    if c < 0.82:
        return t_tuple([gen_type(rng, cl, depth + 1, maxdepth) for _ in range(rng.choice([0, 1, 2, 2, 3]))])
    return t_union([gen_type(rng, cl, depth + 1, maxdepth) for _ in range(rng.choice([1, 2, 2, 3]))])


def related_classes(cl: Cluster, n):
    ti = cl.info[n]
    res = []
    for m, tj in cl.info.items():
        if m.startswith("@"):
            continue
        if tj in cl.ts._graph and ti in cl.ts._graph:
            import networkx as nx

            if nx.has_path(cl.ts._graph, ti, tj) or nx.has_path(cl.ts._graph, tj, ti):
                res.append(m)
    return res or [n]


def mutate_type(rng, cl: Cluster, t, depth=0):
    """A type related to t: classes moved along the hierarchy, subterms replaced, unions added."""
    c = rng.random()
    k = t[0]
    if c < 0.08:
        return gen_type(rng, cl, depth, 3)
    if c < 0.13:
        return ANY_T
    if c < 0.22 and depth < 2:
        items = [t, gen_type(rng, cl, depth + 1, 2)]
        rng.shuffle(items)
        return t_union(items)
    if k == "inst":
        n = t[1]
        if rng.random() < 0.5:
            m = rng.choice(related_classes(cl, n))
            if cl.hg_of(m) == cl.hg_of(n) or (cl.hg_of(m) is None and cl.hg_of(n) is None):
                n = m
            elif cl.hg_of(m) is None:
                return t_inst(m, ())
        args = tuple(mutate_type(rng, cl, x, depth + 1) if rng.random() < 0.4 else x for x in t[2])
        return t_inst(n, args)
    if k == "tuple":
        return t_tuple([mutate_type(rng, cl, x, depth + 1) if rng.random() < 0.4 else x for x in t[1]])
    if k == "union":
        items = [mutate_type(rng, cl, x, depth + 1) if rng.random() < 0.3 else x for x in t[1]]
        if len(items) > 1 and rng.random() < 0.3:
            items.pop(rng.randrange(len(items)))
        if rng.random() < 0.3:
            rng.shuffle(items)
        return t_union(items)
    return t


# ------------------------------------------------------------------------------------------------
# Coq printers
class Numbering:
    def __init__(self, names):
        self.idx = {n: i for i, n in enumerate(names)}

    def cls(self, n):
        return cN(self.idx[n])

    def ty(self, t):
        k = t[0]
        if k == "any":
            return "C25.TAny"
        if k == "none":
            return "C25.TNone"
        if k == "inst":
            return f"(C25.TInst {self.cls(t[1])} {clist(self.ty(x) for x in t[2])})"
        if k == "tuple":
            return f"(C25.TTuple {clist(self.ty(x) for x in t[1])})"
        return f"(C25.TUnion {clist(self.ty(x) for x in t[1])})"

    def graph(self, names, edges, hgs):
        return ("{| C25.nodes := %s; C25.edges := %s; C25.hgs := %s |}" % (
            clist(self.cls(n) for n in names),
            clist(cpair(self.cls(a), self.cls(b)) for a, b in edges),
            clist(cpair(self.cls(n), cnat(h)) for n, h in hgs)))


def c_optN(x):
    return copt(None if x is None else cN(x))


def any_distance():
    import pynguin.configuration as config

    return int(config.configuration.generator_selection.generator_any_distance)


# ------------------------------------------------------------------------------------------------
# independent re-statement of "may be a subtype" with covariant list/set/dict arguments, used only
# to classify distance-soundness failures (is the invariance of generics the only reason?)
def maybe_cov(cl: Cluster, l, r, cov=True):
    """cov=True: list/set/dict arguments covariant; cov=False: invariant (the documented is_maybe_subtype)."""
    if r[0] == "any":
        return True
    if l[0] == "union":
        return any(maybe_cov(cl, x, r, cov) for x in l[1])
    if r[0] == "union":
        return any(maybe_cov(cl, l, y, cov) for y in r[1])
    if l[0] == "any":
        return True
    if l[0] == "none":
        return r[0] == "none"
    if l[0] == "inst":
        if r[0] != "inst":
            return False
        if not cl.ts.is_subclass(cl.info[l[1]], cl.info[r[1]]):
            return False
        hl, hr = cl.hg_of(l[1]), cl.hg_of(r[1])
        if hl is not None and hl == hr:
            return len(l[2]) == len(r[2]) and all(
                maybe_cov(cl, x, y, cov) and (cov or maybe_cov(cl, y, x, cov)) for x, y in zip(l[2], r[2]))
        return True
    if l[0] == "tuple":
        return r[0] == "tuple" and len(l[1]) == len(r[1]) and all(maybe_cov(cl, x, y, cov) for x, y in zip(l[1], r[1]))
    return False


def invariance_only(cl: Cluster, s, t):
    """is 'list/set/dict arguments are invariant' the only reason why s is no maybe-subtype of t?"""
    return maybe_cov(cl, s, t, True) and not maybe_cov(cl, s, t, False)


def refl_ok(t):
    k = t[0]
    if k in ("any", "none"):
        return False
    if k == "inst":
        return all(refl_ok(x) for x in t[2])
    if k == "tuple":
        return all(refl_ok(x) for x in t[1])
    return any(x[0] == "inst" and refl_ok(x) for x in t[1])
