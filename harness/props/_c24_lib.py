"""C24 helpers: whole-file round trip  exported file -> parse_seed_module -> re-render -> diff.

Runs inside a process where pynguin is importable and the SUT module is on sys.path (the
generation subprocess of _c18_gen.py, or the harness process for stub files)."""
from __future__ import annotations

import ast
import builtins
from collections import Counter

BUILTINS = frozenset(dir(builtins))
_CLUSTERS: dict = {}


def assert_shape(n: ast.Assert) -> str:
    t = n.test
    if isinstance(t, ast.Call) and isinstance(t.func, ast.Name) and t.func.id == "isinstance":
        return "isinstance"
    if isinstance(t, ast.Compare) and len(t.ops) == 1:
        left, right = t.left, t.comparators[0]
        if isinstance(left, ast.JoinedStr):
            return "typename"
        if isinstance(right, ast.Call) and ast.unparse(right.func) == "pytest.approx":
            return "float"
        if isinstance(left, ast.Call) and isinstance(left.func, ast.Name) and left.func.id == "len":
            return "len"
        if isinstance(t.ops[0], ast.Is):
            return "is"
        if isinstance(t.ops[0], ast.Eq):
            return "eq"
    return "other"


def stmt_class(n: ast.AST, sut_names: set[str]) -> str:
    if any(isinstance(x, ast.Lambda) for x in ast.walk(n)):
        return "lambda"
    if isinstance(n, ast.With) and len(n.items) == 1:
        c = n.items[0].context_expr
        if isinstance(c, ast.Call) and ast.unparse(c.func) == "pytest.raises" and c.args and isinstance(c.args[0], ast.Name):
            if c.args[0].id not in BUILTINS and c.args[0].id not in sut_names:
                return "raises-imported-exception"
    return "other"


def classify(orig: list[ast.AST], new: list[ast.AST], sut_names: set[str]) -> list[tuple[str, str]]:
    """Differences between the exported body and the re-rendered one: [(signature, message)]."""
    od = [ast.dump(n) for n in orig if not isinstance(n, ast.Pass)]
    nd = [ast.dump(n) for n in new if not isinstance(n, ast.Pass)]
    if od == nd:
        return []
    out = []
    oc, nc = Counter(od), Counter(nd)
    byd = {ast.dump(n): n for n in list(orig) + list(new)}
    block_local: set[str] = set()
    for n in orig:
        if isinstance(n, (ast.With, ast.Try, ast.If, ast.For, ast.While)):
            for sub in ast.walk(n):
                if isinstance(sub, ast.Name) and isinstance(sub.ctx, ast.Store):
                    block_local.add(sub.id)
    dropped_binds: set[str] = set()
    for d in (oc - nc):
        if isinstance(byd[d], (ast.With, ast.Try, ast.If, ast.For, ast.While)):
            continue  # names bound inside a block are block-local for the parser whether or not it is kept
        for sub in ast.walk(byd[d]):
            if isinstance(sub, ast.Name) and isinstance(sub.ctx, ast.Store):
                dropped_binds.add(sub.id)
    for d, k in (oc - nc).items():
        n = byd[d]
        reads = {x.id for x in ast.walk(n) if isinstance(x, ast.Name) and isinstance(x.ctx, ast.Load)}
        if reads & dropped_binds and not isinstance(n, ast.With):
            kind = "assertion" if isinstance(n, ast.Assert) else "statement"
            out.append((f"roundtrip:{kind}-dropped:depends-on-dropped",
                        f"`{ast.unparse(n)[:120]}` reads {sorted(reads & dropped_binds)}, bound by a statement that was dropped"))
        elif reads & block_local:
            kind = "assertion" if isinstance(n, ast.Assert) else "statement"
            out.append((f"roundtrip:{kind}-dropped:reads-block-local",
                        f"`{ast.unparse(n)[:120]}` reads {sorted(reads & block_local)}, bound only inside an earlier block"))
        elif isinstance(n, ast.Assert):
            out.append((f"roundtrip:assertion-dropped:{assert_shape(n)}", f"`{ast.unparse(n)}` is not rendered by the re-parsed test case"))
        else:
            out.append((f"roundtrip:statement-dropped:{stmt_class(n, sut_names)}", f"`{ast.unparse(n)[:120]}` is not part of the re-parsed test case"))
    for d, k in (nc - oc).items():
        out.append(("roundtrip:extra-item", f"`{ast.unparse(byd[d])[:120]}` is rendered by the re-parsed test case but was not exported"))
    if not out:
        os_ = [d for d in od if not d.startswith("Assert(")]
        ns_ = [d for d in nd if not d.startswith("Assert(")]
        i = next(k for k in range(len(od)) if od[k] != nd[k])
        sig = "roundtrip:assertion-moved" if os_ == ns_ else "roundtrip:reordered"
        out.append((sig, f"same items, different order from position {i}: exported `{ast.unparse(byd[od[i]])[:100]}`, "
                         f"re-rendered `{ast.unparse(byd[nd[i]])[:100]}`"))
    return out


def render_testcase(tc) -> str:
    """Statements and their assertions as the exporter lays them out (public pieces only)."""
    import libcst as cst
    from pynguin.assertion.assertion_to_ast import assertion_to_cst

    body = []
    for st in tc.statements():
        body.append(st.node)
        for a in st.assertions:
            n = assertion_to_cst(a)
            if n is not None:
                body.append(n)
    if not body:
        return "pass\n"
    return cst.Module(body=body).code


def roundtrip_file(src: str, module_name: str) -> dict:
    import libcst as cst
    import pynguin.configuration as config
    from pynguin.analyses.module import generate_test_cluster
    from pynguin.analyses.seeding import parse_seed_module
    from pynguin.large_language_model.parsing.deserializer import CstStatementDeserializer, normalize_sut_references
    from pynguin.utils.naming import get_module_alias

    config.configuration.module_name = module_name
    if module_name not in _CLUSTERS:
        _CLUSTERS[module_name] = generate_test_cluster(module_name)
    cluster = _CLUSTERS[module_name]
    parsed = parse_seed_module(src, cluster, create_assertions=True)
    alias = get_module_alias(module_name)
    normalized = normalize_sut_references(cst.parse_module(src), module_name, alias)
    deser = CstStatementDeserializer(cluster, create_assertions=True)
    import importlib

    sut_names = set(dir(importlib.import_module(module_name)))
    funcs, nonempty = [], []
    for node in normalized.body:
        if not (isinstance(node, cst.FunctionDef) and node.name.value.startswith(("test_", "seed_test_"))):
            continue
        tc = deser.deserialize_function(node).test_case
        if tc.size() > 0:
            nonempty.append(tc)
        norm_code = cst.Module(body=[node.with_changes(decorators=())]).code
        try:
            orig_fn = ast.parse(norm_code).body[0]
            new_body = ast.parse(render_testcase(tc)).body
        except SyntaxError as e:
            # SUT-reference normalisation (or the parsed test case) is no longer valid Python
            import re as _re

            kind = "keyword" if _re.search(r"[(,]\s*\w+\.\w+\s*=[^=]", norm_code) else "other"
            funcs.append({"name": node.name.value, "asserts": 0, "lifted": 0, "statements": 0, "shapes": {},
                          "diffs": [(f"roundtrip:normalised-code-invalid:{kind}",
                                     f"after SUT-reference normalisation the function is not valid Python: {e.msg}: "
                                     f"`{(e.text or '').strip()[:120]}`")],
                          "orig": norm_code.splitlines()[1:], "new": render_testcase(tc).splitlines()})
            continue
        diffs = classify(orig_fn.body, new_body, sut_names)
        n_assert = sum(isinstance(n, ast.Assert) for n in orig_fn.body)
        lifted = sum(len(s.assertions) for s in tc.statements())
        funcs.append({"name": node.name.value, "diffs": diffs, "asserts": n_assert, "lifted": lifted,
                      "statements": sum(not isinstance(n, (ast.Assert, ast.Pass)) for n in orig_fn.body),
                      "shapes": dict(Counter(assert_shape(n) for n in orig_fn.body if isinstance(n, ast.Assert))),
                      "orig": [ast.unparse(n) for n in orig_fn.body], "new": [ast.unparse(n) for n in new_body]})
    same_entry = [render_testcase(t) for t in parsed] == [render_testcase(t) for t in nonempty]
    return {"functions": funcs, "entry_point_consistent": same_entry, "parsed": len(parsed)}


# ================================================================================================
# abstraction to the terms of Models/C24.v
class Codes:
    def __init__(self):
        self.attr = {"approx": 1, "__module__": 2, "__qualname__": 3}
        self.typ: dict[str, int] = {}
        self.unk: dict[str, int] = {}
        self.amb = {"pytest": 1, "type": 2, "isinstance": 3, "len": 4, "float": 5}

    def a(self, s):
        return self.attr.setdefault(s, len(self.attr) + 10)

    def t(self, s):
        return self.typ.setdefault(s, len(self.typ))


def c_src(s):
    return {"SVar": lambda: f"(C24.SVar {s[1]}%N)", "SDot": lambda: f"(C24.SDot {s[1]}%N {s[2]}%N)",
            "SAlias": lambda: f"(C24.SAlias {s[1]}%N)"}[s[0]]()


def c_value(v):
    if v[0] == "VEnum":
        return f"(C24.VEnum {v[1]}%N {v[2]}%N)"
    return "C24." + v[0]


def c_form(f):
    k = f[0]
    if k == "FObject":
        return f"(C24.FObject {c_src(f[1])} {c_value(f[2])})"
    if k == "FFloat":
        return f"(C24.FFloat {c_src(f[1])} {'true' if f[2] else 'false'})"
    if k == "FTypeName":
        return f"(C24.FTypeName {c_src(f[1])})"
    if k == "FIsInstanceB":
        return f"(C24.FIsInstanceB {c_src(f[1])} {f[2]}%N)"
    if k == "FIsInstanceM":
        return f"(C24.FIsInstanceM {c_src(f[1])} {f[2]}%N [{'; '.join(str(x) + '%N' for x in f[3])}])"
    if k == "FLen":
        return f"(C24.FLen {c_src(f[1])})"
    raise ValueError(k)


def src_of_ast(e: ast.AST, alias: str, codes: Codes):
    import re

    if isinstance(e, ast.Name):
        m = re.fullmatch(r"var_(\d+)", e.id)
        return ("SVar", int(m.group(1))) if m else None
    if isinstance(e, ast.Attribute) and isinstance(e.value, ast.Name):
        m = re.fullmatch(r"var_(\d+)", e.value.id)
        if m:
            return ("SDot", int(m.group(1)), codes.a(e.attr))
        if e.value.id == alias:
            return ("SAlias", codes.a(e.attr))
    return None


def chain_of(e: ast.AST):
    parts = []
    while isinstance(e, ast.Attribute):
        parts.append(e.attr)
        e = e.value
    if isinstance(e, ast.Name):
        return [e.id] + parts[::-1]
    return None


def form_of_assert(n: ast.Assert, alias: str, codes: Codes):
    """Recognise the five rendered assertion shapes structurally (own reading of assertion_to_ast)."""
    from pynguin.utils.type_utils import is_assertable

    t = n.test
    if isinstance(t, ast.Call) and isinstance(t.func, ast.Name) and t.func.id == "isinstance" and len(t.args) == 2 and not t.keywords:
        s = src_of_ast(t.args[0], alias, codes)
        ch = chain_of(t.args[1])
        if s is None or ch is None:
            return None
        if len(ch) == 1:
            return ("FIsInstanceB", s, codes.t(ch[0])) if ch[0] in BUILTINS else None
        if ch[0] == alias:
            return ("FIsInstanceM", s, codes.a(ch[1]), [codes.a(x) for x in ch[2:]])
        return None
    if not (isinstance(t, ast.Compare) and len(t.ops) == 1):
        return None
    left, op, right = t.left, t.ops[0], t.comparators[0]
    if isinstance(left, ast.JoinedStr) and isinstance(op, ast.Eq):
        vals = [v for v in left.values if isinstance(v, ast.FormattedValue)]
        if len(vals) == 2 and all(isinstance(v.value, ast.Attribute) and isinstance(v.value.value, ast.Call)
                                  and ast.unparse(v.value.value.func) == "type" for v in vals):
            s = src_of_ast(vals[0].value.value.args[0], alias, codes)
            return ("FTypeName", s) if s else None
        return None
    if (isinstance(left, ast.Call) and isinstance(left.func, ast.Name) and left.func.id == "len" and len(left.args) == 1
            and isinstance(op, ast.Eq) and isinstance(right, ast.Constant) and type(right.value) is int):
        s = src_of_ast(left.args[0], alias, codes)
        return ("FLen", s) if s else None
    s = src_of_ast(left, alias, codes)
    if s is None:
        return None
    if isinstance(right, ast.Call) and ast.unparse(right.func) == "pytest.approx" and isinstance(op, ast.Eq):
        return ("FFloat", s, isinstance(right.args[0], ast.Call))
    try:
        val = ast.literal_eval(right)
        lit = True
    except (ValueError, SyntaxError, TypeError):
        lit = False
    if lit:
        if val is None or isinstance(val, bool):
            return ("FObject", s, ("VNoneBool",)) if isinstance(op, ast.Is) else None
        if isinstance(val, float) or not isinstance(op, ast.Eq):
            return None
        return ("FObject", s, ("VPlain",) if is_assertable(val) else ("VDeep",))
    if not isinstance(op, ast.Eq):
        return None
    ch = chain_of(right)
    if ch is not None and len(ch) == 3 and ch[0] == alias:
        return ("FObject", s, ("VEnum", codes.a(ch[1]), codes.a(ch[2])))
    if isinstance(right, ast.Call) and isinstance(right.func, ast.Name) and right.func.id in ("float", "complex"):
        return ("FObject", s, ("VCall",))
    return None


def form_of_assertion(a, codes: Codes):
    """Form of a real (parsed) Assertion object; parsed sources are bare variables."""
    import re

    import pynguin.assertion.assertion as ass

    m = re.fullmatch(r"var_(\d+)", a.source)
    s = ("SVar", int(m.group(1))) if m else ("SVar", 999999)
    if isinstance(a, ass.FloatAssertion):
        return ("FFloat", s, False)
    if isinstance(a, ass.ObjectAssertion):
        v = a.object
        return ("FObject", s, ("VNoneBool",) if v is None or isinstance(v, bool) else ("VPlain",))
    if isinstance(a, ass.IsInstanceAssertion):
        if a.module == "builtins":
            return ("FIsInstanceB", s, codes.t(a.qualname))
        parts = a.qualname.split(".")
        return ("FIsInstanceM", s, codes.a(parts[0]), [codes.a(x) for x in parts[1:]])
    if isinstance(a, ass.CollectionLengthAssertion):
        return ("FLen", s)
    if isinstance(a, ass.TypeNameAssertion):
        return ("FTypeName", s)
    raise ValueError(a)


def c_name(x: str, ambient, alias: str, codes: Codes) -> str:
    import re

    m = re.fullmatch(r"var_(\d+)", x)
    if m:
        return f"(C24.NVar {int(m.group(1))}%N)"
    if x == alias:
        return "(C24.NAmbient 0%N)"
    if x in codes.amb:
        return f"(C24.NAmbient {codes.amb[x]}%N)"
    if x in ambient:
        return f"(C24.NAmbient {1000 + codes.t(x)}%N)"
    return f"(C24.NUnknown {codes.unk.setdefault(x, len(codes.unk))}%N)"


def tc_cases(src: str, module_name: str) -> list[dict]:
    """Per exported test function: the item list (as the parser sees it after SUT-reference
    normalisation) and what the real deserializer produced, as Coq terms of C24.tc_case."""
    import libcst as cst
    import pynguin.configuration as config
    from pynguin.analyses.module import generate_test_cluster
    from pynguin.large_language_model.parsing.deserializer import CstStatementDeserializer, normalize_sut_references
    from pynguin.utils.naming import get_module_alias

    import _c18_lib as L

    config.configuration.module_name = module_name
    if module_name not in _CLUSTERS:
        _CLUSTERS[module_name] = generate_test_cluster(module_name)
    cluster = _CLUSTERS[module_name]
    alias = get_module_alias(module_name)
    normalized = normalize_sut_references(cst.parse_module(src), module_name, alias)
    deser = CstStatementDeserializer(cluster, create_assertions=True)
    ambient = set(deser._ambient_names)  # noqa: SLF001
    res = []
    for node in normalized.body:
        if not (isinstance(node, cst.FunctionDef) and node.name.value.startswith("test_")):
            continue
        codes = Codes()
        tc = deser.deserialize_function(node).test_case
        try:
            fn = ast.parse(cst.Module(body=[node.with_changes(decorators=())]).code).body[0]
            for st in tc.statements():
                ast.parse(cst.Module(body=[st.node]).code)
        except SyntaxError:
            continue   # reported by roundtrip_file as roundtrip:normalised-code-invalid
        items, dumps = [], []
        for i, n in enumerate(fn.body):
            if isinstance(n, ast.Pass):
                continue
            f = form_of_assert(n, alias, codes) if isinstance(n, ast.Assert) else None
            dumps.append(ast.dump(n))
            if f is not None:
                items.append(("A", f))
            else:
                u, b = L.names_of(n)
                bind = None
                if isinstance(n, ast.Assign) and len(n.targets) == 1 and isinstance(n.targets[0], ast.Name):
                    bind = n.targets[0].id
                    u = u - {bind}
                items.append(("S", len(items), bind, sorted(u)))
        observed, used, ok = [], set(), True
        for st in tc.statements():
            d = ast.dump(ast.parse(cst.Module(body=[st.node]).code).body[0])
            idx = next((k for k, dd in enumerate(dumps) if dd == d and k not in used), None)
            if idx is None:
                ok = False
                break
            used.add(idx)
            observed.append((items[idx], [form_of_assertion(a, codes) for a in st.assertions]))

        def c_item(it):
            import re

            if it[0] == "A":
                return f"(C24.IAssert {c_form(it[1])})"
            b = "None"
            if it[2] is not None:
                m = re.fullmatch(r"var_(\d+)", it[2])
                b = f"(Some {int(m.group(1))}%N)" if m else "(Some 888888%N)"
            return f"(C24.IStmt {it[1]}%N {b} [{'; '.join(c_name(x, ambient, alias, codes) for x in it[3])}])"

        term = ("C24.CTc ([" + "; ".join(c_item(i) for i in items) + "], [" +
                "; ".join(f"({c_item(i)}, [{'; '.join(c_form(f) for f in fs)}])" for i, fs in observed) + "])")
        res.append({"name": node.name.value, "term": term, "matched": ok, "items": len(items),
                    "asserts": sum(i[0] == "A" for i in items)})
    return res
