"""C29 helper: sandbox trees, operation sequences, execution inside a real FilesystemIsolation.

Everything happens below one sandbox directory handed in by the caller (under /var/tmp); every path
given to the implementation is built from the name alphabet below that directory.
"""
from __future__ import annotations

import builtins
import io
import os
import shutil
import tempfile
from pathlib import Path

# Sibling names that are string prefixes / extensions of each other: an implementation that compares
# path strings instead of path components (startswith, os.path.commonprefix) confuses them, the model
# (component lists) does not.
NAMES = ["a", "ab", "a.b", "data", "data.csv", "data2", "logs", "logs_old"]
CLUSTERS = [[0, 1, 2], [3, 4, 5], [6, 7]]
MODES = {"MR": "r", "MW": "w", "MA": "a", "MX": "x", "MRP": "r+"}
OS_FLAGS = {
    "MW": os.O_WRONLY | os.O_CREAT | os.O_TRUNC,
    "MA": os.O_WRONLY | os.O_CREAT | os.O_APPEND,
    "MX": os.O_WRONLY | os.O_CREAT | os.O_EXCL,
    "MRP": os.O_RDWR,
}
_ORIG_OPEN = builtins.open
LINK = "\x00L:"  # node value of a symbolic link: LINK + its target string (oracle-only layouts)
ACC = {"ARd": os.O_RDONLY, "AWr": os.O_WRONLY, "ARdWr": os.O_RDWR}


class Unsupported(Exception):
    """The filesystem below the scratch directory does not support the operation (O_TMPFILE)."""


def os_flags(fl) -> int:
    acc, creat, excl, trunc, append, tmpfile = fl
    return (ACC[acc] | (os.O_CREAT if creat else 0) | (os.O_EXCL if excl else 0) | (os.O_TRUNC if trunc else 0)
            | (os.O_APPEND if append else 0) | (os.O_TMPFILE if tmpfile else 0))


def real(root: str, p) -> str:
    return os.path.join(root, *[NAMES[c] for c in p]) if p else root


def _name(root, p) -> str:
    return root(p) if callable(root) else real(root, p)


def normalise(spelled: str, cwd: str) -> str:
    """Independent lexical normaliser (no os.path): absolute, no '.', '..', '//' or trailing slash."""
    if not spelled.startswith("/"):
        spelled = cwd + "/" + spelled
    out = []
    for part in spelled.split("/"):
        if part in ("", "."):
            continue
        if part == "..":
            if out:
                out.pop()
        else:
            out.append(part)
    return "/" + "/".join(out)


SPELL_KINDS = ["plain", "dot", "slashes", "trail", "dd", "ddc", "ddt", "rel"]
TRAIL_OK = ("Mkdir", "Makedirs", "Rmdir", "Rmtree")


class Speller:
    """Maps the model's (normalised) path arguments of one operation to other spellings of the same path:
    'dot' (a '.' component), 'slashes' ('//'), 'trail' (trailing slash, directory operations only), 'dd' (a
    detour down into an existing directory of the sandbox and back up with '..'), 'ddc' (the same through
    a directory created during the execution), 'ddt' (through the isolation's private temp dir), 'rel'
    (relative to the working directory).  Detours only go through directories that exist, so without
    symlinks the kernel resolves every spelling to the normal form; the last component is always literal."""

    def __init__(self, root, specs, dirs_all, dirs_created, tmpdir):
        self.root, self.specs, self.k = root, list(specs or []), 0
        self.dirs_all, self.dirs_created, self.tmpdir = dirs_all, dirs_created, tmpdir
        self.used = []

    def __call__(self, p):
        spec = self.specs[self.k] if self.k < len(self.specs) else ("plain", 0)
        self.k += 1
        s = self.spell(p, spec[0], int(spec[1]))
        assert normalise(s, os.getcwd()) == real(self.root, p), (s, real(self.root, p))
        self.used.append(spec[0] if s != real(self.root, p) else "plain")
        return s

    def spell(self, p, kind, salt):
        base = real(self.root, p)
        if not p or kind == "plain":
            return base
        comps = [NAMES[c] for c in p]
        if kind == "dot":
            i = salt % len(comps)
            return self.root + "/" + "/".join(comps[:i] + ["."] + comps[i:])
        if kind == "slashes":
            i = salt % len(comps)
            return self.root + "/" + "/".join(comps[:i] + [""] + comps[i:])
        if kind == "trail":
            return base + "/"
        if kind in ("dd", "ddc"):
            cands = self.dirs_created if (kind == "ddc" and self.dirs_created) else self.dirs_all
            for off in range(len(cands)):
                d = cands[(salt + off) % len(cands)]
                c = 0
                while c < len(d) and c < len(p) and d[c] == p[c]:
                    c += 1
                c = min(c, len(p) - 1)
                if c < len(d):  # otherwise d is an ancestor of the target: no detour
                    parts = [NAMES[x] for x in d] + [".."] * (len(d) - c) + comps[c:]
                    return self.root + "/" + "/".join(parts)
            return base
        if kind == "ddt":
            return self.tmpdir + "/" + os.path.relpath(self.root, self.tmpdir) + "/" + "/".join(comps)
        if kind == "rel":
            return os.path.relpath(base, os.getcwd())
        raise AssertionError(kind)


def build(root: str, init):
    os.makedirs(root)
    for p, n in sorted(init, key=lambda e: len(e[0])):
        if n == "D":
            os.mkdir(real(root, p))
        elif n.startswith(LINK):
            os.symlink(n[len(LINK):], real(root, p))
        else:
            with _ORIG_OPEN(real(root, p), "w") as f:
                f.write(n)


def tree(root: str):
    """Sorted [(path codes, 'D' | content)] of everything below root (root itself excluded)."""
    out = []

    def walk(d, pre):
        with os.scandir(d) as it:
            ents = sorted(it, key=lambda e: e.name)
        for e in ents:
            if e.name not in NAMES:
                out.append((pre + ("?" + e.name,), "D"))
                continue
            q = pre + (NAMES.index(e.name),)
            if e.is_symlink():
                out.append((q, LINK + os.readlink(e.path)))  # lstat view: the link itself, never followed
            elif e.is_dir():
                out.append((q, "D"))
                walk(e.path, q)
            else:
                with _ORIG_OPEN(e.path, "r") as f:
                    out.append((q, f.read()))

    walk(root, ())
    return out


def excluded(root: str, op) -> bool:
    """Operations outside the model (see notes/C29.md): shutil.move of a directory to a destination
    whose parent is missing (falls back to copytree + rmtree)."""
    if op[0] == "Move":
        s, d = real(root, op[1]), real(root, op[2])
        if os.path.isdir(s) and not os.path.isdir(d) and not os.path.lexists(os.path.dirname(d)):
            return True
    return False


def perform(root, op):
    """`root` is the sandbox root (plain spelling) or a callable mapping a model path to the string that
    is handed to the implementation (see Speller); path arguments are named in the order src, dst."""
    kind = op[0]
    fl = op[-1]
    if kind == "Open":
        _, p, m, data, _ = op
        rp = _name(root, p)
        if fl == "os.open":
            fd = os.open(rp, OS_FLAGS[m])
            try:
                os.write(fd, data.encode())
            finally:
                os.close(fd)
            return
        if fl == "write_text":
            Path(rp).write_text(data)
            return
        if fl == "write_bytes":
            Path(rp).write_bytes(data.encode())
            return
        if fl == "open":
            f = open(rp, MODES[m])  # noqa: SIM115  (builtins.open is looked up at call time)
        elif fl == "open_kw":
            f = open(file=rp, mode=MODES[m])  # noqa: SIM115
        elif fl == "io.open":
            f = io.open(rp, MODES[m])  # noqa: SIM115,UP020
        else:
            f = Path(rp).open(MODES[m])  # noqa: SIM115
        try:
            if m == "MR":
                f.read()
            else:
                f.write(data)
        finally:
            f.close()
    elif kind == "OsOpen":
        import errno

        _, p, fl_, data, _ = op
        try:
            fd = os.open(_name(root, p), os_flags(fl_), 0o644)
        except OSError as e:
            if fl_[5] and e.errno == errno.EOPNOTSUPP:
                raise Unsupported from e
            raise
        try:
            if fl_[0] != "ARd":
                os.write(fd, data.encode())
        finally:
            os.close(fd)
    elif kind == "Touch":
        Path(_name(root, op[1])).touch()
    elif kind == "Mkdir":
        _, p, eo, _ = op
        if fl == "os.mkdir":
            os.mkdir(_name(root, p))
        else:
            Path(_name(root, p)).mkdir(exist_ok=eo)
    elif kind == "Makedirs":
        _, p, eo, _ = op
        if fl == "os.makedirs":
            os.makedirs(_name(root, p), exist_ok=eo)
        else:
            Path(_name(root, p)).mkdir(parents=True, exist_ok=eo)
    elif kind == "Rename":
        s, d = _name(root, op[1]), _name(root, op[2])
        if fl == "os.rename.kw":
            os.rename(src=s, dst=d)
        elif fl == "os.replace.kw":
            os.replace(src=s, dst=d)
        elif fl == "os.rename":
            os.rename(s, d)
        elif fl == "os.replace":
            os.replace(s, d)
        elif fl == "Path.rename":
            Path(s).rename(d)
        else:
            Path(s).replace(Path(d))
    elif kind == "CopyFile":
        if fl == "copyfile.kw":
            shutil.copyfile(src=_name(root, op[1]), dst=_name(root, op[2]))
        else:
            shutil.copyfile(_name(root, op[1]), _name(root, op[2]))
    elif kind == "Copy":
        (shutil.copy if fl == "copy" else shutil.copy2)(_name(root, op[1]), _name(root, op[2]))
    elif kind == "Move":
        if fl == "move.kw":
            shutil.move(src=_name(root, op[1]), dst=_name(root, op[2]))
        else:
            shutil.move(_name(root, op[1]), _name(root, op[2]))
    elif kind == "Remove":
        p = _name(root, op[1])
        if fl == "os.remove":
            os.remove(p)
        elif fl == "os.unlink":
            os.unlink(p)
        else:
            Path(p).unlink()
    elif kind == "Rmdir":
        p = _name(root, op[1])
        if fl == "os.rmdir":
            os.rmdir(p)
        else:
            Path(p).rmdir()
    elif kind == "Rmtree":
        shutil.rmtree(_name(root, op[1]))
    else:
        raise AssertionError(kind)


def run_case(root: str, init, ops, tmp_sibling: bool = False, spell=None):
    """Execute ops inside a real FilesystemIsolation over a fresh sandbox.

    The isolation's private temp dir is created inside the caller's scratch directory (next to `root`).
    With `tmp_sibling` the sandbox root is `<private temp dir>_sb`: every sandbox path then has the temp
    root as a plain string prefix without lying below it.

    `spell`: per operation a list of (kind, salt) for its path arguments (see Speller); None = plain.

    Returns dict(before, steps=[(op, res, created, tree)], after, skipped, stray, spelled)."""
    import pynguin.configuration as config
    from pynguin.utils.fs_isolation import FilesystemIsolation

    assert root.startswith("/var/tmp/") and not os.getcwd().startswith(os.path.dirname(root))
    config.configuration.filesystem_isolation = True
    tdir = os.path.join(os.path.dirname(root), "tmp")
    os.makedirs(tdir, exist_ok=True)
    old_tempdir = tempfile.tempdir
    tempfile.tempdir = tdir
    try:
        iso = FilesystemIsolation()
    finally:
        tempfile.tempdir = old_tempdir
    if tmp_sibling:
        assert os.path.dirname(iso._tmp.name) == tdir, iso._tmp.name
        root = iso._tmp.name + "_sb"
    shutil.rmtree(root, ignore_errors=True)
    build(root, init)
    before = tree(root)
    steps, skipped, stray, spelled = [], 0, [], []
    cur = before
    with iso:
        for k, op in enumerate(ops):
            if excluded(root, op):
                skipped += 1
                continue
            dirs_all = [q for q, n in cur if n == "D"]
            isd = set(dirs_all)
            dirs_created = []
            for c in iso._created:
                parts = os.path.relpath(c, root).split(os.sep)
                if all(x in NAMES for x in parts):
                    q = tuple(NAMES.index(x) for x in parts)
                    if q in isd:
                        dirs_created.append(q)
            namer = Speller(root, spell[k] if spell else None, dirs_all, sorted(dirs_created), iso._tmp.name)
            try:
                try:
                    perform(namer, op)
                finally:
                    spelled += namer.used
                r = "ROk"
            except Unsupported:
                skipped += 1
                continue
            except PermissionError as e:
                r = "RRefused" if str(e).startswith("Attempted to") else "RErr"
            except Exception:  # noqa: BLE001
                r = "RErr"
            cr = []
            for c in iso._created:
                rel = os.path.relpath(c, root)
                parts = rel.split(os.sep)
                if rel == "." or parts[0] == ".." or any(x not in NAMES for x in parts):
                    stray.append(c)
                else:
                    cr.append(tuple(NAMES.index(x) for x in parts))
            cur = tree(root)
            steps.append((op, r, sorted(cr), cur))
    after = tree(root)
    shutil.rmtree(root, ignore_errors=True)
    return {"before": before, "steps": steps, "after": after, "skipped": skipped, "stray": stray, "spelled": spelled}


# ------------------------------------------------------------------------------------------------
# generators (all randomness from the rng handed in)
def _cluster_mate(rng, c):
    cl = next(k for k in CLUSTERS if c in k)
    return rng.choice([x for x in cl if x != c])


def _root_names(rng, n):
    """n distinct names; after the first, every further one is with probability 1/2 a string
    prefix/extension of one already chosen."""
    chosen = [rng.randrange(len(NAMES))]
    while len(chosen) < n:
        c = _cluster_mate(rng, rng.choice(chosen)) if rng.random() < 0.5 else rng.randrange(len(NAMES))
        if c not in chosen:
            chosen.append(c)
    return chosen


def gen_init(rng):
    init = []
    for c in _root_names(rng, rng.choice([1, 2, 3, 4])):
        if rng.random() < 0.45:
            init.append(((c,), rng.choice(["", "x", "hello", "pre"])))
        else:
            init.append(((c,), "D"))
            for c2 in (_root_names(rng, k2) if (k2 := rng.choice([0, 0, 1, 2])) else []):
                if rng.random() < 0.6:
                    init.append(((c, c2), rng.choice(["", "one", "two"])))
                else:
                    init.append(((c, c2), "D"))
                    if rng.random() < 0.4:
                        init.append(((c, c2, rng.randrange(len(NAMES))), "deep"))
    return init


def has_links(init) -> bool:
    return any(n != "D" and n.startswith(LINK) for _, n in init)


def gen_init_links(rng):
    """A sandbox tree with 1..3 pre-existing symbolic links: dangling, to a file, to a directory (targets
    are relative and stay inside the sandbox).  Oracle-only: the Coq model is symlink-free."""
    init = gen_init(rng)
    used = {p for p, _ in init}
    dirs = [()] + [p for p, n in init if n == "D"]
    for _ in range(rng.choice([1, 2, 3])):
        d = rng.choice(dirs)
        free = [c for c in range(len(NAMES)) if d + (c,) not in used]
        if not free:
            continue
        q = d + (rng.choice(free),)
        sibs = [(p, n) for p, n in init if len(p) == len(d) + 1 and p[:-1] == d and not n.startswith(LINK)]
        kind = rng.choice(["dangling", "dangling", "file", "dir"])
        if kind == "file" and any(n != "D" for _, n in sibs):
            target = NAMES[rng.choice([p for p, n in sibs if n != "D"])[-1]]
        elif kind == "dir" and any(n == "D" for _, n in sibs):
            target = NAMES[rng.choice([p for p, n in sibs if n == "D"])[-1]]
        else:
            free2 = [c for c in free if d + (c,) != q]
            if not free2:
                continue
            target = NAMES[rng.choice(free2)]  # nothing there: dangling
            if rng.random() < 0.3 and d:
                target = "../" + target
        used.add(q)
        init.append((q, LINK + target))
    return init


class _Guess:
    """What the generator believes to exist (only steers the choice of arguments)."""

    def __init__(self, init):
        self.all = [p for p, _ in init]
        self.files = [p for p, n in init if n != "D"]
        links = [p for p, n in init if n != "D" and n.startswith(LINK)]
        # links are interesting both as files and as directories (and three times as likely to be picked)
        self.files += links * 2
        self.dirs = [()] + [p for p, n in init if n == "D"] + links
        self.new = []

    def some(self, rng, prefer_new=0.5):
        pool = self.new if (self.new and rng.random() < prefer_new) else (self.files + self.dirs[1:] + self.new)
        if not pool or rng.random() < 0.08:
            return self.fresh(rng)
        return rng.choice(pool)

    def fresh(self, rng):
        d = rng.choice(self.dirs + [p for p in self.new])
        if rng.random() < 0.12:
            d = d + (rng.randrange(len(NAMES)),)
        sibs = [p[-1] for p in self.all + self.new if len(p) == len(d) + 1 and p[:-1] == d]
        if sibs and rng.random() < 0.45:
            # a name that is a string prefix / extension of a (believed) sibling
            return (d + (_cluster_mate(rng, rng.choice(sibs)),))[:4]
        return (d + (rng.randrange(len(NAMES)),))[:4]


def gen_ops(rng, init, n):
    g = _Guess(init)
    ops = []
    for _ in range(n):
        c = rng.random()
        if c < 0.26:
            m = rng.choice(["MW", "MW", "MA", "MA", "MX", "MRP", "MR"])
            p = g.some(rng, 0.4) if rng.random() < 0.6 else g.fresh(rng)
            fls = ["open", "open_kw", "io.open", "Path.open"]
            if m != "MR":
                fls.append("os.open")
            if m == "MW":
                fls += ["write_text", "write_bytes"]
            ops.append(("Open", p, m, rng.choice(["", "z", "yy", "new"]), rng.choice(fls)))
            g.new.append(p)
        elif rng.random() < 0.11:
            # os.open with an arbitrary flag set, also modifiers without a write access mode
            p = g.some(rng, 0.35) if rng.random() < 0.7 else g.fresh(rng)
            acc = rng.choice(["ARd", "ARd", "ARd", "AWr", "ARdWr"])
            if rng.random() < 0.1:
                fl = (acc, False, False, False, False, True)
            else:
                fl = (acc, rng.random() < 0.3, rng.random() < 0.25, rng.random() < 0.45, rng.random() < 0.25, False)
            ops.append(("OsOpen", p, fl, rng.choice(["", "z", "yy", "new"]), "os.open.flags"))
            if fl[1]:
                g.new.append(p)
        elif c < 0.30:
            p = g.some(rng, 0.3) if rng.random() < 0.5 else g.fresh(rng)
            ops.append(("Touch", p, "Path.touch"))
            g.new.append(p)
        elif c < 0.40:
            p = g.some(rng, 0.3) if rng.random() < 0.35 else g.fresh(rng)
            fl = rng.choice(["os.mkdir", "Path.mkdir"])
            ops.append(("Mkdir", p, fl == "Path.mkdir" and rng.random() < 0.6, fl))
            g.new.append(p)
            g.dirs.append(p)
        elif c < 0.50:
            p = g.some(rng, 0.3) if rng.random() < 0.4 else g.fresh(rng)
            if rng.random() < 0.4:
                p = (p + (rng.randrange(len(NAMES)),))[:4]
            ops.append(("Makedirs", p, rng.random() < 0.6, rng.choice(["os.makedirs", "Path.mkdir"])))
            g.new.append(p)
            g.dirs.append(p)
        elif c < 0.64:
            s = g.some(rng, 0.85)
            d = g.some(rng, 0.4) if rng.random() < 0.5 else g.fresh(rng)
            if rng.random() < 0.04:
                d = s
            ops.append(("Rename", s, d, rng.choice(["os.rename", "os.replace", "Path.rename", "Path.replace", "os.rename.kw", "os.replace.kw"])))
            g.new.append(d)
        elif c < 0.70:
            s = g.some(rng, 0.4)
            d = g.some(rng, 0.4) if rng.random() < 0.5 else g.fresh(rng)
            ops.append(("CopyFile", s, d, rng.choice(["copyfile", "copyfile", "copyfile.kw"])))
            g.new.append(d)
        elif c < 0.78:
            s = g.some(rng, 0.4)
            d = g.some(rng, 0.3) if rng.random() < 0.6 else g.fresh(rng)
            ops.append(("Copy", s, d, rng.choice(["copy", "copy2"])))
            g.new.append(d)
        elif c < 0.87:
            s = g.some(rng, 0.85)
            d = g.some(rng, 0.3) if rng.random() < 0.6 else g.fresh(rng)
            if rng.random() < 0.04:
                d = s
            ops.append(("Move", s, d, rng.choice(["move", "move", "move.kw"])))
            g.new.append(d)
        elif c < 0.92:
            ops.append(("Remove", g.some(rng, 0.8), rng.choice(["os.remove", "os.unlink", "Path.unlink"])))
        elif c < 0.96:
            ops.append(("Rmdir", g.some(rng, 0.8), rng.choice(["os.rmdir", "Path.rmdir"])))
        else:
            ops.append(("Rmtree", g.some(rng, 0.8), "rmtree"))
    return ops


def n_paths(op) -> int:
    return 2 if op[0] in ("Rename", "CopyFile", "Copy", "Move") else 1


def gen_spell(rng, ops):
    out = []
    for op in ops:
        specs = []
        for _ in range(n_paths(op)):
            if rng.random() < 0.5:
                specs.append(("plain", 0))
                continue
            kinds = ["dot", "slashes", "dd", "dd", "ddc", "ddc", "ddc", "ddt", "rel", "rel"]
            if op[0] in TRAIL_OK:
                kinds.append("trail")
            specs.append((rng.choice(kinds), rng.randrange(1000)))
        out.append(specs)
    return out


def op_kind(op) -> str:
    k = op[0]
    if k == "Open":
        return f"Open.{op[2]}"
    if k == "OsOpen":
        acc, creat, excl, trunc, append, tmpfile = op[2]
        return "OsOpen." + acc[1:] + ("".join(ch for ch, b in zip("CXTAM", (creat, excl, trunc, append, tmpfile)) if b) or "-")
    if k in ("Mkdir", "Makedirs"):
        return k + (".eo" if op[2] else "")
    return k


# ------------------------------------------------------------------------------------------------
# S: the property itself, on the real filesystem
def oracle(rec):
    """None, or (class, message): compares the sandbox before entering and after leaving."""
    before, after = dict(rec["before"]), dict(rec["after"])
    for p, n in before.items():
        if p not in after:
            return ("deleted", f"pre-existing path {p} ({'dir' if n == 'D' else 'file'}) is gone after the isolation exited")
        if after[p] != n:
            return ("modified", f"pre-existing path {p} changed from {n!r} to {after[p]!r}")
    for p in after:
        if p not in before:
            return ("leftover", f"path {p} created during the execution still exists after the isolation exited")
    if rec["stray"]:
        return ("stray-record", f"_created holds paths outside the sandbox: {rec['stray'][:3]}")
    return None
