"""C07 helpers: instrument a generated module with the real InstrumentationTransformer under a
coverage-exclusion configuration, dump pruned CDGs / predicate registry / the real
_BranchFitnessGraph, and drive the real _GoalsManager.update with stub archives."""
from __future__ import annotations

import re
from types import SimpleNamespace

from props import _c06_extract as X

HEADER = re.compile(r"^\s*(if |elif |else:|while |for |try:|except|finally:|with |def |class |match |case )")


def add_exclusions(rng, src):
    """Random '# pragma: no cover' / '# pynguin: no cover' markers on compound-statement headers,
    plus an only_cover / no_cover name list.  Returns (src, to_cover kwargs, description)."""
    lines = src.split("\n")
    heads = [i for i, ln in enumerate(lines) if HEADER.match(ln)]
    mode = rng.choice(["none", "pragma", "pragma", "pragma", "names", "both", "early-return", "early-return"])
    marked = []
    if mode == "early-return":
        # exclude early returns / raises (an `if` whose body starts with return/raise), in particular in front of loops
        early = [i for i in heads if lines[i].lstrip().startswith("if ") and i + 1 < len(lines)
                 and lines[i + 1].lstrip().startswith(("return", "raise"))]
        for i in early:
            if rng.random() < 0.7:
                lines[i] += rng.choice(["  # pynguin: no cover", "  # pragma: no cover"])
                marked.append(i + 1)
    if mode in ("pragma", "both") and heads:
        for i in rng.sample(heads, min(len(heads), rng.choice([1, 1, 2, 3, 5]))):
            lines[i] += rng.choice(["  # pragma: no cover", "  # pynguin: no cover"])
            marked.append(i + 1)
    kw = {}
    names = re.findall(r"^def (\w+)", src, re.M) + [f"K.{m}" for m in re.findall(r"^    def (meth\w+)", src, re.M)]
    if mode in ("names", "both") and names:
        pick = rng.sample(names, min(len(names), rng.choice([1, 1, 2])))
        if rng.random() < 0.5:
            kw["only_cover"] = pick
        else:
            kw["no_cover"] = pick
    return "\n".join(lines), kw, {"mode": mode, "marked_lines": marked, **kw}


def instrument(src, path, to_cover_kw):
    """Real instrumentation (branch coverage adapter only).  Returns (SubjectProperties, captured)
    where captured maps id(covered cdg) -> (unpruned CDG triples, removed nodes in removal order)."""
    import pynguin.configuration as config
    from pynguin.instrumentation import controlflow as cf
    from pynguin.instrumentation import tracer
    from pynguin.instrumentation.transformer import InstrumentationTransformer
    from pynguin.instrumentation.version import BranchCoverageInstrumentation

    with open(path, "w") as fh:
        fh.write(src)
    captured = {}
    orig = InstrumentationTransformer._create_covered_cdg  # noqa: SLF001

    def wrapped(self, cfg, ast_info):
        unpruned = cf.ControlDependenceGraph.compute(cfg)
        res = orig(self, cfg, ast_info)
        removed = [X.ident(n) for n in tuple(unpruned.graph) if n not in res.graph]
        captured[id(res)] = (X.graph_triples(unpruned.graph), removed)
        return res

    sp = tracer.SubjectProperties()
    tr = InstrumentationTransformer(sp, [BranchCoverageInstrumentation(sp)], config.ToCoverConfiguration(**to_cover_kw))
    InstrumentationTransformer._create_covered_cdg = wrapped  # noqa: SLF001
    try:
        tr.instrument_code(compile(src, str(path), "exec"), "genmod")
    finally:
        InstrumentationTransformer._create_covered_cdg = orig  # noqa: SLF001
    return sp, captured


def dump_module(sp, captured=None):
    """Pruned CDGs, registry, goals, and the real goal graph (or the exception it raises)."""
    import pynguin.ga.coveragegoals as bg
    from pynguin.ga.algorithms.dynamosaalgorithm import _BranchFitnessGraph

    cos = []
    for coid, meta in sorted(sp.existing_code_objects.items()):
        cdg = meta.cdg
        cos.append({
            "id": coid,
            "cdg": X.graph_triples(cdg.graph),
            "cdg_nodes": sorted(X.ident(n) for n in cdg.graph.nodes),
            "cfg_nodes": sorted(X.ident(n) for n in meta.cfg.graph.nodes),
            "cfg_edges": X.graph_triples(meta.cfg.graph),
            "preds": sorted((X.ident(m.node), pid) for pid, m in sp.existing_predicates.items() if m.code_object_id == coid),
            "unpruned": (captured or {}).get(id(cdg), (None, None))[0],
            "removed": (captured or {}).get(id(cdg), (None, None))[1],
        })
    pool = bg.BranchGoalPool(sp)
    ffs = bg.create_branch_coverage_fitness_functions(SimpleNamespace(subject_properties=sp), pool)
    goals, index = [], {}
    for k, f in enumerate(ffs):
        g = f.goal
        if g.is_branchless_code_object:
            goals.append(("L", g.code_object_id))
        else:
            goals.append(("B", g.code_object_id, g.predicate_id, bool(g.value)))
        index[f] = k
    out = {"cos": cos, "goals": goals}
    try:
        graph = _BranchFitnessGraph(ffs, sp)
    except Exception as e:  # noqa: BLE001
        out["error"] = type(e).__name__
        out["error_msg"] = str(e)[:200]
        return out, None, ffs
    out["edges"] = sorted((index[a], index[b]) for a, b in graph._graph.edges)  # noqa: SLF001
    out["roots"] = sorted(index[f] for f in graph.root_branches)
    return out, graph, ffs


class StubSolution:
    """Stands in for a TestCaseChromosome: covers a fixed set of goals (by index)."""

    def __init__(self, index, covers):
        self.index, self.covers = index, set(covers)

    def get_is_covered(self, fitness):
        return self.index[fitness] in self.covers

    def get_last_execution_result(self):
        return None

    def size(self):
        return 1


def drive_manager(sp, ffs, truths):
    """Run the real _GoalsManager with the real CoverageArchive over a history of solution sets
    (each given as the set of goal indices its solutions cover).
    Returns [(current, covered)] after construction and after each update."""
    from pynguin.ga.algorithms.archive import CoverageArchive
    from pynguin.ga.algorithms.dynamosaalgorithm import _GoalsManager
    from pynguin.utils.orderedset import OrderedSet

    index = {f: k for k, f in enumerate(ffs)}
    arch = CoverageArchive(OrderedSet())
    gm = _GoalsManager(ffs, arch, sp)
    snap = lambda: (sorted(index[g] for g in gm.current_goals), sorted(index[g] for g in arch.covered_goals))  # noqa: E731
    hist = [snap()]
    for t in truths:
        gm.update([StubSolution(index, t)])
        hist.append(snap())
    return hist


def drain(sp, ffs, rng, limit=10000):
    """Simulated search: repeatedly cover a random non-empty subset of the current goals.
    Returns the goals never covered (must be empty) and the number of updates."""
    from pynguin.ga.algorithms.archive import CoverageArchive
    from pynguin.ga.algorithms.dynamosaalgorithm import _GoalsManager
    from pynguin.utils.orderedset import OrderedSet

    index = {f: k for k, f in enumerate(ffs)}
    arch = CoverageArchive(OrderedSet())
    gm = _GoalsManager(ffs, arch, sp)
    steps = 0
    while gm.current_goals and steps < limit:
        cur = sorted(index[g] for g in gm.current_goals)
        pick = rng.sample(cur, rng.randint(1, len(cur)))
        gm.update([StubSolution(index, pick)])
        steps += 1
    covered = {index[g] for g in arch.covered_goals}
    return sorted(set(range(len(ffs))) - covered), steps
