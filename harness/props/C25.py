"""C25 — subtyping is a preorder consistent with the class hierarchy.

T  static proofs (Properties/C25.v).
K  K1b/K2: for every generated module the real test cluster's inheritance graph (ancestor-closed part
   around the classes used) is shipped to Coq together with the real TypeSystem's answers to
   is_subclass / get_shortest_path_length / is_subtype / is_maybe_subtype / subtype_distance on random
   proper types; the model must reproduce every answer and the decidable premises of the theorems
   (closure certificate, convexity of the hard-coded generics) must hold on the real graph.
S  law checking directly on the TypeSystem (independent of the model)."""
from __future__ import annotations

import concurrent.futures as cf
import json
import multiprocessing as mp
import random

import vlib
from vlib import cbool, clist, cpair, cN

from props import _c25_common as cm
from props._c25_common import ANY_T, NONE_T, t_inst, t_tuple, t_union

SRC = ["src/pynguin/analyses/typesystem.py"]
TOWER = ["bool", "int", "float", "complex"]


# ------------------------------------------------------------------------------------------------
def expected_subclass(cl: cm.Cluster):
    """Python's issubclass on the analysed classes, closed with the numeric tower edges."""
    names = [n for n in cl.universe]
    rel = {(a, b): issubclass(cl.raw[a], cl.raw[b]) for a in names for b in names}
    for lo, hi in zip(TOWER, TOWER[1:]):
        rel[(lo, hi)] = True
    for k in names:
        for a in names:
            if rel[(a, k)]:
                for b in names:
                    if rel[(k, b)]:
                        rel[(a, b)] = True
    return rel


def classify_refl(t):
    if cm.t_contains(t, "any"):
        return "any"
    if cm.t_contains(t, "none"):
        return "none"
    if not cm.refl_ok(t):
        return "union-no-instance"
    return "other"


class Oracle:
    """Direct statement of the property on the implementation."""

    def __init__(self, cl: cm.Cluster):
        self.cl = cl
        self.memo = {}

    def q(self, kind, a, b):
        key = (kind, a, b)
        if key not in self.memo:
            ts = self.cl.ts
            ra, rb = self.cl.to_real(a), self.cl.to_real(b)
            if kind == "sub":
                v = ts.is_subtype(ra, rb)
            elif kind == "maybe":
                v = ts.is_maybe_subtype(ra, rb)
            else:
                v = ts.subtype_distance(ra, rb)
                assert v is None or (isinstance(v, int) and v >= 0), v
            self.memo[key] = v
        return self.memo[key]

    # each law returns None or (signature, message)
    def refl(self, t):
        if not self.q("sub", t, t):
            return ("refl", f"is_subtype({cm.t_str(t)}, itself) is False")
        return None

    def any_top(self, t):
        if not self.q("sub", t, ANY_T):
            return ("any-top", f"is_subtype({cm.t_str(t)}, Any) is False")
        return None

    def trans(self, l, m, r):
        if self.q("sub", l, m) and self.q("sub", m, r) and not self.q("sub", l, r):
            kind = "via-any" if cm.t_contains(m, "any") else "anyfree"
            return (f"trans:{kind}", f"{cm.t_str(l)} <: {cm.t_str(m)} <: {cm.t_str(r)} but not {cm.t_str(l)} <: {cm.t_str(r)}")
        return None

    def union_rule(self, u, r):
        if u[0] != "union":
            return None
        lhs = self.q("sub", u, r)
        rhs = all(self.q("sub", x, r) for x in u[1])
        if lhs != rhs:
            return ("union-rule", f"is_subtype({cm.t_str(u)}, {cm.t_str(r)}) = {lhs} but all members: {rhs}")
        return None

    def dist_sound(self, t, s):
        d = self.q("dist", t, s)
        if d is not None and not self.q("maybe", s, t):
            kind = "generic-invariance" if cm.invariance_only(self.cl, s, t) else "other"
            return (f"distance-sound:{kind}",
                    f"subtype_distance({cm.t_str(t)}, {cm.t_str(s)}) = {d} but is_maybe_subtype({cm.t_str(s)}, {cm.t_str(t)}) is False")
        return None

    def dist_refl(self, t):
        d = self.q("dist", t, t)
        if d != 0:
            return (f"distance-refl:{classify_refl(t)}", f"subtype_distance({cm.t_str(t)}, itself) = {d}, not 0")
        return None


def narrow(rng, t, inside=False):
    """Replace one union strictly inside t by one of its members; None if t has no inner union."""
    k = t[0]
    if k == "union":
        if inside and t[1]:
            return rng.choice(t[1])
        items = list(t[1])
        for i in rng.sample(range(len(items)), len(items)):
            n = narrow(rng, items[i], False)
            if n is not None:
                return ("union", tuple(items[:i] + [n] + items[i + 1:]))
        return None
    if k in ("inst", "tuple"):
        items = list(t[2] if k == "inst" else t[1])
        for i in rng.sample(range(len(items)), len(items)):
            n = narrow(rng, items[i], True)
            if n is not None:
                new = items[:i] + [n] + items[i + 1:]
                return t_inst(t[1], new) if k == "inst" else t_tuple(new)
    return None


LAWS = {"refl": 1, "any_top": 1, "trans": 3, "union_rule": 2, "dist_sound": 2, "dist_refl": 1}


def sub_terms(t):
    if t[0] == "inst":
        return list(t[2])
    if t[0] in ("tuple", "union"):
        return list(t[1])
    return []


def shrink_candidates(cl, t):
    """Smaller well-formed variants of a type."""
    out = list(sub_terms(t))
    k = t[0]
    if k in ("tuple", "union"):
        items = list(t[1])
        for i in range(len(items)):
            rest = items[:i] + items[i + 1:]
            if rest or k == "tuple":
                out.append((k, tuple(rest)))
            for c in shrink_candidates(cl, items[i]):
                out.append((k, tuple(items[:i] + [c] + items[i + 1:])))
    elif k == "inst":
        items = list(t[2])
        if items and cl.hg_of(t[1]) is None:
            out.append(t_inst(t[1], ()))
        for i in range(len(items)):
            for c in shrink_candidates(cl, items[i]):
                out.append(t_inst(t[1], items[:i] + [c] + items[i + 1:]))
    return [c for c in out if cl.wf(c)]


def shrink(cl, orc, law, types, sig):
    types = list(types)
    changed = True
    budget = 400
    while changed and budget > 0:
        changed = False
        for i in range(len(types)):
            for c in shrink_candidates(cl, types[i]):
                budget -= 1
                cand = types[:i] + [c] + types[i + 1:]
                if law in ("refl", "any_top", "dist_refl"):
                    pass
                try:
                    r = getattr(orc, law)(*cand)
                except Exception:  # noqa: BLE001
                    r = None
                if r is not None and r[0] == sig:
                    types, changed = cand, True
                    break
            if changed:
                break
    return types


# ------------------------------------------------------------------------------------------------
def work(arg):
    """One generated module: real cluster, queries, oracle.  Runs in a worker process."""
    seed, idx, scratch, n_pool, entry = arg
    vlib.setup_impl_path()
    from pathlib import Path

    rng = random.Random(seed)
    if entry is not None:
        src, class_names = entry["src"], entry["classes"]
    else:
        src, class_names = cm.gen_module_source(rng)
    modname = f"c25m_{seed % 10**9}_{idx}"
    try:
        cl = cm.Cluster(Path(scratch), modname, src, class_names)
    except Exception as e:  # noqa: BLE001  module analysis itself is not this property's subject
        if entry is not None:
            raise
        return {"skipped": f"{type(e).__name__}: {e}"[:300], "src": src}
    try:
        return _work(rng, cl, src, class_names, n_pool, entry)
    finally:
        cl.close()


def _work(rng, cl, src, class_names, n_pool, entry):
    orc = Oracle(cl)
    stats = {}

    def count(k, n=1):
        stats[k] = stats.get(k, 0) + n

    fails = []
    pairs, triples = [], []
    if entry is not None:
        for chk in entry.get("pairs", []):
            pairs.append((cm.t_from_json(chk[0]), cm.t_from_json(chk[1])))
        for chk in entry.get("triples", []):
            triples.append(tuple(cm.t_from_json(x) for x in chk))
    pool = [cm.gen_type(rng, cl, 0, rng.choice([1, 2, 3, 3])) for _ in range(n_pool)]
    pool.append(t_tuple([t_union([cm.gen_type(rng, cl, 2, 3), cm.gen_type(rng, cl, 2, 3)]), cm.gen_type(rng, cl, 2, 3)]))
    some = rng.choice([n for n in cl.universe if cl.hg_of(n) is None])
    pool.append(t_inst("list", [t_union([t_inst(some), t_inst("int")])]))
    pool = [t for t in pool if cl.wf(t)]
    for t in pool:
        pairs.append((t, t))
        m = cm.mutate_type(rng, cl, t)
        pairs.append((t, m))
        pairs.append((m, t))
        r = cm.mutate_type(rng, cl, m)
        triples.append((t, m, r))
        triples.append((r, m, t))
        if rng.random() < 0.5:
            triples.append((t, cm.mutate_type(rng, cl, t), cm.mutate_type(rng, cl, t)))
    for t in list(pool):
        # a stricter variant (an inner union narrowed to one member) wrapped in a union as middle type:
        # t <: (narrow(t) | ..) must not hold just because t MAY be a narrow(t)
        nt = narrow(rng, t)
        if nt is not None:
            mids = [t_union([nt]), t_union([nt, cm.gen_type(rng, cl, 1, 2)])]
            for m in mids:
                triples.append((t, m, nt))
            pairs.append((t, nt))
    for _ in range(n_pool // 2):
        pairs.append((rng.choice(pool), rng.choice(pool)))
    for l, m, r in triples:
        pairs += [(l, m), (m, r), (l, r)]
    assert all(cl.wf(a) and cl.wf(b) for a, b in pairs)

    def report(law, types):
        res = getattr(orc, law)(*types)
        if res is None:
            return
        sig, msg = res
        small = shrink(cl, orc, law, types, sig)
        sig2, msg2 = getattr(orc, law)(*small)
        fails.append({"signature": sig2, "what": msg2,
                      "replay": {"law": law, "types": [cm.t_to_json(t) for t in small], "src": src, "classes": class_names}})

    seen_sig = set()

    def check(law, types):
        res = getattr(orc, law)(*types)
        if res is not None and res[0] not in seen_sig:
            seen_sig.add(res[0])
            report(law, list(types))
        elif res is not None:
            count("oracle-repeat:" + res[0])

    singles = []
    for a, b in pairs:
        for t in (a, b):
            if t not in singles:
                singles.append(t)
    for t in singles:
        check("refl", (t,))
        check("any_top", (t,))
        check("dist_refl", (t,))
        count("type:" + t[0])
        count(f"depth:{cm.t_depth(t)}")
    for a, b in pairs:
        check("dist_sound", (a, b))
        check("dist_sound", (b, a))
        check("union_rule", (a, b))
        check("union_rule", (b, a))
    for tr in triples:
        check("trans", tr)
        l, m, r = tr
        if orc.q("sub", l, m) and orc.q("sub", m, r):
            count("trans-premises-hold" + (":anyfree-middle" if not cm.t_contains(m, "any") else ":any-middle"))
    # class level: issubclass agreement (S) and class queries for K
    exp = expected_subclass(cl)
    cq = []
    for a in cl.universe:
        for b in cl.universe:
            got = cl.ts.is_subclass(cl.info[a], cl.info[b])
            cq.append((a, b, got, cl.ts.get_shortest_path_length(cl.info[b], cl.info[a])))
            if got != exp[(a, b)] and "subclass" not in seen_sig:
                seen_sig.add("subclass")
                fails.append({"signature": "subclass:" + ("missing" if exp[(a, b)] else "spurious"),
                              "what": f"is_subclass({a}, {b}) = {got}, issubclass (+ numeric tower) says {exp[(a, b)]}",
                              "replay": {"law": "subclass", "classes_pair": [a, b], "src": src, "classes": class_names}})
    count("class-pairs", len(cq))
    # the same hierarchy built incrementally (classes registered first, queried while isolated, edges in
    # random / leaf-last order) must end up answering like Python's issubclass and like a fresh TypeSystem
    from props._c25_history import plan_to_json, rebuild_plan, run_history, shrink_history

    for _ in range(2 if entry is None else 1):
        rnames, rp = rebuild_plan(rng, cl)
        bare = cm.Cluster.bare_from(cl, rnames)
        hops, _, hfails, _ = run_history(None, bare, None, 0, preset=rp)
        count("incremental:edges", sum(1 for o in hops if o[0] == "AddEdge"))
        count("incremental:queries", sum(1 for o in hops if o[0] == "Query"))
        for sig, what, q in hfails:
            sig = "incremental:" + sig
            if sig in seen_sig:
                count("oracle-repeat:" + sig)
                continue
            seen_sig.add(sig)
            small = shrink_history(lambda: cm.Cluster.bare_from(cl, rnames), rp, sig[len("incremental:"):])
            fails.append({"signature": sig, "what": what,
                          "replay": {"law": "incremental", "history": plan_to_json(small), "src": src, "classes": class_names}})
        for a in cl.universe:
            for b in cl.universe:
                got = bare.ts.is_subclass(bare.info[a], bare.info[b])
                if got != exp[(a, b)] and "incremental:subclass" not in seen_sig:
                    seen_sig.add("incremental:subclass")
                    fails.append({"signature": "incremental:subclass:" + ("missing" if exp[(a, b)] else "spurious"),
                                  "what": f"after building the hierarchy edge by edge with queries in between: is_subclass({a}, {b}) = {got}, "
                                          f"issubclass (+ numeric tower) says {exp[(a, b)]}",
                                  "replay": {"law": "incremental", "history": plan_to_json(rp), "src": src, "classes": class_names}})
    # stateful sequences: other public queries (get_type_outside_of, get_subclasses, get_superclasses, find_by_attribute,
    # to_type_info, ...) interleaved with subsumption queries on a fresh system with the complete graph
    from props._c25_history import gen_stateful_plan, run_stateful, shrink_splan, splan_from_json, splan_to_json

    set_results = []
    plans = [splan_from_json(entry["stateful"])] if entry is not None and "stateful" in entry else \
        [gen_stateful_plan(rng, cl, pool, 30) for _ in range(2 if entry is None else 0)]
    for sp in plans:
        sfails, sets = run_stateful(cl, sp, exp)
        set_results += sets
        count("stateful:ops", len(sp))
        for k in sp:
            count("stateful-op:" + k[0])
        for sig, what in sfails:
            if sig in seen_sig:
                count("oracle-repeat:" + sig)
                continue
            seen_sig.add(sig)
            small = shrink_splan(cl, sp, exp, sig)
            what2 = next((w for s2, w in run_stateful(cl, small, exp)[0] if s2 == sig), what)
            fails.append({"signature": sig, "what": what2,
                          "replay": {"law": "stateful", "plan": splan_to_json(small), "src": src, "classes": class_names}})
    # --- the case for Coq -----------------------------------------------------------------
    used = set(cl.universe)
    for a, b in pairs:
        cm.t_classes(a, used)
        cm.t_classes(b, used)
    names, edges, hgs = cl.graph_for(used)
    num = cm.Numbering(names)
    qs = []
    for a, b, got, plen in cq:
        qs.append(f"C25.QSubclass {num.cls(a)} {num.cls(b)} {cbool(got)}")
        qs.append(f"C25.QPath {num.cls(b)} {num.cls(a)} {cm.c_optN(plen)}")
    univ_c = clist(num.cls(n) for n in cl.universe)
    for kind, arg, res in set_results:
        res_c = clist(num.cls(n) for n in res)
        if kind == "outside":
            qs.append(f"C25.QOutside {univ_c} {clist(num.cls(n) for n in arg)} {res_c}")
        elif kind == "subclasses":
            qs.append(f"C25.QSubclasses {univ_c} {num.cls(arg)} {res_c}")
        else:
            qs.append(f"C25.QSuperclasses {univ_c} {num.cls(arg)} {res_c}")
    done = set()
    for a, b in pairs:
        for x, y in ((a, b), (b, a)):
            if (x, y) in done:
                continue
            done.add((x, y))
            tx, ty = num.ty(x), num.ty(y)
            sv, mv, dv = orc.q("sub", x, y), orc.q("maybe", x, y), orc.q("dist", x, y)
            qs.append(f"C25.QSub {tx} {ty} {cbool(sv)}")
            qs.append(f"C25.QMaybe {tx} {ty} {cbool(mv)}")
            qs.append(f"C25.QDist {tx} {ty} {cm.c_optN(dv)}")
            count("ans:sub:" + str(sv))
            count("ans:maybe:" + str(mv))
            count("ans:dist:" + ("None" if dv is None else "0" if dv == 0 else "pos"))
    case = cpair(num.graph(names, edges, hgs), cN(cm.any_distance()), clist(qs))
    count("graph-nodes", len(names))
    count("graph-edges", len(edges))
    count("type-queries", 3 * len(done))
    sample = {"module_classes": class_names, "graph_nodes": names, "edges": edges[:12],
              "queries": [[cm.t_str(a), cm.t_str(b), repr(orc.q("sub", a, b)), repr(orc.q("maybe", a, b)),
                           repr(orc.q("dist", a, b))] for a, b in pairs[3:9]]}
    canon = (tuple(edges), tuple(sorted(done)))
    return {"case": case, "fails": fails, "stats": stats, "sample": sample, "canon": repr(canon),
            "n_queries": len(qs), "src": src, "classes": class_names,
            "pairs": [(cm.t_to_json(a), cm.t_to_json(b)) for a, b in list(done)[:400]]}


# ------------------------------------------------------------------------------------------------
def run(ctx: vlib.Ctx):
    vlib.setup_impl_path()
    ctx.digest_sources(SRC)
    ctx.coq_static()
    ctx.log("static development built and audited")
    if not ctx.quick:
        ctx.coqchk()
    scratch = ctx.mkscratch()
    corpus = json.loads((vlib.VERIF / "corpus" / "C25.json").read_text())
    n_mod = 24 if ctx.quick else 240
    n_pool = 10 if ctx.quick else 14
    items = [(ctx.rng.randrange(2**31), i, str(scratch), 6, e) for i, e in enumerate(corpus)]
    items += [(ctx.rng.randrange(2**31), len(corpus) + i, str(scratch), n_pool, None) for i in range(n_mod)]
    with cf.ProcessPoolExecutor(max_workers=12, mp_context=mp.get_context("fork")) as ex:
        results = list(ex.map(work, items, chunksize=2))
    skipped = [r for r in results if "skipped" in r]
    results = [r for r in results if "skipped" not in r]
    ctx.log(f"{len(results)} modules analysed by the implementation, oracle done")
    ctx.count("modules-not-analysable", len(skipped))
    if skipped:
        ctx.notes.append({"modules the implementation could not analyse (left out)": [k["skipped"] for k in skipped[:5]]})
    if len(skipped) * 5 > len(items):
        ctx.broken("harness:clusters", "generate_test_cluster fails on more than 20% of the generated modules",
                   {"errors": [k["skipped"] for k in skipped[:5]], "module": skipped[0]["src"]})
    cases = []
    n_or = 0
    for res in results:
        cases.append(res["case"])
        ctx.case_seen(res["canon"], nontrivial=res["n_queries"] > 0)
        for k, v in res["stats"].items():
            ctx.count(k, v)
        for f in res["fails"]:
            n_or += 1
            ctx.fail(f["signature"], f["what"], f["replay"])
    ctx.sample(results[min(len(corpus), len(results) - 1)]["sample"])
    ctx.sample(results[-1]["sample"])
    ctx.cov["evaluations"] = sum(r["n_queries"] for r in results)
    ctx.cov["rule"] = ("one case = one generated module (2-8 classes: plain/diamond/Generic/ABC/Enum/builtin bases) analysed by the "
                       "real generate_test_cluster, with the real TypeSystem's answers to is_subclass and shortest path for all "
                       "class pairs of the universe and is_subtype/is_maybe_subtype/subtype_distance for random well-formed "
                       "proper types (depth <= 4, nested unions, tuples, generics, None, Any) and related mutants; evaluations = "
                       "single answers compared with the model; distinct = distinct (edge list, query set)")
    ctx.leg("S", oracle_failures=n_or, modules=len(results))
    bad = ctx.run_cases("C25_cases", "From Verif Require Import Models.C25.", "C25.case", "C25.check_case", cases, shard=8)
    if bad is None:
        pass
    elif bad:
        ctx.leg("K2", ok=False, mismatches=len(bad))
        unknown = [f for f in ctx.failures if f.kind == "input" and vlib.match_finding(vlib.load_findings("C25"), f.signature) is None]
        if not unknown:
            res = results[bad[0]]
            detail = locate(ctx, res)
            ctx.broken("correspondence:C25-model-vs-typesystem",
                       "the type-system model (about which the theorems are proved) no longer reproduces TypeSystem's answers "
                       "or a premise of the theorems fails on the real inheritance graph",
                       {"module": res["src"], "first_mismatching_queries": detail, "mismatching_modules": len(bad)})
    else:
        ctx.leg("K2", ok=True, modules=len(cases))
    ctx.assumptions += [
        "classes are identified with their TypeInfo (full name); only the ancestor-closed part of the inheritance graph around "
        "the classes used in a case is shipped to the model (every path between used classes lies inside it)",
        "proper types are well formed: list/set/dict instances carry exactly their hard-coded number of arguments "
        "(as _fixup_known_generics guarantees), unions are non-empty; Unsupported/StringSubtype types are outside the model",
        "every class of a query is a node of the graph (TypeInfo obtained from to_type_info)",
    ]
    ctx.cov["trusted_base"] += ["hand-written model Models/C25.v tied by answer-for-answer correspondence (this run)",
                                "harness/props/C25.py, _c25_common.py (module generator, abstraction of TypeInfo/ProperType, law oracle)",
                                "networkx (has_path, shortest_path_length) as used by TypeSystem"]


def locate(ctx, res):
    """Which queries of a mismatching case disagree (evaluated in Coq one by one)."""
    out = ctx.coq_eval("From Verif Require Import Models.C25.",
                       "let '(g, d, qs) := (%s : C25.case) in (C25.premises g, Verif.Base.Corr.Corr.mismatches (C25.check_query g d) qs 0)" % res["case"])
    return out[:1500]


def replay(ctx, path):
    vlib.setup_impl_path()
    d = json.loads(open(path).read())
    rp = d.get("replay") or {}
    if "law" not in rp:
        print(json.dumps(d, indent=1)[:3000])
        return 0
    from pathlib import Path

    cl = cm.Cluster(Path(ctx.mkscratch()), "c25_replay", rp["src"], rp["classes"])
    orc = Oracle(cl)
    if rp["law"] == "stateful":
        from props._c25_history import run_stateful, splan_from_json

        plan = splan_from_json(rp["plan"])
        fails, sets = run_stateful(cl, plan, expected_subclass(cl))
        print("plan:", plan)
        print("set-valued answers:", sets)
        print("oracle:", fails)
        return 0
    if rp["law"] == "incremental":
        from props._c25_history import plan_from_json, run_history

        names, _, _ = cl.graph_for(set(cl.universe))
        bare = cm.Cluster.bare_from(cl, names)
        ops, answers, fails, _ = run_history(None, bare, None, 0, preset=plan_from_json(rp["history"]))
        for o, a in zip(ops, answers):
            print(o, "->", a)
        print("oracle:", [(f[0], f[1]) for f in fails])
        return 0
    if rp["law"] == "subclass":
        a, b = rp["classes_pair"]
        print("is_subclass", a, b, cl.ts.is_subclass(cl.info[a], cl.info[b]), "expected", expected_subclass(cl)[(a, b)])
        return 0
    types = [cm.t_from_json(t) for t in rp["types"]]
    print("types:", [cm.t_str(t) for t in types])
    print("oracle:", getattr(orc, rp["law"])(*types))
    for a in types:
        for b in types:
            print(f"  {cm.t_str(a)} vs {cm.t_str(b)}: is_subtype={orc.q('sub', a, b)} is_maybe_subtype={orc.q('maybe', a, b)} "
                  f"subtype_distance={orc.q('dist', a, b)}")
    return 0
