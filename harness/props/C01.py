"""C01 — instrumentation does not change the behaviour of the module under test.

T   static theorems (Properties/C01.v) + one regenerated lemma per snippet the real 3.12 generator
    emitted on this run (`snippet_ok`, for all stacks), compiled with ctx.coq_dyn.
K1b snippets harvested by wrapping the generator while the real adapters instrument the corpus
    under all 8 metric subsets (+ seeding), plus a systematic enumeration of the generator.
K2  (a) the opcode semantics of the stack machine against CPython: every snippet shape is assembled
    between sentinel pushes and executed; final stack and call arguments must equal `exec`;
    (b) BasicBlockNode.before/after/override against `pos_z` on real raw blocks.
S   differential execution plain vs instrumented (value, exception type, stdout, dunder calls,
    iterator remainder, argument/global state) for every metric subset, in forked children.
"""
from __future__ import annotations

import concurrent.futures as cf
import json
import os

import vlib
from vlib import cN, cZ, cbool, clist, cnat, copt, cpair

from props import _c01_gen as G
from props import _c01_impl as I

SRC = ["src/pynguin/instrumentation/transformer.py", "src/pynguin/instrumentation/version/python3_10.py",
       "src/pynguin/instrumentation/version/python3_11.py", "src/pynguin/instrumentation/version/python3_12.py",
       "src/pynguin/instrumentation/version/common.py", "src/pynguin/instrumentation/controlflow.py",
       "src/pynguin/instrumentation/tracer.py", "src/pynguin/instrumentation/machinery.py",
       "src/pynguin/analyses/constants.py"]

NEED = {"NO_ACTION": 0, "COPY_FIRST": 1, "COPY_FIRST_SHIFT_DOWN_TWO": 2, "COPY_SECOND": 2,
        "COPY_SECOND_SHIFT_DOWN_TWO": 2, "COPY_FIRST_TWO": 2, "ADD_FIRST_TWO": 2, "ADD_FIRST_TWO_REVERSED": 2,
        "COPY_SECOND_SHIFT_DOWN_THREE": 3, "COPY_THIRD_SHIFT_DOWN_THREE": 3, "COPY_THIRD_SHIFT_DOWN_FOUR": 4}


# ---------------------------------------------------------------------------------------------
# Coq printers for snippet shapes
def c_instr(i):
    n = i[0]
    if n in ("COPY", "SWAP", "CALL"):
        return f"C01.{n} {cnat(i[1])}"
    if n == "LOAD_CONST":
        return f"C01.LOAD_CONST {cN(i[1])}"
    if n in ("POP_TOP", "LOAD_METHOD", "LOAD_LOCALS", "LOAD_FROM_DICT_OR_DEREF"):
        return f"C01.{n}"
    if n in ("LOAD_FAST", "LOAD_FAST_CHECK", "LOAD_NAME", "LOAD_GLOBAL", "LOAD_DEREF"):
        return "C01.LOAD_VAR"
    if n == "BUILD_TUPLE":
        if i[1] != 2:
            raise ValueError("BUILD_TUPLE with an operand other than 2")
        return "C01.BUILD_TUPLE2"
    if n == "BINARY_OP":
        if i[1] != 0:
            raise ValueError("BINARY_OP other than + emitted by the generator")
        return "C01.BINARY_ADD"
    if n == "ORIG":
        return f"C01.ORIG {cnat(i[1])} {cnat(i[2])}"
    raise ValueError(f"no model for {i}")


def c_arg(a):
    if a[0] == "stack":
        return f"C01.AStack {cnat(a[1])}"
    if a[0] == "const":
        return "C01.AConst"
    if a[0] == "fasttuple":
        return "C01.AVarTuple"
    return "C01.AVar"


def c_snippet(shape):
    _kind, action, args, orig, code = shape
    o = "None" if orig is None else f"(Some ({cnat(orig[0])}, {cnat(orig[1])}))"
    return ("{| C01.s_action := C01.%s; C01.s_args := %s; C01.s_orig := %s; C01.s_code := %s |}"
            % (action, clist(c_arg(a) for a in args), o, clist(c_instr(i) for i in code)))


# ---------------------------------------------------------------------------------------------
# systematic enumeration of the generator (beyond what the corpus happened to trigger)
def enumerate_generator():
    I.setup()
    from bytecode.instr import CellVar, Instr

    from pynguin.instrumentation.version import common as c
    from pynguin.instrumentation.version.python3_12 import Python312InstrumentationInstructionsGenerator as Gen

    A, SV = c.InstrumentationSetupAction, c.InstrumentationStackValue
    k = c.InstrumentationConstantLoad
    var_args = [c.InstrumentationFastLoad("v"), c.InstrumentationNameLoad("v"), c.InstrumentationGlobalLoad("v"),
                c.InstrumentationDeref(CellVar("v")), c.InstrumentationClassDeref(CellVar("v"))]
    stack_sets = {A.NO_ACTION: [()], A.COPY_FIRST: [(SV.FIRST,)], A.COPY_SECOND: [(SV.FIRST,)],
                  A.COPY_FIRST_TWO: [(SV.FIRST, SV.SECOND), (SV.SECOND, SV.FIRST), (SV.FIRST,), (SV.SECOND,)]}
    I.reset_records()
    obj = object()
    for act, sets in stack_sets.items():
        for st in sets:
            for nconst in (0, 1, 3):
                Gen.generate_instructions(act, c.InstrumentationMethodCall(obj, "m", (*st, *[k(i) for i in range(nconst)])), 1)
                Gen.generate_instructions(act, c.InstrumentationMethodCall(obj, "m", (*[k(i) for i in range(nconst)], *st)), 1)
        for va in var_args:
            Gen.generate_instructions(act, c.InstrumentationMethodCall(obj, "m", (k(1), va)), 1)
    overrides = [(A.COPY_FIRST_SHIFT_DOWN_TWO, Instr("STORE_ATTR", "x")), (A.COPY_SECOND_SHIFT_DOWN_THREE, Instr("STORE_SUBSCR")),
                 (A.COPY_SECOND_SHIFT_DOWN_TWO, Instr("DELETE_SUBSCR")), (A.COPY_THIRD_SHIFT_DOWN_FOUR, Instr("STORE_SLICE")),
                 (A.COPY_THIRD_SHIFT_DOWN_THREE, Instr("BINARY_SLICE"))]
    for act, ins in overrides:
        for nconst in (0, 2, 7):
            # the copy lies below the results of the overridden instruction (BINARY_SLICE pushes one)
            sv = SV.SECOND if ins.name == "BINARY_SLICE" else SV.FIRST
            Gen.generate_overriding_instructions(act, ins, c.InstrumentationMethodCall(obj, "m", (*[k(i) for i in range(nconst)], sv)), 1)
    shapes = {I.snippet_shape(r) for r in I.RECORDS}
    I.reset_records()
    return shapes


# ---------------------------------------------------------------------------------------------
# K2a: run a snippet shape on CPython
class _Mark:
    def __init__(self, code):
        object.__setattr__(self, "code", code)


class _Sent(_Mark):
    """Subject cell; logs the operands of the overridden instruction (deepest first)."""
    LOG: list = []

    def __setattr__(self, name, value):            # STORE_ATTR: [value, obj]
        _Sent.LOG.append((-1, [value.code, self.code]))

    def __setitem__(self, key, value):             # STORE_SUBSCR [value, container, key] / STORE_SLICE
        if isinstance(key, slice):
            _Sent.LOG.append((-1, [value.code, self.code, key.start.code, key.stop.code]))
        else:
            _Sent.LOG.append((-1, [value.code, self.code, key.code]))

    def __delitem__(self, key):                    # DELETE_SUBSCR [container, key]
        _Sent.LOG.append((-1, [self.code, key.code]))

    def __getitem__(self, key):                    # BINARY_SLICE [container, start, stop]
        _Sent.LOG.append((-1, [self.code, key.start.code, key.stop.code]))
        return _Mark(5000)

    def __add__(self, other):
        _Sent.LOG.append((-2, [self.code, other.code]))
        return _Mark(6000)


class _Recorder:
    def m(self, *args):
        _Sent.LOG.append((0, [_code(a) for a in args]))


def _code(v):
    if v is None:
        return 4000
    if isinstance(v, tuple):
        return 3000
    return v.code


def run_shape_on_cpython(shape):
    """Returns (depth, final stack codes top-first, calls) observed on the real interpreter."""
    from bytecode import Bytecode, Instr

    _kind, action, _args, orig, code = shape
    need = max(NEED[action], orig[0] if orig else 0)
    depth = need + 1
    rec = _Recorder()
    var = _Mark(2000)
    ins = [Instr("RESUME", 0), Instr("LOAD_CONST", var), Instr("STORE_FAST", "v")]
    for i in reversed(range(depth)):
        ins.append(Instr("LOAD_CONST", _Sent(i)))
    final = depth
    orig_name = {(2, 0, "COPY_FIRST_SHIFT_DOWN_TWO"): "STORE_ATTR", (3, 0, "COPY_SECOND_SHIFT_DOWN_THREE"): "STORE_SUBSCR",
                 (2, 0, "COPY_SECOND_SHIFT_DOWN_TWO"): "DELETE_SUBSCR", (4, 0, "COPY_THIRD_SHIFT_DOWN_FOUR"): "STORE_SLICE",
                 (3, 1, "COPY_THIRD_SHIFT_DOWN_THREE"): "BINARY_SLICE"}
    for c in code:
        n = c[0]
        if n == "LOAD_CONST":
            ins.append(Instr("LOAD_CONST", rec if c[1] == 0 else _Mark(1000 + c[1])))
        elif n == "LOAD_METHOD":
            ins.append(Instr("LOAD_ATTR", (True, "m")))
        elif n in ("COPY", "SWAP", "CALL"):
            ins.append(Instr(n, c[1]))
        elif n == "POP_TOP":
            ins.append(Instr("POP_TOP"))
        elif n in ("LOAD_FAST", "LOAD_FAST_CHECK"):
            ins.append(Instr(n, "v"))
        elif n in ("LOAD_NAME", "LOAD_GLOBAL", "LOAD_DEREF"):
            ins.append(Instr("LOAD_GLOBAL", (False, "gv")))     # one variable read, see notes
        elif n == "LOAD_LOCALS":
            ins.append(Instr("LOAD_GLOBAL", (False, "gv")))
            ins.append(Instr("POP_TOP"))
        elif n == "LOAD_FROM_DICT_OR_DEREF":
            ins.append(Instr("LOAD_GLOBAL", (False, "gv")))
        elif n == "BUILD_TUPLE":
            ins.append(Instr("BUILD_TUPLE", c[1]))
        elif n == "BINARY_OP":
            ins.append(Instr("BINARY_OP", c[1]))
        elif n == "ORIG":
            name = orig_name[(c[1], c[2], action)]
            ins.append(Instr(name, "att") if name == "STORE_ATTR" else Instr(name))
            final += c[2] - c[1]
        else:
            raise ValueError(n)
    ins += [Instr("BUILD_TUPLE", final), Instr("RETURN_VALUE")]
    bc = Bytecode(ins)
    bc.name, bc.filename, bc.argcount = "probe", "<c01>", 0
    import types

    fn = types.FunctionType(bc.to_code(), {"gv": var})
    _Sent.LOG.clear()
    res = fn()
    stack = [_code(v) for v in reversed(res)]
    return depth, stack, list(_Sent.LOG)


def c_case(shape, depth, stack, calls):
    return cpair(clist(c_instr(i) for i in shape[4]), cnat(depth), clist(cZ(z) for z in stack),
                 clist(cpair(cZ(k), clist(cZ(a) for a in args)) for k, args in calls))


# ---------------------------------------------------------------------------------------------
# Model B': the real DynamicConstantProvider entry points on every class of value
class _OpInt(int):
    def __add__(self, other):
        G.Adv.LOG.append("OpInt.__add__")
        return 0

    def __radd__(self, other):
        G.Adv.LOG.append("OpInt.__radd__")
        return 0

    def __eq__(self, other):
        G.Adv.LOG.append("OpInt.__eq__")
        return True

    def __hash__(self):
        G.Adv.LOG.append("OpInt.__hash__")
        return 1


def provider_values():
    """class name -> list of factories of fresh values of that class"""
    return {
        "VStr": [lambda: "ab", lambda: ""],
        "VBytes": [lambda: b"ab"],
        "VNum": [lambda: 3, lambda: 2.5, lambda: 10**400, lambda: -(2**1024), lambda: complex(1, 2), lambda: complex("nan"),
                 lambda: float("nan"), lambda: float("inf"), lambda: -0.0, lambda: 5e-324],
        "VSubStr": [lambda: G.make_op("opstr", "ab", "plain"), lambda: G.make_op("opstr", "A1", "raise"),
                    lambda: G.make_op("opstrsw", "ab", "raise"), lambda: G.LoggingStr("ab")],
        "VSubBytes": [lambda: G.make_op("opbytes", "ab", "plain"), lambda: G.make_op("opbytes", "b", "raise")],
        "VSubNum": [lambda: _OpInt(3)],
        "VOther": [lambda: G.AdvFull("raise", 1), lambda: ("a", "b"), lambda: None],
    }


def run_provider(entry, fa, fb, name="isalnum"):
    """Call one real entry point on fresh values; returns (stored, user method ran, raised, log)."""
    from pynguin.analyses.constants import ConstantPool, DynamicConstantProvider, EmptyConstantProvider

    pool = ConstantPool()
    dp = DynamicConstantProvider(pool, EmptyConstantProvider(), 0.5, 10)
    a, b = fa(), fb()
    G.Adv.LOG.clear()
    raised = None
    try:
        if entry == "EAddValue":
            dp.add_value(a)
        elif entry == "EAddForStrings":
            dp.add_value_for_strings(a, name)
        else:
            dp.add_concatenated_value(a, b)
    except Exception as e:  # noqa: BLE001
        raised = type(e).__name__
    log = sorted(set(G.Adv.LOG))
    G.Adv.LOG.clear()
    import typing

    from pynguin.analyses import constants as cmod

    stored = any(len(pool.get_all_constants_for(t)) for t in typing.get_args(cmod.ConstantTypes))
    return stored, bool(log), raised, log


def provider_leg(ctx):
    vals = provider_values()
    cases, n_bad = [], 0
    for entry in ("EAddValue", "EAddForStrings", "EAddConcat"):
        for ca, fas in vals.items():
            for cb, fbs in (vals.items() if entry == "EAddConcat" else [("VStr", vals["VStr"][:1])]):
                for fa in fas:
                    for fb in fbs:
                        for name in (("isalnum", "islower", "isupper", "isdigit") if entry == "EAddForStrings" else ("",)):
                            stored, usr, raised, log = run_provider(entry, fa, fb, name)
                            ctx.count("provider:" + entry)
                            cases.append(cpair(f"C01.{entry}", f"C01.{ca}", f"C01.{cb}",
                                               cpair(cbool(stored), cbool(usr), cbool(raised is not None))))
                            if usr or raised:
                                n_bad += 1
                                what = "raises:" + raised if raised else "user-method-called"
                                ctx.fail(f"provider:{what}:{entry}",
                                         f"DynamicConstantProvider.{entry} on ({ca}, {cb}) {'raised ' + raised if raised else ''} "
                                         f"and invoked user-defined methods {log}; the instrumented code calls it with subject values",
                                         {"entry": entry, "first": ca, "second": cb, "string_function": name, "log": log})
    bad = ctx.run_cases("C01_provider", "From Verif Require Import Models.C01.", "C01.pvcase", "C01.check_pvcase", cases)
    if bad and not n_bad:
        ctx.broken("correspondence:provider-model", "the real DynamicConstantProvider stores/evaluates differently from the model "
                   "(e.g. no longer records the concatenation of two plain strings)", {"case": cases[bad[0]]})
    ctx.leg("K2-provider", cases=len(cases), user_code_invoked=n_bad, ok=not bad)


# ---------------------------------------------------------------------------------------------
# workers
def _harvest(job):
    """Instrument one program under every metric subset; return snippet shapes + raw block kinds."""
    n, src, path = job
    I.setup()
    with open(path, "w") as f:
        f.write(src)
    shapes, pcases, errors = set(), [], []
    for ms in I.SUBSETS:
        I.reset_records()
        try:
            sp, _code, _pool = I.instrument(src, path, ms)
        except Exception as e:  # noqa: BLE001
            errors.append((ms, type(e).__name__, str(e)[:200]))
            continue
        try:
            for r in I.RECORDS:
                shapes.add(I.snippet_shape(r))
        except ValueError as e:
            errors.append((ms, "outside-model", str(e)))
        if ms == ("BRANCH", "LINE"):
            for _coid, meta in I.code_objects(sp):
                for node in meta.cfg.basic_block_nodes:
                    kinds = [I._elem_kind(e) == "I" for e in node.basic_block]
                    if all(kinds):
                        continue
                    ninstr = sum(kinds)
                    for i in sorted({0, 1, ninstr - 1, ninstr, -1, -2, -ninstr, -ninstr - 1}):
                        obs = []
                        for fn in (node.before, node.after, node.override):
                            try:
                                s = fn(i)
                                obs.append((s.start, s.stop))
                            except IndexError:
                                obs.append(None)
                        pcases.append((kinds, i, obs))
    return n, sorted(shapes), pcases, errors


def _oracle(job):
    n, src, path, specs = job
    return n, I.differential_isolated(src, path, specs, I.SUBSETS)


def signature(f):
    ms, _k, kind, detail, _msg = f
    if kind == "crash":
        return f"diff:crash:{detail}"
    if kind in ("raises", "swallows", "exctype", "instrument", "dunder", "harness"):
        return f"diff:{kind}:{detail}"
    return f"diff:{kind}"


def shrink_program(src, path, spec, ms, sig):
    """Remove statements (a line with its more-indented followers) while the same failure stays."""
    def fails(s):
        try:
            compile(s, path, "exec")
        except SyntaxError:
            return False
        r = I.differential_isolated(s, path, [spec], [tuple(ms)])
        return any(signature(f) == sig for f in r["fails"])

    lines = src.split("\n")
    start = next(i for i, l in enumerate(lines) if l.startswith("def f("))
    changed = True
    rounds = 0
    budget = [30]

    def fails_b(s):
        budget[0] -= 1
        return budget[0] >= 0 and fails(s)
    while changed and rounds < 3 and budget[0] > 0:
        changed = False
        rounds += 1
        i = start + 1
        while i < len(lines):
            if not lines[i].strip():
                i += 1
                continue
            ind = len(lines[i]) - len(lines[i].lstrip())
            j = i + 1
            while j < len(lines) and (not lines[j].strip() or len(lines[j]) - len(lines[j].lstrip()) > ind):
                j += 1
            cand = lines[:i] + lines[j:]
            if fails_b("\n".join(cand)):
                lines, changed = cand, True
            else:
                i += 1
    return "\n".join(lines)


# ---------------------------------------------------------------------------------------------
def run(ctx: vlib.Ctx):
    I.setup()
    ctx.digest_sources(SRC)
    static_ok = ctx.coq_static()
    if not ctx.quick:
        ctx.coqchk()
    scratch = ctx.mkscratch()
    corpus = json.loads((vlib.VERIF / "corpus" / "C01.json").read_text())
    n_prog = 8 if ctx.quick else 90
    n_inp = 2 if ctx.quick else 6
    progs = [(c["src"], c.get("specs") or []) for c in corpus]
    for s in G.SEED_PROGRAMS:
        if all(s != p[0] for p in progs):
            progs.append((s, []))
    n_fixed = len(progs)
    while len(progs) < n_fixed + n_prog:
        src, used = G.gen_module(ctx.rng)
        progs.append((src, []))
        for u in used:
            ctx.count("stmt:" + u)
    progs = [(src, list(specs) + [G.gen_input(ctx.rng) for _ in range(n_inp)]) for src, specs in progs]
    for src, specs in progs:
        ctx.case_seen(src, nontrivial=True)
        for s in specs:
            ctx.count("o:" + s["o"]["k"])
            ctx.count("l:" + s["l"]["k"])
    ctx.sample({"program": progs[-1][0][len(G.PRELUDE):][:600]})
    ctx.cov["rule"] = ("generated modules f(a,b,s,l,o) (grammar in harness/props/_c01_gen.py) + seeds; each instrumented "
                       "under the 8 metric subsets with seeding on; distinct = distinct program text")
    workers = min(12, os.cpu_count() or 4)

    # --- K1b: harvest snippets, regenerate the per-snippet lemmas -------------------------------
    shapes = set(enumerate_generator())
    n_enum = len(shapes)
    pcases, instr_errors = [], []
    with cf.ProcessPoolExecutor(max_workers=workers) as ex:
        jobs = [(n, src, str(scratch / f"gm_{n}.py")) for n, (src, _s) in enumerate(progs)]
        for n, shp, pcs, errs in ex.map(_harvest, jobs, chunksize=2):
            shapes.update(tuple(map(_tuplify, s)) if not isinstance(s, tuple) else s for s in shp)
            pcases += pcs
            for ms, et, msg in errs:
                instr_errors.append((n, ms, et, msg))
    shapes = sorted(shapes, key=repr)
    ctx.count("snippet-shapes", len(shapes))
    ctx.count("snippet-shapes-from-enumeration", n_enum)
    for n, ms, et, msg in instr_errors:
        if et == "outside-model":
            ctx.broken("extractor:snippet-outside-model", "the generator emitted an opcode/operand the stack machine has no model for", {"detail": msg})
        else:
            ctx.fail(f"diff:instrument:{et}", f"instrument_code raised {et}: {msg}",
                     {"program": progs[n][0], "metrics": list(ms), "error": msg})
    gen = ["From Coq Require Import List ZArith Lia.", "From Verif Require Import Models.C01 Proofs.C01.",
           "Import ListNotations. Import C01.", ""]
    names = []
    try:
        for k, sh in enumerate(shapes):
            gen.append(f"Definition snip_{k} : snippet := {c_snippet(sh)}.")
            gen.append(f"Lemma snip_{k}_ok : snippet_ok snip_{k}.\nProof. unfold snippet_ok. snippet_tac. Qed.")
            names.append(f"snip_{k}")
        gen.append("Definition all_snippets : list snippet := " + clist(names) + ".")
        gen.append("Lemma all_snippets_ok : Forall snippet_ok all_snippets.\nProof. repeat constructor; "
                   + "; ".join([]) + "first [" + " | ".join(f"exact {n}_ok" for n in names) + "]. Qed.")
        gen.append("Lemma all_observe_only : forallb (fun s => negb (adds (s_action s))) all_snippets = true.\n"
                   "Proof. vm_compute. reflexivity. Qed.")
        gen.append("Print Assumptions all_snippets_ok.")
        p = ctx.work / "C01_snippets.v"
        p.write_text("\n".join(gen) + "\n")
        dyn_ok = ctx.coq_dyn([p], "per-snippet contract (stack neutrality, override effect, call arguments, observation only)")
    except ValueError as e:
        dyn_ok = False
        ctx.broken("extractor:snippet-outside-model", "cannot express an emitted snippet in the stack machine", {"detail": str(e)})
    ctx.leg("K1b", snippets=len(shapes), dyn_ok=dyn_ok)

    # --- K2a: opcode semantics against CPython --------------------------------------------------
    cases = []
    for sh in shapes:
        try:
            depth, stack, calls = run_shape_on_cpython(sh)
        except Exception as e:  # noqa: BLE001
            ctx.broken("correspondence:opcode-semantics", "a snippet shape could not be executed on CPython",
                       {"shape": repr(sh), "error": f"{type(e).__name__}: {e}"})
            continue
        cases.append(c_case(sh, depth, stack, calls))
    bad = ctx.run_cases("C01_opcodes", "From Verif Require Import Models.C01.", "C01.case", "C01.check_case", cases)
    if bad:
        ctx.broken("correspondence:opcode-semantics", "CPython's stack/call arguments after a snippet differ from the stack machine",
                   {"shapes": [repr(shapes[i]) for i in bad[:3]]})
    # --- K2b: BasicBlockNode.before/after/override against pos_z --------------------------------
    seen, pc = set(), []
    for kinds, i, obs in pcases:
        key = (tuple(kinds), i)
        if key in seen:
            continue
        seen.add(key)
        o = [copt(None if x is None else cpair(cnat(x[0]), cnat(x[1]))) for x in obs]
        pc.append(cpair(clist(cbool(b) for b in kinds), cZ(i), *o))
    ctx.count("placement-cases", len(pc))
    bad2 = ctx.run_cases("C01_placement", "From Verif Require Import Models.C01.", "C01.pcase", "C01.check_pcase", pc)
    if bad2:
        ctx.broken("correspondence:placement", "BasicBlockNode.before/after/override disagree with the placement model",
                   {"case": pc[bad2[0]]})
    ctx.leg("K2", opcode_cases=len(cases), placement_cases=len(pc), ok=not bad and not bad2)

    # --- K2c: provider entry points -------------------------------------------------------------
    provider_leg(ctx)

    # --- S: differential oracle ------------------------------------------------------------------
    n_fail = 0
    with cf.ProcessPoolExecutor(max_workers=workers) as ex:
        jobs = [(n, src, str(scratch / f"gm_{n}.py"), specs) for n, (src, specs) in enumerate(progs)]
        results = list(ex.map(_oracle, jobs, chunksize=1))
    seen_sig = set()
    for n, r in results:
        for e in r.get("plain_exc") or []:
            ctx.count("plain:" + (e or "returns"))
            ctx.cov["evaluations"] += len(I.SUBSETS)
        for why, cnt in (r.get("inconclusive") or {}).items():
            ctx.count("S:inconclusive:" + why, cnt)
        for f in r["fails"]:
            n_fail += 1
            sig = signature(f)
            if sig in seen_sig:
                continue
            seen_sig.add(sig)
            src, specs = progs[n][0], (r.get("specs") or progs[n][1])
            spec = specs[f[1]] if f[1] >= 0 else specs[0]
            eats = [k for k in ("l", "o") if spec[k].get("k") == "eat"]
            if eats and "BRANCH" in f[0] and f[2] in ("value", "iterator", "stdout", "state", "raises", "swallows", "exctype"):
                # a membership test that itself consumes its container: the tracer evaluates the subject's
                # operator once more, which is observable for a stateful operator.  Classified separately only
                # if the same run with a non-consuming __contains__ shows no difference.
                spec2 = json.loads(json.dumps(spec))
                for k in eats:
                    spec2[k]["k"] = "peek"
                r2 = I.differential_isolated(src, str(scratch / f"eat_{n}.py"), [spec2], [tuple(f[0])])
                if not r2["fails"]:
                    sig = "diff:stateful-membership:" + f[2]
                    if sig in seen_sig:
                        continue
                    seen_sig.add(sig)
            small = src
            if f[2] not in ("harness",):
                try:
                    small = shrink_program(src, str(scratch / f"shr_{n}.py"), spec, f[0], sig)
                except Exception:  # noqa: BLE001
                    small = src
            ctx.fail(sig, f"instrumented run differs from the plain run ({f[2]} {f[3]}) under metrics {f[0]}: {f[4]}",
                     {"program": small, "input": spec, "metrics": f[0], "kind": f[2], "detail": f[3]})
    ctx.leg("S", programs=len(progs), inputs_each=len(progs[0][1]), subsets=len(I.SUBSETS), failures=n_fail)
    ctx.assumptions += [
        "opcode semantics of the 12-instruction stack machine is validated against CPython 3.12 on every snippet shape, not proved",
        "LOAD_NAME/LOAD_DEREF/LOAD_FROM_DICT_OR_DEREF are validated through LOAD_GLOBAL (same stack effect: one value pushed)",
        "tracer callbacks are pure (C04/C05); CPython executes original instructions as before; bytecode re-assembly is correct (sampled by S)",
    ]
    ctx.cov["trusted_base"] += ["harness/props/_c01_impl.py (recorder around generate_instructions, abstraction of snippets)",
                                "harness/props/_c01_gen.py (program and input generator), differential oracle"]


def _tuplify(x):
    return tuple(_tuplify(y) for y in x) if isinstance(x, (list, tuple)) else x


def replay(ctx, path):
    I.setup()
    d = json.loads(open(path).read())["replay"]
    scratch = ctx.mkscratch()
    r = I.differential_isolated(d["program"], str(scratch / "replay.py"), [d["input"]], [tuple(d["metrics"])])
    print("program:\n" + d["program"])
    print("input:", d["input"], "metrics:", d["metrics"])
    print("differences:", r["fails"] or "none (instrumented run equals plain run)")
    return 0
