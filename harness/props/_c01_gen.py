"""Grammar-based generator of terminating Python modules + inputs for C01/C02/C03.

Every generated module defines `f(a, b, s, l, o)`:
  a, b  numbers (ints incl. > 2**53, floats incl. nan/inf)      s  str / bytes
  l     list / tuple / one-shot iterator                         o  adversarial value
and uses: if/elif/else, and/or/not, chained comparisons, `is None`, `in`, for/while with
break/continue/else, comprehensions, generator expressions, generators, try/except/else/finally,
with, match, closures, lambdas, classes, str.startswith/endswith/isX, subscripts, print, globals.
All randomness comes from the `random.Random` handed in (the check's single PRNG).
"""
from __future__ import annotations

import math

PRELUDE = '''\
class Ctx:
    def __init__(self, swallow):
        self.swallow = swallow
    def __enter__(self):
        print("enter")
        return 3
    def __exit__(self, et, ev, tb):
        print("exit", et is not None)
        return self.swallow and et is not None
G = [0]
class MyErr(KeyError):
    pass
'''

INT_VARS = ["x", "y", "z"]


class Gen:
    def __init__(self, rng, features=None):
        self.rng = rng
        self.lines: list[str] = []
        self.budget = rng.choice([6, 10, 14, 20])
        self.loop_depth = 0
        self.fun_depth = 0
        self.uid = 0
        self.features = features  # optional set restricting statement kinds
        self.used: set[str] = set()

    # -- expressions -------------------------------------------------------------------
    def atom(self):
        r = self.rng
        return r.choice(INT_VARS + ["a", "b", "a", "b", str(r.choice([0, 1, 2, 3, 5, -1, 10])), "len(s)", "G[0]"])

    def iexpr(self, d=0):
        r = self.rng
        c = r.random()
        if d > 2 or c < 0.45:
            return self.atom()
        if c < 0.70:
            op = r.choice(['+', '-', '*'])
            if op == '*':   # keep numbers bounded (no compounding growth inside loops)
                return f"(({self.iexpr(d + 1)} * {self.iexpr(d + 1)}) % 1000003)"
            return f"({self.iexpr(d + 1)} {op} {self.iexpr(d + 1)})"
        if c < 0.78:
            return f"({self.iexpr(d + 1)} {r.choice(['//', '%'])} {self.iexpr(d + 1)})"
        if c < 0.82:
            return f"l[{self.iexpr(d + 1)}]"
        if c < 0.84:
            self.used.add("slice")
            return f"len({r.choice(['l', 's', 'o'])}[{self.atom()}:{r.choice(['', self.atom()])}])"
        if c < 0.89:
            return f"({self.iexpr(d + 1)} if {self.cond(d + 1)} else {self.iexpr(d + 1)})"
        if c < 0.93:
            return f"(lambda q: q + {self.atom()})({self.iexpr(d + 1)})"
        if c < 0.97:
            return f"sum(t * {self.atom()} for t in range({r.choice([0, 2, 3])}) if t != {self.atom()})"
        return f"len([t for t in l if t {r.choice(['<', '==', '>='])} {self.atom()}])"

    def cmp(self, d=0):
        r = self.rng
        op = r.choice(["<", "<=", "==", "!=", ">", ">="])
        c = r.random()
        if c < 0.55:
            return f"{self.iexpr(d + 1)} {op} {self.iexpr(d + 1)}"
        if c < 0.65:
            return f"{self.atom()} {op} {self.iexpr(d + 1)} {r.choice(['<', '<=', '!='])} {self.atom()}"
        if c < 0.75:
            return f"o {op} {self.atom()}"
        if c < 0.80:
            return f"{self.atom()} {op} o"
        if c < 0.83:
            return f"s {op} {r.choice([repr('b'), repr(''), 's', repr('abc')])}"
        if c < 0.87:
            return r.choice([f"o {op} l[{self.atom()}]", f"l[{self.atom()}] {op} o", f"l[0] {op} l[-1]"])
        if c < 0.93:
            return f"o {op} o"
        v = r.choice(["a", "b", "o", "x"])
        return f"{v} {r.choice(['==', '!=', '==', '!=', '<=', '>='])} {v}"

    def cond(self, d=0):
        r = self.rng
        c = r.random()
        if d > 2:
            return self.cmp(d)
        if c < 0.40:
            return self.cmp(d)
        if c < 0.50:
            return f"({self.cond(d + 1)} {r.choice(['and', 'or'])} {self.cond(d + 1)})"
        if c < 0.55:
            return f"not {self.cond(d + 1)}"
        if c < 0.60:
            return f"{r.choice(['o', 'o', 'l', 's'])} is {r.choice(['', 'not '])}None"
        if c < 0.63:
            # None check applied directly to a comparison / containment / identity result
            inner = r.choice([self.cmp(d + 1), f"{self.atom()} {r.choice(['in', 'not in'])} {r.choice(['l', '(1, 2, 3)', 's'])}",
                              f"o is {r.choice(['s', 'None', 'l'])}", f"{self.atom()} == o"])
            return f"({inner}) is {r.choice(['', 'not '])}None"
        if c < 0.72:
            return f"{self.atom()} {r.choice(['in', 'not in'])} {r.choice(['l', 'l', 'o', 's', '(1, 2, 3)'])}"
        if c < 0.78:
            return r.choice(["o", "l", "s", self.atom()])
        if c < 0.86:
            self.used.add("strfn")
            arg = r.choice([repr("a"), repr("ab"), "s", "o", repr(("a", "b")), "(o, 'a')"])
            return f"{r.choice(['s', 's', 'o'])}.{r.choice(['startswith', 'endswith'])}({arg})"
        if c < 0.92:
            self.used.add("strfn")
            return f"{r.choice(['s', 's', 'o'])}.{r.choice(['isalnum', 'isdigit', 'islower', 'isupper', 'isspace'])}()"
        if c < 0.96:
            return f"l[{self.atom()}] {r.choice(['<', '==', '>'])} {self.atom()}"
        return f"{{1: 2, 3: 4}}[{self.atom()}] == {self.atom()}"

    # -- statements --------------------------------------------------------------------
    def emit(self, ind, text):
        self.lines.append("    " * ind + text)

    def simple(self, ind):
        r = self.rng
        c = r.random()
        v = r.choice(INT_VARS)
        if c < 0.40:
            self.emit(ind, f"{v} = {self.iexpr()}")
        elif c < 0.60:
            self.emit(ind, f"{v} {r.choice(['+=', '-=', '+=', '-=', '*='])} {self.iexpr(1) if r.random() < 0.8 else r.choice(['2', '3', '-1'])}")
            if self.lines[-1].split()[1] == '*=':
                self.lines[-1] = self.lines[-1].split('*=')[0] + '= (' + v + ' * ' + r.choice(['2', '3', '-1']) + ') % 1000003'
        elif c < 0.63:
            self.used.add("slice")
            opts = [f"{v} = len(l[1:])", f"l[{self.atom()}] = {v}", f"o.attr = {v}"]
            if self.loop_depth == 0:   # never grow a list that may be iterated over
                opts += [f"l[{self.atom()}:{self.atom()}] = [{v}]", f"del l[{self.atom()}:]", f"del l[{self.atom()}]"]
            self.emit(ind, r.choice(opts))
        elif c < 0.72:
            self.emit(ind, f"print({r.choice(INT_VARS)}, {self.atom()})")
        elif c < 0.80:
            self.emit(ind, "G[0] += 1")
        elif c < 0.86 and self.loop_depth > 0:
            self.emit(ind, r.choice(["break", "continue"]))
        elif c < 0.92:
            self.emit(ind, f"return {self.iexpr(1)}" if self.fun_depth == 0 or r.random() < 0.7 else "return")
        elif c < 0.96:
            self.emit(ind, f"raise {r.choice(['ValueError', 'KeyError', 'ZeroDivisionError', 'MyErr', 'IndexError'])}({self.atom()})")
        else:
            self.emit(ind, f"assert {self.cond(1)}")

    def block(self, ind, n=None):
        r = self.rng
        n = n if n is not None else r.choice([1, 1, 2, 2, 3])
        for _ in range(n):
            self.stmt(ind)

    def allowed(self, kind):
        return self.features is None or kind in self.features

    def stmt(self, ind):
        r = self.rng
        self.budget -= 1
        if self.budget <= 0 or ind > 5:
            self.simple(ind)
            return
        kinds = ["simple", "simple", "if", "if", "if", "for", "for", "while", "try", "try", "with", "match",
                 "closure", "class", "gen", "comp", "ifexp", "compvars", "compvars", "compraise", "importfrom"]
        kind = r.choice([k for k in kinds if self.allowed(k)] or ["simple"])
        self.used.add(kind)
        if kind == "simple":
            self.simple(ind)
        elif kind == "if":
            self.emit(ind, f"if {self.cond()}:")
            self.block(ind + 1)
            for _ in range(r.choice([0, 0, 1, 2])):
                self.emit(ind, f"elif {self.cond()}:")
                self.block(ind + 1)
            if r.random() < 0.5:
                self.emit(ind, "else:")
                self.block(ind + 1)
        elif kind == "for":
            self.uid += 1
            v = f"i{self.uid}"
            it = r.choice([f"range({r.choice([0, 1, 2, 3, 4])})", "l", "l", f"range({self.atom()} % 4)", "(1, 2, 3)",
                           f"[t + 1 for t in range({r.choice([0, 2, 3])})]", f"enumerate(l)"])
            if it == "enumerate(l)":
                self.emit(ind, f"for {v}, _e in {it}:")
            else:
                self.emit(ind, f"for {v} in {it}:")
            self.loop_depth += 1
            if r.random() < 0.6:
                self.emit(ind + 1, f"{r.choice(INT_VARS)} += {v}")
            self.block(ind + 1)
            self.loop_depth -= 1
            if r.random() < 0.3:
                self.emit(ind, "else:")
                self.block(ind + 1, 1)
        elif kind == "while":
            self.uid += 1
            v = f"w{self.uid}"
            self.emit(ind, f"{v} = 0")
            self.emit(ind, f"while {v} < {r.choice([1, 2, 3, 4])}{r.choice(['', '', ' and ' + self.cond(1)])}:")
            self.emit(ind + 1, f"{v} += 1")
            self.loop_depth += 1
            self.block(ind + 1)
            self.loop_depth -= 1
            if r.random() < 0.25:
                self.emit(ind, "else:")
                self.block(ind + 1, 1)
        elif kind == "try":
            self.emit(ind, "try:")
            self.block(ind + 1)
            shape = r.choice(["except", "except", "finally", "both", "both", "else"])
            if shape in ("except", "both", "else"):
                for _ in range(r.choice([1, 1, 2])):
                    exc = r.choice(["ZeroDivisionError", "IndexError", "(ValueError, KeyError)", "TypeError",
                                    "Exception", "ArithmeticError", "LookupError", "(KeyError, IndexError)",
                                    "(TypeError, ZeroDivisionError, ValueError)", "(LookupError, ArithmeticError)",
                                    "(MyErr,)", "(IndexError, MyErr, TypeError)", "(AttributeError, UnboundLocalError)"])
                    self.emit(ind, f"except {exc}{r.choice(['', ' as ex'])}:")
                    self.block(ind + 1)
                if shape == "else" or r.random() < 0.2:
                    self.emit(ind, "else:")
                    self.block(ind + 1, 1)
            if shape in ("finally", "both"):
                self.emit(ind, "finally:")
                self.block(ind + 1)
        elif kind == "with":
            self.emit(ind, f"with Ctx({r.choice(['True', 'False', 'False'])}){r.choice([' as cv', ''])}:")
            self.block(ind + 1)
        elif kind == "match":
            self.emit(ind, f"match {r.choice([self.atom(), 'o', 'l', 's', '(a, b)'])}:")
            pats = ["0", "1 | 2", "[p, q]", "[p, *rest]", "str()", "int() as p", "None", "{'k': p}", "(p, q) if p < q",
                    "float()", "[]"]
            for p in r.sample(pats, r.choice([1, 2, 3])):
                self.emit(ind + 1, f"case {p}:")
                self.block(ind + 2, 1)
            if r.random() < 0.7:
                self.emit(ind + 1, "case _:")
                self.block(ind + 2, 1)
        elif kind == "closure":
            self.uid += 1
            fn = f"h{self.uid}"
            self.emit(ind, f"def {fn}(p, q=1):")
            self.emit(ind + 1, "nonlocal x" if self.fun_depth == 0 and r.random() < 0.5 else "x = p")
            self.fun_depth += 1
            ld, self.loop_depth = self.loop_depth, 0
            self.block(ind + 1)
            self.loop_depth = ld
            self.fun_depth -= 1
            self.emit(ind + 1, f"return {r.choice(['p', 'q', 'x', 'y'])} + {self.atom()}")
            self.emit(ind, f"{r.choice(INT_VARS)} = {fn}({self.iexpr(1)}{r.choice(['', ', ' + self.atom()])})")
        elif kind == "class":
            self.uid += 1
            cn = f"K{self.uid}"
            self.emit(ind, f"class {cn}:")
            self.emit(ind + 1, f"cv = {self.atom()}")
            self.emit(ind + 1, "def m(self, p):")
            self.emit(ind + 2, f"if {self.cmp(1).replace('o ', 'p ').replace(' o', ' p')}:")
            self.emit(ind + 3, f"return p + self.cv")
            self.emit(ind + 2, f"return {r.choice(INT_VARS[1:])}")
            self.emit(ind, f"{r.choice(INT_VARS)} = {cn}().m({self.iexpr(1)})")
        elif kind == "gen":
            self.uid += 1
            fn = f"g{self.uid}"
            self.emit(ind, f"def {fn}(n):")
            self.emit(ind + 1, "for t in range(n):")
            self.emit(ind + 2, f"if {self.cmp(1).replace('o ', 't ').replace(' o', ' t')}:")
            self.emit(ind + 3, r.choice(["continue", "return", "yield -t"]))
            self.emit(ind + 2, "yield t")
            self.emit(ind, f"{r.choice(INT_VARS)} = {r.choice(['sum', 'len', 'max'])}(list({fn}({r.choice([0, 2, 3, 4])})) + [0])")
        elif kind == "comp":
            c = r.choice([
                f"[t * 2 for t in range(3) if {self.cmp(1).replace('o ', 't ').replace(' o', ' t')}]",
                "{t: t + 1 for t in l if t}",
                "{t % 2 for t in range(4)}",
                f"[u + t for t in range(2) for u in range(t + 1) if u != {self.atom()}]",
            ])
            self.emit(ind, f"{r.choice(INT_VARS)} = len({c})")
        elif kind == "compvars":
            # inlined comprehension assigned directly (the compiler reorders the restoring stores), with one
            # or several loop variables that are unbound / rebound / deleted / captured afterwards
            self.uid += 1
            u, w = f"c{self.uid}a", f"c{self.uid}b"
            tgt = r.choice(INT_VARS + [f"r{self.uid}"])
            src = r.choice(["l", "range(3)", "(1, 2)", "s"])
            comp = r.choice([
                f"[({u}, {w}) for {u} in {src} for {w} in (1, 2)]",
                f"[{u} for {u} in {src}]",
                f"{{{u}: {w} for {u} in {src} for {w} in range(2) if {w} != {self.atom()}}}",
                f"[[{w} for {w} in range({u})] for {u} in (1, 2)]",
                f"[x for x in {src}]",
                f"{{{u} for {u} in {src} if {self.cmp(1).replace('o ', u + ' ').replace(' o', ' ' + u)}}}",
            ])
            pre = r.choice(["", "", f"{u} = {self.atom()}", f"{w} = 7"])
            if pre:
                self.emit(ind, pre)
            self.emit(ind, r.choice([f"{tgt} = {comp}", f"{tgt} = {comp}", f"{tgt}, {r.choice(INT_VARS)} = {comp}, {self.atom()}",
                                     f"{tgt} = len({comp})"]))
            for _ in range(r.choice([0, 1, 2, 3])):
                v = r.choice([u, w, "x"])
                self.emit(ind, r.choice([f"{v} = {self.atom()}", f"del {v}", f"{r.choice(INT_VARS)} = {v}", f"print({v})",
                                         f"{tgt} = (lambda: {v})()", f"{v} += 1"]))
            if r.random() < 0.3:
                self.emit(ind, f"{r.choice(INT_VARS)} = len({tgt}) if hasattr({tgt}, '__len__') else {tgt}")
        elif kind == "compraise":
            # an inlined comprehension (fresh, unbound loop variables) that may raise in the element expression,
            # the condition or the iterable, inside try/except: the compiler's cleanup handler restores the
            # shadowed variables and re-raises
            self.uid += 1
            u, w = f"e{self.uid}a", f"e{self.uid}b"
            src = r.choice(["l", "range(3)", "(0, 1, 2)", "s", f"l[{self.atom()}]", "o"])
            elem = r.choice([f"1 // {u}", f"l[{u}]", f"{{1: 2}}[{u}]", f"{u} + {self.atom()}", f"int({u})"])
            condp = r.choice(["", "", f" if 1 // {u}", f" if l[{u}] > 0", f" if {u} < {self.atom()}"])
            comp = r.choice([f"[{elem} for {u} in {src}{condp}]", f"{{{elem} for {u} in {src}{condp}}}",
                             f"{{{u}: {elem} for {u} in {src}{condp}}}",
                             f"[({u}, {w}) for {u} in {src} for {w} in range(1 // {u})]",
                             f"[[{elem} for {u} in range({w})] for {w} in {src}]"])
            tgt = r.choice(INT_VARS)
            self.emit(ind, "try:")
            self.emit(ind + 1, r.choice([f"{tgt} = len({comp})", f"{tgt} = {comp}", f"print({comp})"]))
            self.emit(ind, f"except {r.choice(['ZeroDivisionError', '(ZeroDivisionError, IndexError)', 'LookupError', 'KeyError', 'Exception', 'TypeError'])}:")
            self.emit(ind + 1, f"{r.choice(INT_VARS)} = {self.atom()}")
            if r.random() < 0.4:
                self.emit(ind, r.choice([f"{u} = 1", f"print({u})", f"del {u}"]))
        elif kind == "importfrom":
            self.emit(ind, "try:")
            self.emit(ind + 1, r.choice(["from os import no_such_name", "from math import pi, no_such_name", "from json import decoder",
                                         "from collections import abc as cabc", "import no_such_module_x", "from os.path import join, nope"]))
            self.emit(ind + 1, f"{r.choice(INT_VARS)} = {self.atom()}")
            self.emit(ind, f"except {r.choice(['ImportError', 'ImportError', 'Exception', 'ModuleNotFoundError', 'AttributeError'])}:")
            self.emit(ind + 1, f"{r.choice(INT_VARS)} = {self.atom()}")
        elif kind == "ifexp":
            self.emit(ind, f"{r.choice(INT_VARS)} = {self.atom()} if {self.cond(1)} else {self.iexpr(1)}")


def gen_module(rng, features=None) -> tuple[str, set]:
    g = Gen(rng, features)
    g.emit(0, "def f(a, b, s, l, o):")
    g.emit(1, "x = a")
    g.emit(1, "y = b")
    g.emit(1, "z = 0")
    g.block(1, rng.choice([2, 3, 4, 5]))
    g.emit(1, f"return {rng.choice(['x', 'y', 'z', '(x, y, z)', 'x + y + z'])}")
    return PRELUDE + "\n".join(g.lines) + "\n", g.used


# ---------------------------------------------------------------------------------------------
# inputs.  Values are described by specs (JSON-able) and materialised fresh for every run.
class Adv:
    """Adversarial value: logs every dunder call in the shared LOG; behaviour by mode."""
    LOG: list = []

    def __init__(self, mode, val=0):
        self.mode, self.val = mode, val

    def _cmp(self, name, other, res):
        Adv.LOG.append(name)
        if self.mode == "raise":
            raise ValueError("adv")
        if self.mode == "never":      # equal to nothing, not even to itself
            return name == "__ne__"
        if self.mode == "notimpl":
            return NotImplemented
        if self.mode == "nonbool":
            return "x" if res else ""
        return res

    def _ov(self, other):
        return other.val if isinstance(other, Adv) else other

    def __eq__(self, other):
        return self._cmp("__eq__", other, self.val == self._ov(other))

    def __ne__(self, other):
        return self._cmp("__ne__", other, self.val != self._ov(other))

    def __lt__(self, other):
        return self._cmp("__lt__", other, self.val < self._ov(other))

    def __hash__(self):
        return 7

    def __repr__(self):
        return f"Adv({self.mode},{self.val})"


class AdvFull(Adv):
    def __le__(self, other):
        return self._cmp("__le__", other, self.val <= self._ov(other))

    def __gt__(self, other):
        return self._cmp("__gt__", other, self.val > self._ov(other))

    def __ge__(self, other):
        return self._cmp("__ge__", other, self.val >= self._ov(other))

    def __bool__(self):
        Adv.LOG.append("__bool__")
        if self.mode == "raise":
            raise ValueError("adv")
        return bool(self.val)

    def __len__(self):
        Adv.LOG.append("__len__")
        return 2

    def __contains__(self, item):
        Adv.LOG.append("__contains__")
        if self.mode == "raise":
            raise ValueError("adv")
        return item == self.val

    def __add__(self, other):
        Adv.LOG.append("__add__")
        return self

    def __radd__(self, other):
        Adv.LOG.append("__radd__")
        return self

    def startswith(self, p):
        Adv.LOG.append("startswith")
        return bool(self.val)

    def endswith(self, p):
        Adv.LOG.append("endswith")
        return not self.val

    def isalnum(self):
        Adv.LOG.append("isalnum")
        return bool(self.val)

    __hash__ = Adv.__hash__


class LoggingStr(str):
    def upper(self):
        Adv.LOG.append("str.upper")
        return str.upper(self)

    def lower(self):
        Adv.LOG.append("str.lower")
        return str.lower(self)

    def isalnum(self):
        Adv.LOG.append("str.isalnum")
        return str.isalnum(self)


def _op_methods(base, tag):
    """Overrides for a str/bytes subclass: every user-visible method logs its call; `+` optionally raises."""
    def __add__(self, other):
        Adv.LOG.append(tag + ".__add__")
        if getattr(self, "mode", "plain") == "raise":
            raise ArithmeticError("adversarial +")
        return base.__add__(self, other)

    def __radd__(self, other):
        Adv.LOG.append(tag + ".__radd__")
        if getattr(self, "mode", "plain") == "raise":
            raise ArithmeticError("adversarial +")
        return other + base.__getitem__(self, slice(None))

    def upper(self):
        Adv.LOG.append(tag + ".upper")
        return base.upper(self)

    def lower(self):
        Adv.LOG.append(tag + ".lower")
        return base.lower(self)

    def isalnum(self):
        Adv.LOG.append(tag + ".isalnum")
        return base.isalnum(self)

    def islower(self):
        Adv.LOG.append(tag + ".islower")
        return base.islower(self)

    def isupper(self):
        Adv.LOG.append(tag + ".isupper")
        return base.isupper(self)

    def isdigit(self):
        Adv.LOG.append(tag + ".isdigit")
        return base.isdigit(self)

    def __len__(self):
        Adv.LOG.append(tag + ".__len__")
        return base.__len__(self)

    def __str__(self):
        Adv.LOG.append(tag + ".__str__")
        return "opstr"

    return {k: v for k, v in locals().items() if callable(v) and k not in ("base",)}


class OpStr(str):
    """str subclass overloading + and the predicates/case methods (logging; mode 'raise': + raises)."""
    mode = "plain"
    locals().update(_op_methods(str, "OpStr"))


class OpBytes(bytes):
    mode = "plain"
    locals().update({k: v for k, v in _op_methods(bytes, "OpBytes").items() if k != "__str__"})


class OpStrSW(OpStr):
    """... that also overrides startswith/endswith (the subject calls these; the probes must not)."""

    def startswith(self, *a):
        Adv.LOG.append("OpStrSW.startswith")
        return str.startswith(self, *a)

    def endswith(self, *a):
        Adv.LOG.append("OpStrSW.endswith")
        return str.endswith(self, *a)


def make_op(kind, val, mode):
    cls = {"opstr": OpStr, "opstrsw": OpStrSW, "opbytes": OpBytes}[kind]
    v = cls(val.encode() if kind == "opbytes" else val)
    if mode == "raise":
        v.mode = "raise"
    return v


OPKINDS = ("opstr", "opstrsw", "opbytes")

class PeekStream:
    """One-shot iterator with a NON-consuming membership test (a look-ahead token stream)."""

    def __init__(self, items):
        self.items, self.pos = list(items), 0

    def __iter__(self):
        return self

    def __next__(self):
        if self.pos >= len(self.items):
            raise StopIteration
        self.pos += 1
        return self.items[self.pos - 1]

    def __contains__(self, x):
        Adv.LOG.append("PeekStream.__contains__")
        return any(x == y for y in self.items[self.pos:])


class EatStream(PeekStream):
    """One-shot iterator whose membership test consumes the elements it looks at."""

    def __contains__(self, x):
        Adv.LOG.append("EatStream.__contains__")
        for y in self:
            if y == x:
                return True
        return False


class DictAttr:
    """Serves attributes from a dict; unknown names raise KeyError, not AttributeError."""

    def __init__(self):
        object.__setattr__(self, "_d", {"isalnum": lambda: True, "isdigit": lambda: False, "startswith": lambda p: True,
                                        "endswith": lambda p: False, "attr": 3})

    def __getattr__(self, n):
        Adv.LOG.append("DictAttr.__getattr__:" + ("known" if n in self._d else "unknown"))
        return self._d[n]

    def __setattr__(self, n, v):
        self._d[n] = v

    def __eq__(self, other):
        return self is other

    __hash__ = object.__hash__


class VivNS:
    """Auto-vivifying namespace: truthy through __len__ only (no class-level __bool__); any unknown attribute,
    dunders included, is created on access by __getattr__ (a visible side effect)."""

    def __init__(self):
        object.__setattr__(self, "children", {})

    def __len__(self):
        Adv.LOG.append("VivNS.__len__")
        return 1 + len(self.children)

    def __getattr__(self, name):
        Adv.LOG.append("VivNS.__getattr__:" + name)
        return self.children.setdefault(name, VivNS())

    def __eq__(self, other):
        return self is other

    __hash__ = object.__hash__


class AttrObj:
    """Keeps attributes under another name; reading has effects the subject does not trigger by storing."""

    def __setattr__(self, name, value):
        Adv.LOG.append("AttrObj.__setattr__")
        object.__setattr__(self, "_kept_" + name, value)

    def __getattr__(self, name):
        Adv.LOG.append("AttrObj.__getattr__")
        raise AttributeError(name)

    def __eq__(self, other):
        return self is other

    __hash__ = object.__hash__


NUMS = [0, 1, 2, 3, -1, 5, 10, 2**53 + 1, -(2**53) - 1, 0.5, -0.0, 1e308, "nan", "inf", "-inf", True,
        0.1, 0.2, 0.3, 1e-12, 5e-324, -1e-300, 0.30000000000000004]
STRS = ["", "a", "ab", "abc", "A1", " ", "7", "b" * 12, "ß", "Ab c"]


def gen_num(rng):
    return rng.choice(NUMS[:7] * 3 + NUMS)


def gen_input(rng) -> dict:
    r = rng
    lk = r.choice(["list", "list", "list", "tuple", "iter", "gen", "empty", "peek"])
    ln = 0 if lk == "empty" else r.choice([0, 1, 2, 3, 4])
    items = [r.choice([0, 1, 2, 3, -1, 5, 2**53 + 1, "nan", 1.5]) for _ in range(ln)]
    if ln and r.random() < 0.12:   # objects with partial / raising comparison protocols as elements
        items[r.randrange(ln)] = {"adv": r.choice(["adv", "advfull"]), "mode": r.choice(["plain", "raise", "notimpl"]), "val": r.choice([0, 1, 2])}
    ok = r.choice(["none", "int", "adv", "adv", "advfull", "advfull", "str", "lstr", "nan", "list", "iter", "big", "tuple", "bytes", "set",
                   "opstr", "opstr", "opstrsw", "opbytes", "peek", "peek", "attrobj", "complex", "big", "dictattr", "dictattr", "vivns", "vivns"])
    o = {"k": ok}
    if ok in ("adv", "advfull"):
        o["mode"] = r.choice(["plain", "plain", "raise", "notimpl", "nonbool", "never"])
        o["val"] = r.choice([0, 1, 2, 3])
    elif ok == "int":
        o["v"] = r.choice([0, 1, 2, 3, 5])
    elif ok in ("str", "lstr"):
        o["v"] = r.choice(STRS)
    elif ok in OPKINDS:
        o["v"] = r.choice(STRS[:8])
        o["mode"] = r.choice(["plain", "raise"])
    elif ok in ("list", "iter", "tuple", "set", "peek", "eat"):
        o["v"] = [r.choice([0, 1, 2, 3]) for _ in range(r.choice([0, 1, 3]))]
    sk = r.choice(["str", "str", "str", "str", "bytes", "lstr", "opstr", "opstr", "opstrsw", "opbytes"])
    sv = {"k": sk, "v": r.choice(STRS[:8] if sk in OPKINDS else STRS)}
    if sk in OPKINDS:
        sv["mode"] = r.choice(["plain", "raise"])
    return {"a": gen_num(r), "b": gen_num(r), "s": sv, "l": {"k": lk, "v": items}, "o": o}


def _num(v):
    if v == "nan":
        return math.nan
    if v == "inf":
        return math.inf
    if v == "-inf":
        return -math.inf
    return v


def materialise(spec: dict):
    """Fresh argument tuple (a, b, s, l, o) and the list of one-shot iterators among them."""
    a, b = _num(spec["a"]), _num(spec["b"])
    sk = spec["s"]
    if sk["k"] in OPKINDS:
        s = make_op(sk["k"], sk["v"], sk.get("mode", "plain"))
    else:
        s = sk["v"] if sk["k"] == "str" else (sk["v"].encode() if sk["k"] == "bytes" else LoggingStr(sk["v"]))
    items = [(Adv if v["adv"] == "adv" else AdvFull)(v["mode"], v["val"]) if isinstance(v, dict) else _num(v)
             for v in spec["l"]["v"]]
    iters = []
    lk = spec["l"]["k"]
    if lk in ("list", "empty"):
        l = list(items)
    elif lk == "tuple":
        l = tuple(items)
    elif lk == "iter":
        l = iter(items)
        iters.append(l)
    elif lk in ("peek", "eat"):
        l = (PeekStream if lk == "peek" else EatStream)(items)
        iters.append(l)
    else:
        l = (v for v in items)
        iters.append(l)
    os_ = spec["o"]
    k = os_["k"]
    if k == "none":
        o = None
    elif k == "int":
        o = os_["v"]
    elif k == "adv":
        o = Adv(os_["mode"], os_["val"])
    elif k == "advfull":
        o = AdvFull(os_["mode"], os_["val"])
    elif k == "str":
        o = os_["v"]
    elif k == "lstr":
        o = LoggingStr(os_["v"])
    elif k in OPKINDS:
        o = make_op(k, os_["v"], os_.get("mode", "plain"))
    elif k == "nan":
        o = math.nan
    elif k == "list":
        o = list(os_["v"])
    elif k == "tuple":
        o = tuple(os_["v"])
    elif k == "set":
        o = set(os_["v"])
    elif k == "bytes":
        o = b"ab"
    elif k == "iter":
        o = iter(list(os_["v"]))
        iters.append(o)
    elif k in ("peek", "eat"):
        o = (PeekStream if k == "peek" else EatStream)(os_["v"])
        iters.append(o)
    elif k == "attrobj":
        o = AttrObj()
    elif k == "dictattr":
        o = DictAttr()
    elif k == "vivns":
        o = VivNS()
    elif k == "complex":
        o = complex(1, 2)
    else:
        o = 10**400
    return (a, b, s, l, o), iters


# Hand-written seeds: shapes that broke the unrepaired code (kept in corpus/C01.json too).
SEED_PROGRAMS = [
    # membership tests on one-shot iterators that define their own __contains__; raising comprehensions;
    # attribute stores on an object that keeps them elsewhere
    PRELUDE + '''def f(a, b, s, l, o):
    z = 0
    if a in l:
        z += 1
    if b not in o:
        z += 2
    try:
        z += len([1 // q for q in (2, 1, 0)])
    except ZeroDivisionError:
        z += 4
    try:
        y = {q: l[q] for q in range(5) if 1 // (q + 1)}
    except (TypeError, IndexError):
        z += 8
    try:
        o.attr = z
    except AttributeError:
        z += 16
    return z
''',
    # seeding: the startswith/endswith pattern matched in its plain form (all metric subsets, incl. none and
    # LINE only); operands may be str/bytes subclasses overloading + and the string methods
    PRELUDE + '''def f(a, b, s, l, o):
    if s.startswith(o):
        return 1
    if o.endswith(s):
        return 2
    if s.endswith("b"):
        return 3
    if o.startswith("a"):
        return 4
    if s.islower():
        return 5
    if o.isalnum():
        return 6
    return 0
''',
    # checked coverage: restoring stores of a multi-variable inlined comprehension without SWAP
    PRELUDE + '''def f(a, b, s, l, o):
    r = [(u, v) for u in l for v in l]
    u = 1
    v = 2
    q = [w for w in l]
    del w
    return r, u, v, q
''',
    # checked coverage: BINARY_SLICE returned the container instead of the slice
    PRELUDE + '''def f(a, b, s, l, o):
    x = l[1:3]
    l[0:1] = [a, b]
    y = s[1:]
    del l[2:]
    return (x, y, l)
''',
    # placement: TryEnd in front of the compare (DESIGN sec. 10)
    PRELUDE + '''def f(a, b, s, l, o):
    for i in l:
        try:
            b += i
        finally:
            b -= 1
        if b > 3:
            break
    return b
''',
    PRELUDE + '''def f(a, b, s, l, o):
    y = 0
    try:
        if a:
            y = 1 / a
    except ZeroDivisionError:
        if a is None:
            y = 2
    finally:
        if a == 3:
            y = 5
    return y
''',
    # seeding: startswith with tuple / foreign receiver
    PRELUDE + '''def f(a, b, s, l, o):
    if s.startswith(("a", "b")):
        return 1
    if o.endswith("a"):
        return 2
    return 0
''',
    PRELUDE + '''def f(a, b, s, l, o):
    z = 0
    with Ctx(True) as cv:
        z = a // b
        if z > cv:
            return z
    for i in l:
        if i in (1, 2) or o is None:
            z += i
        elif a < i <= b:
            continue
        else:
            break
    else:
        z -= 1
    return z
''',
]
