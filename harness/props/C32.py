"""C32 — non-terminating tests time out without polluting later executions (PARTIAL).

T   static proofs over Models/C32.v (interleaving model of the tracer's thread handling).
K2  deterministic scheduler: a real ExecutionTracer (behind the real InstrumentationExecutionTracer proxy) is
    driven from several REAL threads under strict turn-taking, following generated schedules (random
    ones and executor-shaped ones with abandoned threads); per-action "raised TracingAbortedException",
    final per-thread status/enabled/trace, the current-thread identity and harvested results are replayed
    by the Coq model (vm_compute).
S   real TestCaseExecutor sessions (harness/props/_c32_exec.py, own process): looping test cases
    (instrumented pure-Python loop, loop with sleeps, long C-level sleep) interleaved with terminating
    ones under a 1 s timeout.  Oracle = the property: every looping test is reported as a timeout within
    timeout + maximum timeout + grace; no later result contains a line, code object, branch or exception
    that the same test does not produce on a fresh executor.  (A later result that LOSES events because
    the abandoned thread's __exit__ stopped the tracer is counted and reported in the evidence, it is not
    a violation of the property as stated.)
"""
from __future__ import annotations

import concurrent.futures as cf
import json
import os
import queue
import signal
import subprocess
import sys
import threading
from pathlib import Path

import vlib
from vlib import cZ, cbool, clist, cnat, copt

SRC = ["src/pynguin/testcase/execution.py", "src/pynguin/instrumentation/tracer.py"]
GRACE = 30.0     # seconds of slack on top of timeout + maximum timeout (loaded machines)


# ------------------------------------------------------------------------------------------------
# schedules
def gen_random_schedule(rng):
    n = rng.choice([1, 2, 2, 3, 4])
    acts = []
    ev = [0]

    def fresh():
        ev[0] += 1
        return ev[0]

    for _ in range(rng.choice([3, 6, 10, 16, 24])):
        t = rng.randrange(n)
        k = rng.random()
        if k < 0.14:
            acts.append(("Init", t))
        elif k < 0.28:
            acts.append(("Enter", t))
        elif k < 0.50:
            acts.append(("Probe", t, fresh()))
        elif k < 0.55:
            acts.append(("HookBegin", t))
        elif k < 0.60:
            acts.append(("HookEnd", t, PRED + fresh()))
        elif k < 0.66:
            acts.append(("Check", t))
        elif k < 0.72:
            acts.append(("Disable", t))
        elif k < 0.78:
            acts.append(("Enable", t))
        elif k < 0.88:
            acts.append(("Exit", t))
        elif k < 0.94:
            acts.append(("Stop",))
        else:
            acts.append(("Harvest", t))
    return n, acts


def gen_executor_schedule(rng):
    """What a sequence of TestCaseExecutor.execute calls produces: test k runs in thread k; the main thread
    either harvests a finished thread or stops and abandons it; abandoned threads keep acting later."""
    n = rng.choice([2, 3, 4, 5])
    acts = []
    ev = [0]
    pending = {}          # zombie tid -> remaining program

    def fresh():
        ev[0] += 1
        return ev[0]

    def body(t, length):
        prog = []
        for _ in range(length):
            k = rng.random()
            if k < 0.45:
                prog.append(("Probe", t, fresh()))
            elif k < 0.62:       # a predicate callback: other threads (and the main thread) may act in between
                prog += [("HookBegin", t), ("HookEnd", t, PRED + fresh())]
            elif k < 0.75:
                prog.append(("Check", t))
            elif k < 0.88:
                prog += [("Disable", t), ("Probe", t, fresh()), ("Enable", t)]
            else:
                prog.append(("Probe", t, fresh()))
        return prog

    def zombies_move(p):
        for z in list(pending):
            while pending[z] and rng.random() < p:
                acts.append(pending[z].pop(0))
            if not pending[z]:
                del pending[z]

    for t in range(n):
        prog = [("Init", t), ("Enter", t)] + body(t, rng.choice([1, 3, 6])) + [("Exit", t)]
        loops = rng.random() < 0.5
        cut = rng.randrange(1, len(prog)) if loops else len(prog)
        for a in prog[:cut]:
            acts.append(a)
            zombies_move(0.25)
        if loops:
            acts.append(("Stop",))
            zombies_move(0.3)
            acts.append(("Harvest", t))
            pending[t] = prog[cut:] + ([("Probe", t, fresh())] if rng.random() < 0.3 else [])
        else:
            acts.append(("Harvest", t))
    zombies_move(0.9)
    return n, acts


PRED = 1000000      # events >= PRED are predicate events (Models/C32.v is_pred)

# abandoned inside a predicate callback, resumes after a later test was harvested (Proofs/C32.v inhook_schedule)
INHOOK = (3, [("Init", 1), ("Enter", 1), ("Probe", 1, 10), ("HookBegin", 1), ("Stop",), ("Harvest", 1),
              ("Init", 2), ("Enter", 2), ("Probe", 2, 20), ("Exit", 2), ("Harvest", 2),
              ("HookEnd", 1, PRED + 7), ("Probe", 1, 11), ("Exit", 1)])

WAKE = (3, [("Init", 1), ("Enter", 1), ("Probe", 1, 10), ("Stop",), ("Harvest", 1), ("Init", 2), ("Enter", 2),
            ("Probe", 2, 20), ("Probe", 1, 11), ("Exit", 1), ("Probe", 2, 21), ("Exit", 2), ("Harvest", 2)])


# ------------------------------------------------------------------------------------------------
# deterministic scheduler over real threads and a real tracer
class _Worker(threading.Thread):
    def __init__(self, tracer, abort_exc):
        super().__init__(daemon=True)
        self.tracer, self.abort_exc = tracer, abort_exc
        self.q, self.ack = queue.Queue(), queue.Queue()
        self.status = "Fresh"
        self.view = ([], [], True)
        self.result = None
        self.in_hook = False

    def run(self):
        while True:
            cmd = self.q.get()
            if cmd is None:
                return
            raised = False
            try:
                raised = self.do(cmd)
            except BaseException as e:  # noqa: BLE001 - report, never die silently
                self.ack.put(("error", repr(e)))
                continue
            self.snapshot()
            self.ack.put(("ok", raised))

    def snapshot(self):
        tr = self.tracer.get_trace()
        self.view = ([int(x) for x in tr.covered_line_ids], [int(x) for x in tr.executed_predicates],
                     not self.tracer.is_disabled())

    def yield_turn(self):
        """Called from inside the operator of a predicate callback (tracing is temporarily disabled): give
        the turn back to the scheduler and block until this thread's HookEnd is scheduled."""
        self.in_hook = True
        self.status = "InHook"
        self.snapshot()
        self.ack.put(("ok", False))          # answers the HookBegin command
        while True:
            cmd = self.q.get()               # the scheduler sends nothing but HookEnd to a thread inside a hook
            if cmd is None:
                raise SystemExit
            if cmd[0] == "HookEnd":
                self.pending_pred = cmd[2]
                break
            self.ack.put(("ok", False))      # (defensive) any other command is a no-op here
        self.in_hook = False
        self.status = "Live"

    def do(self, cmd):
        """Program-order guards mirror the control flow of TestCaseExecutor._execute_test_case: a thread
        initialises once, acts only while it runs its test, and after TracingAbortedException only leaves
        the with-block."""
        kind = cmd[0]
        tr = self.tracer
        if kind == "Init":
            if self.status == "Fresh":
                tr.init_trace()
                self.status = "Live"
            return False
        if kind == "HookEnd":
            return False                      # not inside a hook: nothing to complete
        if kind == "HookBegin":
            if self.status != "Live":
                return False
            from pynguin.instrumentation.tracer import PynguinCompare

            worker = self

            class Operand:
                """__eq__ is the code under test's operator: it yields the turn, once."""
                def __init__(self):
                    self.pred = None
                    self.yielded = False

                def __eq__(self, other):
                    if not self.yielded:
                        self.yielded = True
                        worker.yield_turn()
                    return True

                __hash__ = None

            a, b = Operand(), Operand()
            b.yielded = True
            holder = _PredId(self)
            try:
                tr.executed_compare_predicate(a, b, holder, PynguinCompare.EQ)
            except self.abort_exc:
                self.status = "Aborting"
                return True
            return False
        if kind == "Exit":
            if self.status == "Live":
                tr.__exit__(None, None, None)
                self.status = "Finished"
                self.result = [int(x) for x in tr.get_trace().covered_line_ids]
            elif self.status == "Aborting":
                tr.__exit__(self.abort_exc, None, None)
                self.status = "Done"
            return False
        if self.status != "Live":
            return False
        try:
            if kind == "Enter":
                tr.__enter__()
            elif kind == "Probe":
                tr.track_line_visit(cmd[2])
            elif kind == "Check":
                tr.check()
            elif kind == "Disable":
                tr.disable()
            elif kind == "Enable":
                tr.enable()
        except self.abort_exc:
            self.status = "Aborting"
            return True
        return False


class _PredId:
    """Predicate identifier whose value is only known when the scheduler issues HookEnd.  The real hook uses
    the identifier (as a dict key) only after the operator returned; the value is frozen at that first use."""
    def __init__(self, worker):
        self.worker = worker
        self.value = None

    def _v(self):
        if self.value is None:
            self.value = self.worker.pending_pred
        return self.value

    def __hash__(self):
        return hash(self._v())

    def __eq__(self, other):
        return self._v() == (other._v() if isinstance(other, _PredId) else other)

    def __int__(self):
        return self._v()


STEP_DEADLINE = 20.0     # seconds one scheduled action may take (they take microseconds)


class SchedHang(Exception):
    """A scheduled call of a tracer method did not return: a thread (or the main thread's stop()) is blocked."""
    def __init__(self, action, index):
        super().__init__(f"action {index} {action} did not return within {STEP_DEADLINE} s")
        self.action, self.index = action, index


def run_schedule(n, acts, imp):
    from pynguin.instrumentation.tracer import ExecutionTracer, InstrumentationExecutionTracer
    from pynguin.utils.exceptions import TracingAbortedException

    inner = ExecutionTracer()
    tracer = InstrumentationExecutionTracer(inner)
    if imp:                                   # import trace, recorded by the main thread as _load_sut does
        with tracer:
            for e in imp:
                tracer.track_line_visit(e)
        tracer.store_import_trace()
    workers = [_Worker(tracer, TracingAbortedException) for _ in range(n)]
    for w in workers:
        w.start()
    raised, results = [], {}
    try:
        for idx, a in enumerate(acts):
            if a[0] == "Stop":
                # the main thread's stop() must return whatever the other threads are doing
                th = threading.Thread(target=tracer.stop, daemon=True)
                th.start()
                th.join(STEP_DEADLINE)
                if th.is_alive():
                    raise SchedHang(a, idx)
                raised.append(False)
            elif a[0] == "Harvest":
                t = a[1]
                if t not in results:      # TestCaseExecutor.execute: result from the queue, else timeout
                    results[t] = ("ROk", list(workers[t].result)) if workers[t].status == "Finished" else ("RTimeout",)
                raised.append(False)
            else:
                w = workers[a[1]]
                w.q.put(a)
                try:
                    st, val = w.ack.get(timeout=STEP_DEADLINE)
                except queue.Empty:
                    raise SchedHang(a, idx) from None
                if st == "error":
                    raise RuntimeError(f"action {a} failed in the worker thread: {val}")
                raised.append(bool(val))
        ident = inner._current_thread_identifier
        cur = None
        if ident is not None:
            cur = next((i for i, w in enumerate(workers) if w.ident == ident), -1)
        codes = {"Fresh": 0, "Live": 1, "Aborting": 2, "Finished": 3, "Done": 4}
        codes["InHook"] = 5
        threads = [(codes[w.status], w.view[2], w.view[0], list(w.view[1]), results.get(i))
                   for i, w in enumerate(workers)]
    finally:
        for w in workers:
            w.q.put(None)
    return {"raised": raised, "current": cur, "threads": threads}


def detect_guard():
    """Which __exit__ does the code have?  guard=False: stop() unconditionally (a foreign thread's exit
    revokes the current thread)."""
    o = run_schedule(WAKE[0], WAKE[1], [7])
    return not o["raised"][10]


def c_action(a):
    if a[0] == "Stop":
        return "C32.Stop"
    if a[0] in ("Probe", "HookEnd"):
        return f"C32.{a[0]} {cnat(a[1])} {cZ(a[2])}"
    return f"C32.{a[0]} {cnat(a[1])}"


def c_result(r):
    if r is None:
        return "None"
    if r[0] == "RTimeout":
        return "(Some C32.RTimeout)"
    return f"(Some (C32.ROk {clist(cZ(x) for x in r[1])}))"


def c_case(guard, imp, acts, o):
    threads = clist(f"({cZ(c)}, {cbool(en)}, {clist(cZ(x) for x in tr)}, {clist(cZ(x) for x in pr)}, {c_result(r)})"
                    for c, en, tr, pr, r in o["threads"])
    cur = copt(None if o["current"] is None else cnat(max(o["current"], 0) if o["current"] >= 0 else 4999))
    return ("{| C32.c_guard := %s; C32.c_imp := %s; C32.c_sched := %s; C32.c_raised := %s; C32.c_current := %s; "
            "C32.c_threads := %s |}" % (cbool(guard), clist(cZ(x) for x in imp), clist(c_action(a) for a in acts),
                                        clist(cbool(b) for b in o["raised"]), cur, threads))


def oracle_schedule(n, acts, imp, o):
    """The property on one scheduled run, independent of the Coq model: nothing in a thread's trace or in
    a harvested result that this thread did not probe itself (or the import trace)."""
    own = {t: set(imp) for t in range(n)}
    for a in acts:
        if a[0] in ("Probe", "HookEnd"):
            own[a[1]].add(a[2])
    for t, (_, _, tr, pr, res) in enumerate(o["threads"]):
        extra = [x for x in list(tr) + list(pr) if x not in own[t]]
        if extra:
            return ("pollution:thread-trace", f"trace of thread {t} holds events {extra} probed by other threads")
        if res and res[0] == "ROk":
            extra = [x for x in res[1] if x not in own[t]]
            if extra:
                return ("pollution:result", f"result of test {t} holds events {extra} probed by other threads")
    return None


# ------------------------------------------------------------------------------------------------
# real executor sessions
def run_session(seed, n, base: Path, deadline=300):
    """One executor session in a process group of its own; a session that has not returned after `deadline`
    seconds (healthy ones take 25-80 s) is killed and reported: execute() hangs."""
    d = base / f"s{seed}"
    # unequal limits (maximum 2 s, 1 s per statement) so that the two join timeouts can be told apart; every
    # session starts with a test that is abandoned after logging.disable (no older abandoned thread exists that
    # could reset the level by accident), then one that is abandoned inside a sleeping __eq__ (predicate callback)
    sc = {"dir": str(d), "seed": seed, "n": n, "max_timeout": 2, "per_stmt": 1,
          "first": ["mute_block", "logcheck", "spin_eq", "quick1", "other_short", "busy", "logcheck"]}
    wd = deadline
    p = subprocess.Popen([sys.executable, str(Path(__file__).with_name("_c32_exec.py")), json.dumps(sc)],
                         stdout=subprocess.PIPE, stderr=subprocess.PIPE, text=True, env=vlib.impl_env(),
                         start_new_session=True)
    try:
        out, err = p.communicate(timeout=wd)
    except subprocess.TimeoutExpired:
        try:
            os.killpg(p.pid, signal.SIGKILL)
        except ProcessLookupError:
            pass
        p.communicate()
        return None, f"no return within {wd} s"
    finally:
        try:
            os.killpg(p.pid, signal.SIGKILL)
        except (ProcessLookupError, PermissionError):
            pass
    for ln in out.splitlines():
        if ln.startswith("RESULT "):
            return json.loads(ln[7:]), ""
    return None, "driver-crash: " + (err or out)[-1500:]


FIELDS = ["lines", "code_objects", "predicates", "true", "false", "true_zero", "false_zero"]


def oracle_session(log):
    """Returns (failures, observations).  failures: list of (signature, message, detail)."""
    fails, lost = [], 0
    max_t, per = log["max_timeout"], log["per_stmt"]
    for i, r in enumerate(log["session"]):
        tmo = min(max_t, per * r["size"])
        # the two waits of execute, as passed to Thread.join (model: exec_duration tmo maxT)
        j = r.get("joins", [])
        if j and j[0] != tmo:
            fails.append((f"timeout:first-join:{r['name']}", f"execute waited {j[0]} s for a {r['size']}-statement test; "
                          f"min(maximum={max_t}, per_statement={per} * size) = {tmo}", r))
        if len(j) > 1 and (j[1] is None or j[1] > max_t):
            fails.append((f"timeout:grace-join-exceeds-maximum:{r['name']}", f"after the timeout execute waits {j[1]} s more for "
                          f"the abandoned thread of a {r['size']}-statement test; the bound is maximum_test_execution_timeout "
                          f"= {max_t} s (timeout reported after up to {tmo}+{j[1]} s instead of {tmo}+{max_t} s)", r))
        elif len(j) > 1 and j[1] != max_t:
            fails.append((f"timeout:grace-join:{r['name']}", f"grace join of {j[1]} s, expected {max_t} s", r))
        # a returned result must never change afterwards (abandoned threads that wake up later)
        fin = r.get("final")
        if fin is not None:
            for f in FIELDS + ["exceptions", "timeout"]:
                if fin[f] != r[f]:
                    extra = [x for x in fin[f] if x not in r[f]] if isinstance(fin[f], list) else fin[f]
                    fails.append((f"pollution:late:{f}:{r['name']}", f"the result of execution {i} ({r['name']}) changed after it "
                                  f"was returned: {f} gained {extra} (an abandoned execution wrote into it)",
                                  {"returned": r[f], "at_end_of_session": fin[f], "execution": i}))
                    break
        if r["kind"] == "looping":
            if r["timeout"] and r["main_stops"] < 1:
                lost += 1            # aborted early by a foreign __exit__: still reported as a timeout
            if not r["timeout"]:
                fails.append((f"timeout:not-reported:{r['name']}", f"looping test {r['name']} was not reported as a timeout", r))
            if r["wall"] > tmo + max_t + GRACE:
                fails.append((f"timeout:late:{r['name']}", f"timeout of {r['name']} reported after {r['wall']} s "
                              f"(bound {tmo}+{max_t} s, grace {GRACE} s)", r))
            if r["lines"] or r["code_objects"] or r["true"] or r["false"] or r["exceptions"] or r["predicates"]:
                fails.append((f"timeout:result-not-empty:{r['name']}", "timed-out result carries trace data", r))
            continue
        ref = log["reference"][r["name"]]
        if r["timeout"]:
            lost += 1                # aborted by a foreign __exit__ (or starved): nothing added
            if r["lines"] or r["code_objects"] or r["exceptions"]:
                fails.append((f"pollution:timeout-result:{r['name']}", "timed-out result carries trace data", r))
            continue
        for f in FIELDS:
            extra = sorted(set(r[f]) - set(ref[f]))
            if extra:
                fails.append((f"pollution:{f}:{r['name']}", f"execution {i} ({r['name']}) reports {f} {extra} that the test "
                              "does not produce on a fresh executor (abandoned executions precede it)", {"got": r, "reference": ref}))
        extra = [e for e in r["exceptions"] if e not in ref["exceptions"]]
        if extra:
            fails.append((f"pollution:exceptions:{r['name']}", f"execution {i} ({r['name']}) reports exceptions {extra} not in "
                          "the reference", {"got": r, "reference": ref}))
    return fails, lost


# ------------------------------------------------------------------------------------------------
def run(ctx: vlib.Ctx):
    vlib.setup_impl_path()
    ctx.digest_sources(SRC)
    ctx.coq_static()
    if not ctx.quick:
        ctx.coqchk()
    corpus = json.loads((vlib.VERIF / "corpus" / "C32.json").read_text())

    base = ctx.mkscratch() / "sessions"
    base.mkdir(parents=True, exist_ok=True)
    seeds = list(corpus["session_seeds"]) + [ctx.rng.randrange(10 ** 6) for _ in range(2 if ctx.quick else 14)]
    n_exec = 14 if ctx.quick else 36
    pool = cf.ThreadPoolExecutor(max_workers=4 if ctx.quick else 8)
    futs = [(sd, pool.submit(run_session, sd, n_exec, base, 300 if ctx.quick else 600)) for sd in seeds]

    # --- K2: scheduled real threads ---------------------------------------------------------------
    try:
        guard = detect_guard()
    except SchedHang as h:
        guard = False
        ctx.log(f"scheduler: {h} while probing the __exit__ variant")
    ctx.notes.append(f"ExecutionTracer.__exit__ variant detected: {'guarded (stops only its own thread)' if guard else 'unconditional stop()'}")
    scheds = [(c["n"], [tuple(a) for a in c["sched"]], c["imp"]) for c in corpus["schedules"]]
    scheds.append((WAKE[0], WAKE[1], [7]))
    scheds.append((INHOOK[0], INHOOK[1], [7]))
    for i in range(400 if ctx.quick else 6000):
        n, acts = gen_executor_schedule(ctx.rng) if i % 2 == 0 else gen_random_schedule(ctx.rng)
        imp = ctx.rng.choice([[], [], [1001], [1001, 1002, 1003]])
        scheds.append((n, acts, imp))
    cases, obs, n_or = [], [], 0
    for n, acts, imp in scheds:
        try:
            o = run_schedule(n, acts, imp)
        except SchedHang as h:
            n_or += 1
            ctx.log(f"scheduler: {h}; the scheduler leg is aborted")
            ctx.fail(f"sched:hang:{h.action[0]}", f"in a scheduled run on the real tracer, {h} (a call that must not block: an "
                     "abandoned thread inside a callback, or the main thread's stop(), waits for another thread)",
                     {"kind": "schedule", "n": n, "sched": [list(a) for a in acts[:h.index + 1]], "imp": imp})
            scheds = scheds[:len(obs)]
            break
        obs.append(o)
        cases.append(c_case(guard, imp, acts, o))
        n_abort = sum(o["raised"])
        ctx.case_seen((n, acts, imp), nontrivial=any(a[0] in ("Probe", "HookEnd") for a in acts))
        ctx.count("sched:threads:%d" % n)
        ctx.count("sched:aborts:%d" % min(n_abort, 4))
        ctx.count("sched:stops:%d" % min(sum(1 for a in acts if a[0] == "Stop"), 4))
        ctx.count("sched:hooks-completed:%d" % min(sum(len(t[3]) for t in o["threads"]), 4))
        r = oracle_schedule(n, acts, imp, o)
        if r:
            n_or += 1
            ctx.fail("sched:" + r[0], r[1], {"kind": "schedule", "n": n, "sched": [list(a) for a in acts], "imp": imp, "observed": o})
    if len(obs) > len(corpus["schedules"]):
        wake = obs[len(corpus["schedules"])]
        ctx.sample({"schedule": [list(a) for a in WAKE[1]], "observed": wake})
        ctx.cov["later_test_aborted_by_foreign_exit_in_scheduler"] = bool(wake["raised"][10])
    bad = ctx.run_cases("C32_sched", "From Verif Require Import Models.C32.", "C32.case", "C32.check_case", cases)
    if bad:
        ctx.leg("K2", ok=False, mismatches=len(bad))
        if n_or == 0:
            n, acts, imp = scheds[bad[0]]
            ctx.broken("correspondence:C32-model-vs-tracer",
                       "the interleaving model no longer reproduces the real ExecutionTracer driven by scheduled threads",
                       {"n": n, "sched": [list(a) for a in acts], "imp": imp, "observed": obs[bad[0]], "mismatching": len(bad)})
    elif bad is not None:
        ctx.leg("K2", ok=True, schedules=len(cases))

    # --- S: real executor sessions -----------------------------------------------------------------
    n_fail = lost_total = n_loop = n_term = 0
    proto_bad = []
    for sd, fut in futs:
        log, note = fut.result()
        if log is None and note.startswith("no return"):
            n_fail += 1
            ctx.log(f"session {sd}: {note}: HANG")
            ctx.fail("timeout:executor-hangs", f"executor session did not return ({note}; healthy sessions take 25-80 s)",
                     {"kind": "session", "seed": sd, "n": n_exec})
            continue
        if log is None:
            ctx.broken(f"driver:session-{sd}", "the executor session driver failed", {"seed": sd, "detail": note})
            continue
        fails, lost = oracle_session(log)
        lost_total += lost
        for r in log["session"]:
            ctx.case_seen(("exec", sd, r["name"], r["wall"]), nontrivial=True)
            ctx.count(f"exec:{r['kind']}:{r['name']}")
            if r["kind"] == "looping":
                n_loop += 1
                # abandoned (its thread is still alive when execute returns) without tracer.stop()
                if r["timeout"] and r["main_stops"] < 1 and r["new_alive"] > 0:
                    proto_bad.append({"seed": sd, "execution": r})
            else:
                n_term += 1
        for sig, msg, det in fails[:3]:
            n_fail += 1
            ctx.fail("exec:" + sig, msg, {"kind": "session", "seed": sd, "n": n_exec, "detail": det})
        ctx.log(f"session {sd}: {len(log['session'])} executions, {len(fails)} failures, {lost} later tests lost, "
                f"max wall {max(r['wall'] for r in log['session'])}")
    pool.shutdown()
    if proto_bad and n_fail == 0:
        ctx.broken("correspondence:C32-execute-protocol",
                   "TestCaseExecutor.execute reported a timeout without the main thread calling tracer.stop() "
                   "(the model's Stop action, premise of the abandoned-thread theorems)", {"first": proto_bad[0], "count": len(proto_bad)})
    ctx.cov["later_terminating_tests_lost_to_foreign_exit"] = lost_total
    ctx.leg("S", schedule_failures=n_or, session_failures=n_fail, looping_executions=n_loop, terminating_executions=n_term,
            later_tests_lost=lost_total)
    if lost_total:
        ctx.notes.append(f"{lost_total} terminating test executions were reported as timeouts because an abandoned thread's "
                         "__exit__ stopped the tracer (nothing was added to their results; outside the property's statement)")
    ctx.cov["rule"] = ("schedules: executor-shaped (tests run in their own thread, finished or abandoned by Stop, abandoned "
                       "threads keep acting) and fully random action lists over 1..5 real threads and a real tracer; non-trivial = "
                       "at least one probe; distinct = distinct schedules.  sessions: real TestCaseExecutor, 1 s timeout, 40% "
                       "looping tests (spin, spin with sleeps, long sleep) among 8 terminating ones")
    ctx.assumptions += [
        "threading.local is per-thread and a tracer callback runs to completion in its thread (turn-taking scheduler; GIL "
        "preemption inside a callback is not exercised)",
        "thread identifiers of simultaneously live threads are distinct (CPython)",
        "wall-clock bound checked with a grace period of %d s" % GRACE,
    ]
    ctx.cov["trusted_base"] += [
        "hand-written model Models/C32.v tied by the scheduled-thread correspondence (this run)",
        "harness/props/C32.py (scheduler, program-order guards of the worker threads, Harvest mirrors execute), _c32_exec.py",
    ]


def replay(ctx, path):
    vlib.setup_impl_path()
    d = json.loads(open(path).read())["replay"]
    if d.get("kind") == "schedule":
        acts = [tuple(a) for a in d["sched"]]
        o = run_schedule(d["n"], acts, d["imp"])
        print("implementation:", o)
        print("oracle:", oracle_schedule(d["n"], acts, d["imp"], o))
        print("model agrees:", ctx.coq_eval("From Verif Require Import Models.C32.",
                                            "C32.check_case " + c_case(detect_guard(), d["imp"], acts, o)))
        return 0
    log, note = run_session(d["seed"], d["n"], ctx.mkscratch())
    print(note or json.dumps(log["session"], indent=1))
    if log:
        print("oracle:", oracle_session(log)[0])
    return 0
