"""C05 — tracing keeps recording after an exception inside traced code.

T  static proofs (Properties/C05.v).
K1 the premise of the theorems ("the brackets restore the switch in a finally clause") is read off
   the source of temporarily_disable / temporarily_enable (ast) on every run.
K2 random event trees (callbacks whose operands run nested traced code and raise, nested
   temporarily_disable/enable blocks, the statement executor's _before/_after_statement_execution
   with observers) are replayed on the real tracer / executor; after every top-level event the
   switch, the covered lines and the executed predicates are compared with the Coq model.
S  direct oracle on the real pipeline: a generated module is instrumented through the import hook
   and test cases are executed by TestCaseExecutor; statements whose traced comparisons raise
   (caught by the subject) are followed by further statements; everything the follow-up statements
   cover when run alone must be covered in the combined test case, and the switch must be the same
   before and after every statement."""
from __future__ import annotations

import ast
import importlib
import json
import sys

import vlib
from vlib import cZ, cbool, clist, cpair

SRC = ["src/pynguin/instrumentation/tracer.py", "src/pynguin/testcase/execution.py"]
PRED_KINDS = ["bool", "eq", "in", "excmatch", "inp"]
TRACK_KINDS = ["prop", "getattr", "desc", "generic", "memory"]


# ---------------------------------------------------------------------------------------------
# K1: structure of the brackets, and of every other place where tracing is switched
SCAN = ["src/pynguin/instrumentation/tracer.py", "src/pynguin/testcase/execution.py",
        "src/pynguin/testcase/execution_observers.py"]
# functions that ARE the switch (primitives, delegates, (de)serialisation): not brackets
PRIMITIVES = {"enable", "disable", "state", "__init__", "__setstate__"}


def _is_switch(node) -> bool:
    """a call x.enable() / x.disable(), or an assignment to <...>.enabled"""
    if isinstance(node, ast.Call) and isinstance(node.func, ast.Attribute) and node.func.attr in ("enable", "disable"):
        # the receiver is a tracer: `self` (inside the tracer classes) or an expression naming one
        # (`self._tracer`, `executor.subject_properties.instrumentation_tracer`); not e.g. `logging.disable(..)`
        recv = ast.unparse(node.func.value)
        return recv == "self" or "tracer" in recv.lower()
    if isinstance(node, (ast.Assign, ast.AugAssign, ast.AnnAssign)):
        targets = node.targets if isinstance(node, ast.Assign) else [node.target]
        return any(isinstance(t, ast.Attribute) and t.attr == "enabled" for t in targets)
    return False


def _has_switch(stmts) -> bool:
    return any(_is_switch(n) for st in stmts for n in ast.walk(st))


def unbracketed_switches(fn: ast.FunctionDef):
    """Switch operations of `fn` that are neither inside a `finally` clause nor (possibly nested in
    an if) directly followed by a `try` whose `finally` clause switches back."""
    bad = []

    def visit(stmts, protected):
        for i, st in enumerate(stmts):
            nxt = stmts[i + 1] if i + 1 < len(stmts) else None
            prot = protected or (isinstance(nxt, ast.Try) and _has_switch(nxt.finalbody))
            if isinstance(st, (ast.FunctionDef, ast.AsyncFunctionDef, ast.ClassDef)):
                continue
            if isinstance(st, ast.Try):
                visit(st.body, False)
                for h in st.handlers:
                    visit(h.body, False)
                visit(st.orelse, False)
                visit(st.finalbody, True)
                continue
            blocks = [getattr(st, f) for f in ("body", "orelse") if isinstance(getattr(st, f, None), list)]
            if blocks:
                # the header expression of a compound statement
                for f in ("test", "iter", "items"):
                    h = getattr(st, f, None)
                    for n in ([h] if isinstance(h, ast.AST) else h or []):
                        if any(_is_switch(x) for x in ast.walk(n)) and not prot:
                            bad.append(st.lineno)
                for blk in blocks:
                    visit(blk, prot)
            elif any(_is_switch(n) for n in ast.walk(st)) and not prot:
                bad.append(st.lineno)

    visit(fn.body, False)
    return bad


def read_brackets(repo):
    """-> (brackets, stray): brackets = {"temporarily_disable": bool, "temporarily_enable": bool} (the
    statement after the `yield` is executed in a `finally` clause); stray = ["file:function:line"] for
    every other place that switches tracing off/on without restoring it in a `finally` clause."""
    brackets, stray = {}, []
    for rel in SCAN:
        path = repo / rel
        if not path.exists():
            continue
        tree = ast.parse(path.read_text())
        for node in ast.walk(tree):
            if not isinstance(node, (ast.FunctionDef, ast.AsyncFunctionDef)):
                continue
            if node.name in ("temporarily_disable", "temporarily_enable"):
                ok = False
                for t in ast.walk(node):
                    if isinstance(t, ast.Try) and t.finalbody:
                        has_yield = any(isinstance(y, ast.Yield) for b in t.body for y in ast.walk(b))
                        ok = ok or (has_yield and _has_switch(t.finalbody))
                brackets.setdefault(node.name, ok)
            if node.name in PRIMITIVES:
                continue
            own = [n for n in node.body]
            for ln in unbracketed_switches(node):
                stray.append(f"{rel.rsplit('/', 1)[-1]}:{node.name}:{ln}")
    return brackets, sorted(set(stray))


# ---------------------------------------------------------------------------------------------
# K2: event trees
def gen_ev(rng, depth, ids):
    c = rng.random()
    if depth >= 3 or c < 0.38:
        return ["Line", rng.randrange(ids)]
    n = rng.choice([0, 0, 1, 2, 3])
    if c < 0.70:
        kind = rng.choice(PRED_KINDS)
        if kind == "excmatch":
            return ["Pred", rng.randrange(ids), kind, [], False]
        # the auxiliary in-presence predicate swallows a failing membership test: never "raises"
        raises = rng.random() < 0.45 and kind != "inp"
        return ["Pred", rng.randrange(ids), kind, [gen_ev(rng, depth + 1, ids) for _ in range(n)], raises]
    if c < 0.88:
        kind = rng.choice(TRACK_KINDS)
        if kind in ("generic", "memory"):
            return ["Track", rng.randrange(ids), kind, [], False]
        return ["Track", rng.randrange(ids), kind, [gen_ev(rng, depth + 1, ids) for _ in range(n)], rng.random() < 0.45]
    if c < 0.94:
        return ["Dis", [gen_ev(rng, depth + 1, ids) for _ in range(n)], rng.random() < 0.4]
    return ["En", [gen_ev(rng, depth + 1, ids) for _ in range(n)], rng.random() < 0.4]


def gen_history(rng):
    ids = rng.choice([2, 4, 8])
    top = []
    for _ in range(rng.choice([1, 2, 4, 7, 10])):
        c = rng.random()
        if c < 0.2:
            n = rng.choice([0, 1, 2])
            top.append(["Stmt", [gen_ev(rng, 1, ids) for _ in range(n)],
                        [gen_ev(rng, 0, ids) for _ in range(rng.choice([0, 1, 2, 3]))],
                        [gen_ev(rng, 1, ids) for _ in range(n)]])
        else:
            top.append(gen_ev(rng, 0, ids))
    return {"enabled": rng.random() < 0.85, "top": top}


class Boom(Exception):
    pass


class BoomBase(BaseException):
    """what the subject raises and catches need not derive from Exception"""


def boom(tag, n_inner):
    """deterministic choice of the exception class of a raising event (replayable from the tree)"""
    return BoomBase if (tag + n_inner) % 3 == 0 else Boom


class Runner:
    """Replays an event tree on the real tracer (the harness plays the subject under test)."""

    def __init__(self):
        import libcst as cst
        import pynguin.testcase.testcase as tc
        from pynguin.instrumentation import PynguinCompare
        from pynguin.instrumentation.tracer import SubjectProperties
        from pynguin.testcase.execution import TestCaseExecutor
        from pynguin.testcase.execution_observers import RemoteExecutionObserver

        self.PC = PynguinCompare
        self.sp = SubjectProperties()
        self.tr = self.sp.instrumentation_tracer
        self.executor = TestCaseExecutor(self.sp)
        runner = self

        class Obs(RemoteExecutionObserver):
            def before_test_case_execution(self, test_case):
                pass

            def after_test_case_execution(self, executor, test_case, result):
                pass

            def before_statement_execution(self, statement, node, namespace):
                runner.run_list(runner.pending_before)
                return node

            def after_statement_execution(self, statement, executor, namespace, exception):
                runner.run_list(runner.pending_after)

        self.executor.add_remote_observer(Obs())
        self.pending_before, self.pending_after = [], []
        self.stmt = tc.Statement(node=cst.parse_module("x = 1\n").body[0], bound_variable="x", bound_type=int)

    def operand(self, inner, raises, exc=Boom):
        runner = self

        class Operand:
            __hash__ = None

            def __init__(self):
                self.calls = 0

            def _fire(self):
                self.calls += 1
                if self.calls == 1:
                    runner.run_list(inner)
                if raises:
                    raise exc("operator of the subject raises")
                return True

            def __eq__(self, other):
                return self._fire()

            def __bool__(self):
                return self._fire()

            def __contains__(self, item):
                return self._fire()

        return Operand()

    def attr_operand(self, kind, inner, raises, exc=Boom):
        """object whose attribute `value` runs nested events and raises / returns when read"""
        runner = self
        state = {"calls": 0}

        def fire():
            state["calls"] += 1
            if state["calls"] == 1:
                runner.run_list(inner)
            if raises:
                raise exc("attribute of the subject raises")
            return 1

        if kind == "prop":
            class Prop:
                @property
                def value(self):
                    return fire()
            return Prop()
        if kind == "getattr":
            class Dyn:
                def __getattr__(self, name):
                    if name != "value":
                        raise AttributeError(name)
                    return fire()
            return Dyn()

        class Desc:
            def __get__(self, obj, typ=None):
                return fire()

        class Holder:
            value = Desc()
        return Holder()

    def run_list(self, evs):
        for e in evs:
            self.run_ev(e)

    def run_ev(self, e):
        tr = self.tr
        if e[0] == "Line":
            tr.track_line_visit(e[1])
        elif e[0] == "Pred":
            _, pid, kind, inner, raises = e
            exc = boom(pid, len(inner))
            try:  # the subject catches what its operator raised
                if kind == "bool":
                    tr.executed_bool_predicate(self.operand(inner, raises, exc), pid)
                elif kind == "eq":
                    tr.executed_compare_predicate(self.operand(inner, raises, exc), 0, pid, self.PC.EQ)
                elif kind == "in":
                    tr.executed_compare_predicate(0, self.operand(inner, raises, exc), pid, self.PC.IN)
                elif kind == "inp":
                    tr.executed_in_presence_predicate(0, self.operand(inner, raises), pid)
                else:
                    tr.executed_exception_match(ValueError("x"), LookupError, pid)
            except (Boom, BoomBase):
                pass
        elif e[0] == "Track":
            import dis

            _, tid, kind, inner, raises = e
            try:
                if kind == "generic":
                    tr.track_generic("m", 0, 0, dis.opmap["NOP"], tid, 0)
                elif kind == "memory":
                    tr.track_memory_access("m", 0, 0, dis.opmap["LOAD_FAST"], tid, 0, "x", [1])
                else:
                    tr.track_attribute_access("m", 0, 0, dis.opmap["LOAD_ATTR"], tid, 0, "value",
                                              self.attr_operand(kind, inner, raises, boom(tid, len(inner))))
            except (Boom, BoomBase):
                pass
        elif e[0] in ("Dis", "En"):
            cm = tr.temporarily_disable() if e[0] == "Dis" else tr.temporarily_enable()
            try:
                with cm:
                    self.run_list(e[1])
                    if e[2]:
                        raise boom(len(e[1]), 0)("block raises")
            except (Boom, BoomBase):
                pass
        else:
            raise AssertionError(e)

    def observe(self):
        t = self.tr.get_trace()
        return (not self.tr.is_disabled(), list(t.covered_line_ids), sorted(t.executed_predicates.items()),
                [i.lineno for i in t.executed_instructions])

    def run_history(self, h):
        """-> list of (model event, observation)"""
        res = []
        tr = self.tr
        with tr:
            if not h["enabled"]:
                tr.disable()
            for e in h["top"]:
                if e[0] == "Stmt":
                    _, before, body, after = e
                    self.pending_before, self.pending_after = before, after
                    self.executor._before_statement_execution(self.stmt, {})
                    res.append((["Dis", before, False], self.observe()))
                    for b in body:
                        self.run_ev(b)
                        res.append((b, self.observe()))
                    self.executor._after_statement_execution(self.stmt, {}, None)
                    res.append((["Dis", after, False], self.observe()))
                else:
                    self.run_ev(e)
                    res.append((e, self.observe()))
        return res


def run_history_beside_parked_thread(h):
    """The history runs in a fresh thread B while another thread A, abandoned as after a timeout
    (tracer.stop()), is parked inside a predicate callback (inside temporarily_disable); then A
    leaves the callback and the history runs once more in a third thread C.
    -> (hist_B, hist_C) or None if A could not be parked."""
    import threading

    runner = Runner()
    tr = runner.tr
    inside, gate = threading.Event(), threading.Event()

    class Parked:
        __hash__ = None

        def __eq__(self, other):
            inside.set()
            gate.wait(120)
            return True

    def thread_a():
        try:
            with tr:
                tr.executed_compare_predicate(Parked(), 0, 99, runner.PC.EQ)
        except BaseException:  # noqa: BLE001
            pass

    def in_thread(box):
        def body():
            try:
                box.append(runner.run_history(h))
            except BaseException as e:  # noqa: BLE001
                box.append(e)
        t = threading.Thread(target=body, daemon=True)
        t.start()
        t.join(120)

    a = threading.Thread(target=thread_a, daemon=True)
    a.start()
    if not inside.wait(30):
        gate.set()
        return None
    tr.stop()                      # what TestCaseExecutor.execute does with a timed-out thread
    box_b: list = []
    in_thread(box_b)
    gate.set()
    a.join(60)
    box_c: list = []
    in_thread(box_c)
    for box in (box_b, box_c):
        if not box or isinstance(box[0], BaseException):
            raise RuntimeError(f"history thread failed: {box}")
    return box_b[0], box_c[0]


def c_ev(e):
    if e[0] == "Line":
        return f"(C05.Line {cZ(e[1])})"
    if e[0] == "Pred":
        return f"(C05.Pred {cZ(e[1])} {clist(c_ev(x) for x in e[3])} {cbool(e[4])})"
    if e[0] == "Track":
        return f"(C05.Track {cZ(e[1])} {clist(c_ev(x) for x in e[3])} {cbool(e[4])})"
    name = "DisableBlock" if e[0] == "Dis" else "EnableBlock"
    return f"(C05.{name} {clist(c_ev(x) for x in e[1])} {cbool(e[2])})"


def c_obs(o):
    en, ls, ps, ins = o
    return cpair(cbool(en), clist(cZ(x) for x in ls), clist(cpair(cZ(a), cZ(b)) for a, b in ps), clist(cZ(x) for x in ins))


def c_case(fin, h, hist):
    return cpair(cbool(fin), cbool(h["enabled"]), clist(cpair(c_ev(e), c_obs(o)) for e, o in hist))


def has_raising(e):
    if e[0] == "Line":
        return False
    if e[0] in ("Pred", "Track"):
        return bool(e[4]) or any(has_raising(x) for x in e[3])
    if e[0] == "Stmt":
        return any(has_raising(x) for part in e[1:] for x in part)
    return bool(e[2]) or any(has_raising(x) for x in e[1])


# ---------------------------------------------------------------------------------------------
# S: the real pipeline
OPS = {"eq": "a == b", "ne": "a != b", "lt": "a < b", "ge": "a >= b", "in": "a in b", "nin": "a not in b", "bool": "a",
       # attribute reads: probed by track_attribute_access under checked coverage
       "attr": "a.value", "dyn": "a.missing", "desc": "a.d"}
ATTR_OPS = ["attr", "dyn", "desc"]
HANDLERS = ["Exception", "ValueError",
            "(ValueError, TypeError, AssertionError, OverflowError, ArithmeticError, AttributeError)", "BaseException"]


def sut_source():
    lines = [
        "import threading",
        "from decimal import Decimal",
        "",
        "GATE = threading.Event()",
        "",
        "",
        "class Slow:",
        "    __hash__ = None",
        "",
        "    def __eq__(self, other):",
        "        GATE.wait(300)",
        "        return False",
        "",
        "",
        "class Abort(BaseException):",
        "    pass",
        "",
        "",
        "class Bad:",
        "    __hash__ = None",
        "",
        "    def __init__(self, mode):",
        "        self.mode = mode",
        "",
    ]
    for m in ("__eq__", "__ne__", "__lt__", "__ge__", "__gt__", "__le__", "__contains__"):
        lines += [f"    def {m}(self, other):", "        if self.mode == 1:", f"            raise ValueError('{m}')",
                  "        if self.mode == 3:", f"            raise Abort('{m}')", "        return self.mode == 2", ""]
    lines += ["    def __bool__(self):", "        if self.mode == 1:", "            raise ValueError('bool')",
              "        if self.mode == 3:", "            raise Abort('bool')", "        return self.mode == 2", "", ""]
    lines += ["class Lazy:", "    def __init__(self, mode):", "        self.mode = mode", "",
              "    @property", "    def value(self):", "        if self.mode == 1:",
              "            raise AttributeError('value is not available yet')", "        if self.mode == 3:",
              "            raise Abort('value')", "        return self.mode == 2", "", "",
              "class Dyn:", "    def __init__(self, mode):", "        self.mode = mode", "",
              "    def __getattr__(self, name):", "        if self.mode == 1:", "            raise AttributeError(name)",
              "        return self.mode == 2", "", "",
              "class Desc:", "    def __get__(self, obj, typ=None):", "        if obj is not None and obj.mode == 1:",
              "            raise ValueError('descriptor')", "        return obj is not None and obj.mode == 2", "", "",
              "class Holder:", "    d = Desc()", "", "    def __init__(self, mode):", "        self.mode = mode", "", ""]
    handler_lines = {"__first_function_line__": len(lines) + 1}
    for op, expr in OPS.items():
        lines += [f"def cmp_{op}(a, b):", f"    if {expr}:", "        return 1", "    return 2", "", ""]
        lines += [f"def deep_{op}(a, b):", f"    x = cmp_{op}(a, b)", "    if x == 1:", "        return 1", "    return 2", "", ""]
        for k, h in enumerate(HANDLERS):
            for fn in ("cmp", "deep"):
                lines += [f"def f_{fn}_{op}_{k}(a, b, n):", "    try:", f"        r = {fn}_{op}(a, b)", f"    except {h}:"]
                lines.append("        r = 3")
                handler_lines[f"f_{fn}_{op}_{k}"] = len(lines)
                lines += ["    return r + tail(n)", "", ""]
            # the comparison raises inside try/finally, the exception is caught further out: the
            # finally body is reached on the exception path only
            lines += [f"def f_fin_{op}_{k}(a, b, n):", "    m = 0", "    try:", "        try:", f"            r = cmp_{op}(a, b)",
                      "        finally:", "            m = n + 1", "            m = m * 2", f"    except {h}:"]
            lines.append("        r = 3")
            handler_lines[f"f_fin_{op}_{k}"] = len(lines)
            lines += ["    return r + tail(n) + 10 * (m - m)", "", ""]
    lines += ["def tail(n):", "    r = 0", "    if n > 1:", "        r += 10", "    else:", "        r += 20",
              "    for i in range(n):", "        if i == 1:", "            r += 100", "    return r", "", "",
              "def sub(a, k):", "    x = a[k]", "    if x:", "        return 1", "    return 2", "", "",
              "def g(n, s):", "    if n > 1 and s:", "        return 1", "    if s == 'x':", "        return 3", "    return 2", ""]
    return "\n".join(lines) + "\n", handler_lines


ATTR_OPERANDS = ["Lazy(1)", "Lazy(1)", "Lazy(0)", "Lazy(2)", "Lazy(3)", "Dyn(1)", "Dyn(1)", "Dyn(2)", "Holder(1)", "Holder(1)", "Holder(2)", "5", "None"]
OPERANDS = ["Bad(1)", "Bad(1)", "Bad(3)", "Bad(0)", "Bad(2)", "float('nan')", "10**400", "2**53 + 1", "{1}", "{2}",
            "Decimal(1)", "1.5", "iter([1, 2, 3])", "[1, 2]", "float('inf')", "'ab'", "None", "5", "2.0**53"]
SUFFIX = ["g(3, 'x')", "g(0, '')", "g(1, 'x')", "tail(2)", "tail(0)", "cmp_lt(1, 2)", "cmp_eq('a', 'b')",
          "f_cmp_eq_0(1, 1, 2)", "deep_in(1, [1, 2])", "cmp_bool([])", "sub([1, 0], 1)", "sub({'a': 5}, 'a')", "cmp_attr(Lazy(2), 0)", "deep_desc(Holder(0), 0)"]


def gen_scenario(rng, attr_bias=False):
    prefix = []
    for _ in range(rng.choice([1, 1, 2, 3])):
        op = rng.choice(ATTR_OPS) if attr_bias and rng.random() < 0.7 else rng.choice(list(OPS))
        # handler 1 (ValueError only) does not catch the AttributeError of attribute reads
        k = rng.choice([0, 2]) if op in ("attr", "dyn") and rng.random() < 0.85 else rng.randrange(len(HANDLERS))
        fn = f"f_{rng.choice(['cmp', 'deep', 'fin'])}_{op}_{k}"
        a, b = rng.choice(OPERANDS), rng.choice(OPERANDS)
        if op in ATTR_OPS:
            a = rng.choice(ATTR_OPERANDS)
        elif rng.random() < 0.5:
            a = rng.choice(["Bad(1)", "Bad(1)", "Bad(3)"])
        if "(3)" in a and rng.random() < 0.8:
            k = 3                                  # only `except BaseException` catches Abort
            fn = fn.rsplit("_", 1)[0] + "_3"
        prefix.append((fn, f"{fn}({a}, {b}, {rng.choice([0, 1, 2, 3])})"))
    if rng.random() < 0.3:
        prefix.insert(rng.randrange(len(prefix) + 1), ("sub", rng.choice(["sub([3, 0], 0)", "sub({1: 1}, 1)", "sub('ab', 1)"])))
    suffix = [rng.choice(SUFFIX) for _ in range(rng.choice([1, 2, 3]))]
    return {"prefix": [p[1] for p in prefix], "prefix_fn": [p[0] for p in prefix], "suffix": suffix}


class Pipeline:
    def __init__(self, ctx, checked=False):
        import pynguin.configuration as config
        from pynguin.instrumentation.machinery import install_import_hook
        from pynguin.instrumentation.tracer import SubjectProperties
        from pynguin.testcase.execution import TestCaseExecutor

        self.checked = checked
        self.src, self.handler_lines = sut_source()
        d = ctx.mkscratch()
        self.modname = f"c05sut_{abs(hash(str(d))) % 10**6}" + ("_chk" if checked else "")
        (d / f"{self.modname}.py").write_text(self.src)
        sys.path.insert(0, str(d))
        self._path = str(d)
        config.configuration.module_name = self.modname
        config.configuration.statistics_output.coverage_metrics = [config.CoverageMetric.BRANCH, config.CoverageMetric.LINE] + (
            [config.CoverageMetric.CHECKED] if checked else [])
        self.sp = SubjectProperties()
        self.hook = install_import_hook(self.modname, self.sp)
        self.hook.__enter__()
        with self.sp.instrumentation_tracer:
            self.module = importlib.import_module(self.modname)
            importlib.reload(self.module)
        self.executor = TestCaseExecutor(self.sp, maximum_test_execution_timeout=600, test_execution_time_per_statement=120)
        self.short_executor = TestCaseExecutor(self.sp, maximum_test_execution_timeout=2, test_execution_time_per_statement=2)
        self.switch_log: list = []
        tr = self.sp.instrumentation_tracer
        orig = self.executor._exec_statement

        def wrapped(node, namespace):
            pre = tr.is_disabled()
            r = orig(node, namespace)
            self.switch_log.append((pre, tr.is_disabled()))
            return r

        self.executor._exec_statement = wrapped
        # plain (uninstrumented) copy of the module, to know which path a call takes
        self.plain: dict = {}
        exec(compile(self.src, "<plain>", "exec"), self.plain)  # noqa: S102

    def close(self):
        self.hook.__exit__(None, None, None)
        if self._path in sys.path:
            sys.path.remove(self._path)
        sys.modules.pop(self.modname, None)

    def execute(self, calls):
        import libcst as cst
        import pynguin.testcase.testcase as tc

        t = tc.TestCase()
        for i, c in enumerate(calls):
            t.add_statement(tc.Statement(node=cst.parse_module(f"v{i} = {c}\n").body[0], bound_variable=f"v{i}", bound_type=None))
        self.switch_log.clear()
        res = self.executor.execute(t)
        if res.timeout or res.has_test_exceptions():
            return None
        tr = res.execution_trace
        lines = sorted({self.sp.existing_lines[l].line_number for l in tr.covered_line_ids})
        preds = {self.sp.existing_predicates[p].line_no: c for p, c in tr.executed_predicates.items()}
        return {"lines": lines, "preds": preds, "switch": list(self.switch_log)}

    def time_out_inside_callback(self):
        """A test case whose traced `==` blocks inside the tracer's own evaluation (inside
        temporarily_disable) until the executor gives up and abandons the thread.  -> timed out?"""
        import libcst as cst
        import pynguin.testcase.testcase as tc

        t = tc.TestCase()
        t.add_statement(tc.Statement(node=cst.parse_module("v0 = cmp_eq(Slow(), 1)\n").body[0], bound_variable="v0", bound_type=None))
        res = self.short_executor.execute(t)
        return bool(res.timeout)

    def release_abandoned(self):
        import threading
        import time

        before = threading.active_count()
        self.module.GATE.set()
        for _ in range(100):
            if threading.active_count() < before or threading.active_count() <= 1:
                break
            time.sleep(0.1)
        time.sleep(0.2)
        self.module.GATE.clear()

    def lines_after_first_exception(self, calls):
        """Ground truth from the uninstrumented module under sys.settrace: the lines of the module
        that execute after the first exception was raised in the test case (until its end)."""
        seen: set = set()
        state = {"raised": False}

        def tracer(frame, event, arg):
            if frame.f_code.co_filename != "<plain>":
                return None
            if event == "exception":
                state["raised"] = True
            elif event == "line" and state["raised"]:
                seen.add(frame.f_lineno)
            return tracer

        ns = dict(self.plain)
        old = sys.gettrace()
        sys.settrace(tracer)
        try:
            for c in calls:
                try:
                    eval(c, ns)  # noqa: S307
                except BaseException:  # noqa: BLE001
                    break
        finally:
            sys.settrace(old)
        return seen

    def registered_lines(self):
        return {m.line_number for m in self.sp.existing_lines.values() if m.file_name.endswith(self.modname + ".py")}

    def plain_path(self, call):
        try:
            return eval(call, dict(self.plain)) % 10  # noqa: S307
        except BaseException:  # noqa: BLE001
            return None


def check_scenario(pl, sc):
    """-> None (holds) | "skip" | (signature, message)"""
    full = pl.execute(sc["prefix"] + sc["suffix"])
    if full is None:
        return "skip"
    control = pl.execute(sc["suffix"])
    if control is None:
        return "skip"
    for k, (pre, post) in enumerate(full["switch"]):
        if pre != post:
            return ("switch-not-restored", f"statement {k} ({(sc['prefix'] + sc['suffix'])[k]}): tracer disabled before = {pre}, after = {post}")
    missing = [l for l in control["lines"] if l not in full["lines"]]
    if missing:
        return ("lines-lost-after-exception", f"lines {missing} are covered when {sc['suffix']} runs alone but not after {sc['prefix']}")
    lost = {l: (c, full["preds"].get(l, 0)) for l, c in control["preds"].items() if full["preds"].get(l, 0) < c}
    if lost:
        return ("branches-lost-after-exception", f"predicates (line: executions alone, in the test case) {lost} after {sc['prefix']}")
    # every registered line that the plain module executes after the first exception of the test case
    # (finally bodies on the exception path, handlers, the rest of the function, later statements)
    after = pl.lines_after_first_exception(sc["prefix"] + sc["suffix"])
    # Not the bodies of the operand classes' operators: the probe evaluates the operator itself, with
    # tracing off by design, and when it raises there the subject never runs the operator on its own.
    first = pl.handler_lines["__first_function_line__"]
    not_recorded = sorted(l for l in after if l >= first and l in pl.registered_lines() and l not in full["lines"])
    if not_recorded:
        src = pl.src.splitlines()
        return ("lines-after-exception-not-recorded",
                f"{sc['prefix'] + sc['suffix']}: the uninstrumented module executes lines {not_recorded} "
                f"({[src[l - 1].strip() for l in not_recorded][:4]}) after the first exception, they are not in covered_line_ids")
    # within the statement: the handler and the code after the try block
    for fn, call in zip(sc["prefix_fn"], sc["prefix"]):
        if pl.plain_path(call) == 3:
            hl = pl.handler_lines[fn]
            if hl not in full["lines"] or (hl + 1) not in full["lines"]:
                return ("handler-lines-lost", f"{call}: the subject caught the exception, but handler line {hl} / the line after the try block is not covered")
    return None


def check_after_timeout(pl, sc):
    """The same test case before and after another test case timed out inside a tracer callback:
    -> None | "skip" | (signature, message)"""
    calls = sc["prefix"] + sc["suffix"]
    before = pl.execute(calls)
    if before is None:
        return "skip"
    try:
        if not pl.time_out_inside_callback():
            return "skip"
        after = pl.execute(calls)
    finally:
        pl.release_abandoned()
    if after is None:
        return ("execution-fails-after-timeout", f"{calls} executes normally, but not after a test case timed out inside a tracer callback")
    if after["switch"] != before["switch"]:
        return ("switch-after-timeout", f"tracer disabled (before, after) per statement of {calls}: {before['switch']} normally, "
                f"{after['switch']} after another test case timed out inside a tracer callback")
    if after["lines"] != before["lines"] or after["preds"] != before["preds"]:
        lost = [l for l in before["lines"] if l not in after["lines"]]
        return ("coverage-lost-after-timeout", f"{calls}: lines {lost} and predicates "
                f"{ {l: c for l, c in before['preds'].items() if after['preds'].get(l) != c} } are recorded normally, but not after "
                "another test case timed out inside a tracer callback (abandoned thread inside temporarily_disable)")
    return None


def shrink_scenario(pl, sc, sig):
    def fails(s):
        r = check_scenario(pl, s)
        return isinstance(r, tuple) and r[0] == sig

    cur = dict(sc)
    changed = True
    while changed:
        changed = False
        for key in ("prefix", "suffix"):
            for i in range(len(cur[key])):
                if key == "suffix" and len(cur[key]) == 1:
                    continue
                t = dict(cur)
                t[key] = cur[key][:i] + cur[key][i + 1:]
                if key == "prefix":
                    t["prefix_fn"] = cur["prefix_fn"][:i] + cur["prefix_fn"][i + 1:]
                if fails(t):
                    cur, changed = t, True
                    break
            if changed:
                break
    return cur


def run_scenarios(pl, scenarios, emit=None):
    """-> {"done", "n_fail", "counts", "failures": [(sig, msg, shrunk scenario)]}"""
    res = {"done": 0, "n_fail": 0, "counts": {}, "failures": []}
    reported = set()
    for sc in scenarios:
        r = check_scenario(pl, sc)
        key = "skip" if r == "skip" else "ok" if r is None else r[0]
        res["counts"][key] = res["counts"].get(key, 0) + 1
        if isinstance(r, tuple):
            res["n_fail"] += 1
            if r[0] not in reported:
                reported.add(r[0])
                small = shrink_scenario(pl, sc, r[0])
                r2 = check_scenario(pl, small)
                r2 = r2 if isinstance(r2, tuple) else r
                res["failures"].append((r2[0] + (":checked" if pl.checked else ""), r2[1], small))
        res["done"] += 1
        if emit:
            emit(res)
    return res


def run_forked(ctx, scenarios):
    """Run the scenarios under BRANCH+LINE+CHECKED instrumentation in a forked child."""
    import multiprocessing as mp
    import os

    ctx.mkscratch()
    mpc = mp.get_context("fork")
    recv, send = mpc.Pipe(duplex=False)

    def child():
        try:
            pl = Pipeline(ctx, checked=True)
            run_scenarios(pl, scenarios, emit=lambda r: send.send(json.dumps(r)))
            send.send("END")
        except BaseException as e:  # noqa: BLE001
            import traceback

            send.send(json.dumps({"error": f"{type(e).__name__}: {e}", "tb": traceback.format_exc()[-1500:]}))
        finally:
            os._exit(0)

    proc = mpc.Process(target=child)
    proc.start()
    send.close()
    last = {"done": 0, "n_fail": 0, "counts": {}, "failures": []}
    ended = False
    try:
        while True:
            if not recv.poll(900):
                break
            msg = recv.recv()
            if msg == "END":
                ended = True
                break
            d = json.loads(msg)
            if "error" in d:
                last["stderr"] = d["error"] + "\n" + d["tb"]
                break
            last = d
    except EOFError:
        pass
    proc.join(30)
    if proc.is_alive():
        proc.kill()
    last["exit"] = "ok" if ended else f"died (exitcode {proc.exitcode})"
    last["failures"] = [tuple(f) for f in last["failures"]]
    return last


# ---------------------------------------------------------------------------------------------
def run(ctx: vlib.Ctx):
    vlib.setup_impl_path()
    ctx.digest_sources(SRC)
    ctx.coq_static()
    if not ctx.quick:
        ctx.coqchk()
    # K1
    br, stray = read_brackets(ctx.repo)
    fin = bool(br) and all(br.values()) and len(br) == 2
    ctx.leg("K1", brackets=br, finally_premise=fin, switches_outside_finally=stray)
    # S first: a broken premise must come with a failing input if there is one
    corpus = json.loads((vlib.VERIF / "corpus" / "C05.json").read_text())
    n_gen = 40 if ctx.quick else 500
    scenarios = [dict(c) for c in corpus["scenarios"]] + [gen_scenario(ctx.rng) for _ in range(n_gen)]
    chk_scenarios = [dict(c) for c in corpus["checked_scenarios"]] + [
        gen_scenario(ctx.rng, attr_bias=True) for _ in range(30 if ctx.quick else 300)]
    # checked coverage (track_attribute_access & co.) in a forked child: an interpreter crash under
    # that instrumentation must not take the check down
    ctx.log("K1 done; pipeline oracle under checked coverage (forked)")
    chk = run_forked(ctx, chk_scenarios)
    ctx.log("pipeline oracle under branch+line coverage")
    pl = Pipeline(ctx)
    try:
        plain = run_scenarios(pl, scenarios)
        ctx.log("pipeline oracle: test cases after a timeout inside a tracer callback")
        n_to = {"ok": 0, "skip": 0, "fail": 0}
        for sc in [scenarios[0]] + [gen_scenario(ctx.rng) for _ in range(1 if ctx.quick else 5)]:
            r = check_after_timeout(pl, sc)
            ctx.case_seen(("timeout", sc["prefix"], sc["suffix"]))
            n_to["skip" if r == "skip" else "ok" if r is None else "fail"] += 1
            if isinstance(r, tuple) and r[0] not in {f.signature for f in ctx.failures}:
                ctx.fail(r[0], r[1], {"scenario": sc, "after_timeout": True, "module_source": "harness/props/C05.py:sut_source()"})
        ctx.leg("S-timeout", **n_to)
    finally:
        pl.close()
    for name, res, scs in (("S", plain, scenarios), ("S-checked", chk, chk_scenarios)):
        for sc in scs:
            ctx.case_seen((name, sc["prefix"], sc["suffix"]))
            for c in sc["prefix"]:
                ctx.count(f"{name}:prefix-op:" + (c.split("_")[2] if c.startswith("f_") else c.split("(")[0]))
        for k, v in res["counts"].items():
            ctx.count(f"{name}:scenario:{k}", v)
        for sig, msg, small in res["failures"]:
            ctx.fail(sig, msg, {"scenario": small, "checked_coverage": name == "S-checked",
                                "module_source": "harness/props/C05.py:sut_source()"})
        ctx.leg(name, scenarios=len(scs), completed=res["done"], failures=res["n_fail"],
                skipped_uncaught_or_timeout=res["counts"].get("skip", 0), child_exit=res.get("exit"))
    ctx.sample({"scenario": scenarios[len(corpus["scenarios"])]})
    ctx.sample({"checked_scenario": chk_scenarios[len(corpus["checked_scenarios"])]})
    if chk["done"] < len(corpus["checked_scenarios"]):
        ctx.broken("oracle:checked-coverage-run-died",
                   "the forked run of the subject under checked-coverage instrumentation did not get through the corpus "
                   "scenarios; track_attribute_access is not exercised on the pipeline",
                   {"exit": chk.get("exit"), "completed": chk["done"], "stderr": chk.get("stderr", "")[-1500:]})
    elif chk["done"] < len(chk_scenarios):
        ctx.notes.append(f"checked-coverage child ended after {chk['done']} of {len(chk_scenarios)} scenarios (exit {chk.get('exit')})")
    if not fin:
        ctx.broken("premise:brackets-restore-in-finally",
                   "temporarily_disable / temporarily_enable do not restore the switch in a finally clause: the "
                   "theorems (stated for run true) do not apply to this code; C05_without_finally_refuted does",
                   {"brackets": br})
    if stray:
        ctx.broken("premise:switch-outside-finally",
                   "tracing is switched off/on outside the brackets without restoring it in a finally clause (the model has "
                   "no such event: callbacks other than the predicate callbacks never touch the switch)",
                   {"places": stray})
    # K2
    ctx.log("K2: event trees on the real tracer")
    hists = [dict(h) for h in corpus["histories"]]
    for _ in range(500 if ctx.quick else 8000):
        hists.append(gen_history(ctx.rng))
    cases, recs, direct = [], [], 0
    for h in hists:
        runner = Runner()
        hist = runner.run_history(h)
        recs.append((h, hist))
        cases.append(c_case(fin, h, hist))
        ctx.case_seen(("history", h["enabled"], h["top"]), nontrivial=len(h["top"]) > 0)
        ctx.count("history-top-events", len(hist))
        ctx.count("histories-with-raising-callback-or-block", int(any(has_raising(e) for e in h["top"])))
        # the property itself, read directly off the implementation: the switch after every
        # top-level event equals the switch before
        prev = h["enabled"]
        for e, o in hist:
            if o[0] != prev:
                direct += 1
                if "switch-after-event" not in {f.signature for f in ctx.failures}:
                    ctx.fail("switch-after-event", f"after event {e} the tracer switch is {o[0]}, before it was {prev}",
                             {"history": {"enabled": h["enabled"], "top": h["top"]}, "event": e})
                break
            prev = o[0]
    # threads: histories in a fresh thread while an abandoned thread is parked inside a bracket
    n_parked = 0
    for h in hists[:len(corpus["histories"])] + [gen_history(ctx.rng) for _ in range(40 if ctx.quick else 400)]:
        pair = run_history_beside_parked_thread(h)
        if pair is None:
            ctx.count("parked-thread:could-not-park")
            continue
        n_parked += 1
        for which, hist in zip(("beside", "after"), pair):
            recs.append((h, hist))
            cases.append(c_case(fin, h, hist))
            ctx.case_seen(("history-" + which + "-parked-thread", h["enabled"], h["top"]), nontrivial=len(h["top"]) > 0)
            prev = h["enabled"]
            for e, o in hist:
                if o[0] != prev:
                    direct += 1
                    if "switch-with-parked-thread" not in {f.signature for f in ctx.failures}:
                        ctx.fail("switch-with-parked-thread",
                                 f"in a fresh thread, {which} another thread parked inside a tracer callback: after event {e} "
                                 f"the tracer switch is {o[0]}, before it was {prev}",
                                 {"history": {"enabled": h["enabled"], "top": h["top"]}, "event": e, "parked_thread": True})
                    break
                prev = o[0]
    ctx.count("histories-beside-parked-thread", n_parked)
    ctx.sample({"history": hists[len(corpus["histories"])], "observed": [list(map(repr, o)) for _, o in recs[len(corpus["histories"])][1]]})
    ctx.cov["rule"] = ("K2: random event trees (depth <= 3; line visits, bool/==/in/exception-match predicate callbacks whose "
                       "operand runs nested events and raises with p = 0.45, nested temporarily_disable/enable blocks that "
                       "raise with p = 0.4, track_attribute_access on properties/__getattr__/descriptors that run nested events and raise, "
                       "track_generic/track_memory_access, statements through _before/_after_statement_execution with observers), initially "
                       "enabled or disabled; S: test cases of 1-3 calls whose traced comparison raises inside the subject "
                       "(user operators, NaN, huge ints, iterators, raising properties/__getattr__/descriptors) followed by 1-3 further "
                       "calls, under BRANCH+LINE in process and under BRANCH+LINE+CHECKED in a forked child; non-trivial = at least "
                       "one event / one prefix call; distinct = distinct trees / scenarios")
    ctx.log("K2: evaluating the model in Coq")
    bad = ctx.run_cases("C05_cases", "From Verif Require Import Models.C05.", "C05.case", "C05.check_case", cases)
    if bad:
        ctx.leg("K2", ok=False, mismatches=len(bad))
        if not any(f.kind == "input" for f in ctx.failures):
            h, hist = recs[bad[0]]
            ctx.broken("correspondence:C05-model-vs-tracer",
                       "the switch model (about which the theorems are proved) no longer reproduces the tracer",
                       {"history": h, "observed": [list(map(repr, o)) for _, o in hist], "mismatching_histories": len(bad)})
    elif bad is not None:
        ctx.leg("K2", ok=True, histories=len(cases), direct_switch_violations=direct)
    ctx.assumptions += [
        "one test case runs in one thread with its own switch and trace (TracerLocalState is thread-local; TestCaseExecutor "
        "starts a fresh thread per test case): modelled as threads := Z -> state, tied by replaying histories in fresh "
        "threads beside a thread parked inside a bracket and by the timeout scenario of the pipeline oracle; the thread "
        "check (TracingAbortedException) that kills timed-out threads is outside the model",
        "what the subject does is an arbitrary tree of events; an exception raised in traced code and caught by the "
        "subject is a callback/block flagged `raises` followed by the next events",
        "callbacks without a bracket (track_line_visit, track_generic, track_memory_access, track_attribute_access, ...) "
        "never change the switch; checked on the source (no enable/disable/.enabled assignment outside a finally-"
        "protected bracket in tracer.py, execution.py, execution_observers.py) and by K2/S on every run",
    ]
    ctx.cov["trusted_base"] += [
        "hand-written model Models/C05.v tied by replaying event trees on the real tracer/executor in Coq (this run); "
        "its parameter `fin` is read off the source (ast) on every run",
        "harness/props/C05.py (event replay, generated subject module, differential pipeline oracle)",
    ]


def replay(ctx, path):
    vlib.setup_impl_path()
    d = json.loads(open(path).read())["replay"]
    if "scenario" in d:
        pl = Pipeline(ctx, checked=bool(d.get("checked_coverage")))
        try:
            sc = d["scenario"]
            print("scenario:", sc)
            print("combined:", pl.execute(sc["prefix"] + sc["suffix"]))
            print("suffix alone:", pl.execute(sc["suffix"]))
            print("oracle:", check_after_timeout(pl, sc) if d.get("after_timeout") else check_scenario(pl, sc))
        finally:
            pl.close()
    else:
        h = d["history"]
        hist = run_history_beside_parked_thread(h)[0] if d.get("parked_thread") else Runner().run_history(h)
        for e, o in hist:
            print(e, "->", o)
        br, _ = read_brackets(ctx.repo)
        fin = bool(br) and all(br.values())
        print("model agrees:", ctx.coq_eval("From Verif Require Import Models.C05.", "C05.check_case " + c_case(fin, h, hist)))
    return 0
