"""C05 — tracing keeps recording after an exception inside traced code.

T  static proofs (Properties/C05.v).
K1 the premise of the theorems ("the brackets restore the switch in a finally clause") is read off
   the source of temporarily_disable / temporarily_enable (ast) on every run.
K2 random event trees (callbacks whose operands run nested traced code and raise, nested
   temporarily_disable/enable blocks, the statement executor's _before/_after_statement_execution
   with observers) are replayed on the real tracer / executor; after every top-level event the
   switch, the covered lines and the executed predicates are compared with the Coq model.
S  direct oracle on the real pipeline: a generated module is instrumented through the import hook
   and test cases are executed by TestCaseExecutor; statements whose traced comparisons raise
   (caught by the subject) are followed by further statements; everything the follow-up statements
   cover when run alone must be covered in the combined test case, and the switch must be the same
   before and after every statement."""
from __future__ import annotations

import ast
import importlib
import json
import sys

import vlib
from vlib import cZ, cbool, clist, cpair

SRC = ["src/pynguin/instrumentation/tracer.py", "src/pynguin/testcase/execution.py"]
PRED_KINDS = ["bool", "eq", "in", "excmatch", "inp"]


# ---------------------------------------------------------------------------------------------
# K1: structure of the brackets
def read_brackets(repo):
    """-> {"temporarily_disable": bool, "temporarily_enable": bool}: the statement after the last
    `yield` is executed in a `finally` clause."""
    tree = ast.parse((repo / SRC[0]).read_text())
    res = {}
    for node in ast.walk(tree):
        if isinstance(node, ast.FunctionDef) and node.name in ("temporarily_disable", "temporarily_enable"):
            ok = False
            for t in ast.walk(node):
                if isinstance(t, ast.Try) and t.finalbody:
                    has_yield = any(isinstance(y, ast.Yield) for b in t.body for y in ast.walk(b))
                    restores = any(isinstance(c, ast.Call) and isinstance(c.func, ast.Attribute)
                                   and c.func.attr in ("enable", "disable")
                                   for b in t.finalbody for c in ast.walk(b))
                    ok = ok or (has_yield and restores)
            res.setdefault(node.name, ok)
    return res


# ---------------------------------------------------------------------------------------------
# K2: event trees
def gen_ev(rng, depth, ids):
    c = rng.random()
    if depth >= 3 or c < 0.38:
        return ["Line", rng.randrange(ids)]
    n = rng.choice([0, 0, 1, 2, 3])
    if c < 0.78:
        kind = rng.choice(PRED_KINDS)
        if kind == "excmatch":
            return ["Pred", rng.randrange(ids), kind, [], False]
        # the auxiliary in-presence predicate swallows a failing membership test: never "raises"
        raises = rng.random() < 0.45 and kind != "inp"
        return ["Pred", rng.randrange(ids), kind, [gen_ev(rng, depth + 1, ids) for _ in range(n)], raises]
    if c < 0.90:
        return ["Dis", [gen_ev(rng, depth + 1, ids) for _ in range(n)], rng.random() < 0.4]
    return ["En", [gen_ev(rng, depth + 1, ids) for _ in range(n)], rng.random() < 0.4]


def gen_history(rng):
    ids = rng.choice([2, 4, 8])
    top = []
    for _ in range(rng.choice([1, 2, 4, 7, 10])):
        c = rng.random()
        if c < 0.2:
            n = rng.choice([0, 1, 2])
            top.append(["Stmt", [gen_ev(rng, 1, ids) for _ in range(n)],
                        [gen_ev(rng, 0, ids) for _ in range(rng.choice([0, 1, 2, 3]))],
                        [gen_ev(rng, 1, ids) for _ in range(n)]])
        else:
            top.append(gen_ev(rng, 0, ids))
    return {"enabled": rng.random() < 0.85, "top": top}


class Boom(Exception):
    pass


class Runner:
    """Replays an event tree on the real tracer (the harness plays the subject under test)."""

    def __init__(self):
        import libcst as cst
        import pynguin.testcase.testcase as tc
        from pynguin.instrumentation import PynguinCompare
        from pynguin.instrumentation.tracer import SubjectProperties
        from pynguin.testcase.execution import TestCaseExecutor
        from pynguin.testcase.execution_observers import RemoteExecutionObserver

        self.PC = PynguinCompare
        self.sp = SubjectProperties()
        self.tr = self.sp.instrumentation_tracer
        self.executor = TestCaseExecutor(self.sp)
        runner = self

        class Obs(RemoteExecutionObserver):
            def before_test_case_execution(self, test_case):
                pass

            def after_test_case_execution(self, executor, test_case, result):
                pass

            def before_statement_execution(self, statement, node, namespace):
                runner.run_list(runner.pending_before)
                return node

            def after_statement_execution(self, statement, executor, namespace, exception):
                runner.run_list(runner.pending_after)

        self.executor.add_remote_observer(Obs())
        self.pending_before, self.pending_after = [], []
        self.stmt = tc.Statement(node=cst.parse_module("x = 1\n").body[0], bound_variable="x", bound_type=int)

    def operand(self, inner, raises):
        runner = self

        class Operand:
            __hash__ = None

            def __init__(self):
                self.calls = 0

            def _fire(self):
                self.calls += 1
                if self.calls == 1:
                    runner.run_list(inner)
                if raises:
                    raise Boom("operator of the subject raises")
                return True

            def __eq__(self, other):
                return self._fire()

            def __bool__(self):
                return self._fire()

            def __contains__(self, item):
                return self._fire()

        return Operand()

    def run_list(self, evs):
        for e in evs:
            self.run_ev(e)

    def run_ev(self, e):
        tr = self.tr
        if e[0] == "Line":
            tr.track_line_visit(e[1])
        elif e[0] == "Pred":
            _, pid, kind, inner, raises = e
            try:  # the subject catches what its operator raised
                if kind == "bool":
                    tr.executed_bool_predicate(self.operand(inner, raises), pid)
                elif kind == "eq":
                    tr.executed_compare_predicate(self.operand(inner, raises), 0, pid, self.PC.EQ)
                elif kind == "in":
                    tr.executed_compare_predicate(0, self.operand(inner, raises), pid, self.PC.IN)
                elif kind == "inp":
                    tr.executed_in_presence_predicate(0, self.operand(inner, raises), pid)
                else:
                    tr.executed_exception_match(ValueError("x"), LookupError, pid)
            except Boom:
                pass
        elif e[0] in ("Dis", "En"):
            cm = tr.temporarily_disable() if e[0] == "Dis" else tr.temporarily_enable()
            try:
                with cm:
                    self.run_list(e[1])
                    if e[2]:
                        raise Boom("block raises")
            except Boom:
                pass
        else:
            raise AssertionError(e)

    def observe(self):
        t = self.tr.get_trace()
        return (not self.tr.is_disabled(), list(t.covered_line_ids), sorted(t.executed_predicates.items()))

    def run_history(self, h):
        """-> list of (model event, observation)"""
        res = []
        tr = self.tr
        with tr:
            if not h["enabled"]:
                tr.disable()
            for e in h["top"]:
                if e[0] == "Stmt":
                    _, before, body, after = e
                    self.pending_before, self.pending_after = before, after
                    self.executor._before_statement_execution(self.stmt, {})
                    res.append((["Dis", before, False], self.observe()))
                    for b in body:
                        self.run_ev(b)
                        res.append((b, self.observe()))
                    self.executor._after_statement_execution(self.stmt, {}, None)
                    res.append((["Dis", after, False], self.observe()))
                else:
                    self.run_ev(e)
                    res.append((e, self.observe()))
        return res


def c_ev(e):
    if e[0] == "Line":
        return f"(C05.Line {cZ(e[1])})"
    if e[0] == "Pred":
        return f"(C05.Pred {cZ(e[1])} {clist(c_ev(x) for x in e[3])} {cbool(e[4])})"
    name = "DisableBlock" if e[0] == "Dis" else "EnableBlock"
    return f"(C05.{name} {clist(c_ev(x) for x in e[1])} {cbool(e[2])})"


def c_obs(o):
    en, ls, ps = o
    return cpair(cbool(en), clist(cZ(x) for x in ls), clist(cpair(cZ(a), cZ(b)) for a, b in ps))


def c_case(fin, h, hist):
    return cpair(cbool(fin), cbool(h["enabled"]), clist(cpair(c_ev(e), c_obs(o)) for e, o in hist))


def has_raising(e):
    if e[0] == "Line":
        return False
    if e[0] == "Pred":
        return bool(e[4]) or any(has_raising(x) for x in e[3])
    if e[0] == "Stmt":
        return any(has_raising(x) for part in e[1:] for x in part)
    return bool(e[2]) or any(has_raising(x) for x in e[1])


# ---------------------------------------------------------------------------------------------
# S: the real pipeline
OPS = {"eq": "a == b", "ne": "a != b", "lt": "a < b", "ge": "a >= b", "in": "a in b", "nin": "a not in b", "bool": "a"}
HANDLERS = ["Exception", "ValueError", "(ValueError, TypeError, AssertionError, OverflowError, ArithmeticError)"]


def sut_source():
    lines = [
        "from decimal import Decimal",
        "",
        "",
        "class Bad:",
        "    __hash__ = None",
        "",
        "    def __init__(self, mode):",
        "        self.mode = mode",
        "",
    ]
    for m in ("__eq__", "__ne__", "__lt__", "__ge__", "__gt__", "__le__", "__contains__"):
        lines += [f"    def {m}(self, other):", "        if self.mode == 1:", f"            raise ValueError('{m}')",
                  "        return self.mode == 2", ""]
    lines += ["    def __bool__(self):", "        if self.mode == 1:", "            raise ValueError('bool')",
              "        return self.mode == 2", "", ""]
    handler_lines = {}
    for op, expr in OPS.items():
        lines += [f"def cmp_{op}(a, b):", f"    if {expr}:", "        return 1", "    return 2", "", ""]
        lines += [f"def deep_{op}(a, b):", f"    x = cmp_{op}(a, b)", "    if x == 1:", "        return 1", "    return 2", "", ""]
        for k, h in enumerate(HANDLERS):
            for fn in ("cmp", "deep"):
                lines += [f"def f_{fn}_{op}_{k}(a, b, n):", "    try:", f"        r = {fn}_{op}(a, b)", f"    except {h}:"]
                lines.append("        r = 3")
                handler_lines[f"f_{fn}_{op}_{k}"] = len(lines)
                lines += ["    return r + tail(n)", "", ""]
    lines += ["def tail(n):", "    r = 0", "    if n > 1:", "        r += 10", "    else:", "        r += 20",
              "    for i in range(n):", "        if i == 1:", "            r += 100", "    return r", "", "",
              "def sub(a, k):", "    x = a[k]", "    if x:", "        return 1", "    return 2", "", "",
              "def g(n, s):", "    if n > 1 and s:", "        return 1", "    if s == 'x':", "        return 3", "    return 2", ""]
    return "\n".join(lines) + "\n", handler_lines


OPERANDS = ["Bad(1)", "Bad(1)", "Bad(1)", "Bad(0)", "Bad(2)", "float('nan')", "10**400", "2**53 + 1", "{1}", "{2}",
            "Decimal(1)", "1.5", "iter([1, 2, 3])", "[1, 2]", "float('inf')", "'ab'", "None", "5", "2.0**53"]
SUFFIX = ["g(3, 'x')", "g(0, '')", "g(1, 'x')", "tail(2)", "tail(0)", "cmp_lt(1, 2)", "cmp_eq('a', 'b')",
          "f_cmp_eq_0(1, 1, 2)", "deep_in(1, [1, 2])", "cmp_bool([])", "sub([1, 0], 1)", "sub({'a': 5}, 'a')"]


def gen_scenario(rng):
    prefix = []
    for _ in range(rng.choice([1, 1, 2, 3])):
        op = rng.choice(list(OPS))
        fn = f"f_{rng.choice(['cmp', 'deep'])}_{op}_{rng.randrange(len(HANDLERS))}"
        a, b = rng.choice(OPERANDS), rng.choice(OPERANDS)
        if rng.random() < 0.5:
            a = "Bad(1)"
        prefix.append((fn, f"{fn}({a}, {b}, {rng.choice([0, 1, 2, 3])})"))
    if rng.random() < 0.3:
        prefix.insert(rng.randrange(len(prefix) + 1), ("sub", rng.choice(["sub([3, 0], 0)", "sub({1: 1}, 1)", "sub('ab', 1)"])))
    suffix = [rng.choice(SUFFIX) for _ in range(rng.choice([1, 2, 3]))]
    return {"prefix": [p[1] for p in prefix], "prefix_fn": [p[0] for p in prefix], "suffix": suffix}


class Pipeline:
    def __init__(self, ctx):
        import pynguin.configuration as config
        from pynguin.instrumentation.machinery import install_import_hook
        from pynguin.instrumentation.tracer import SubjectProperties
        from pynguin.testcase.execution import TestCaseExecutor

        self.src, self.handler_lines = sut_source()
        d = ctx.mkscratch()
        self.modname = f"c05sut_{abs(hash(str(d))) % 10**6}"
        (d / f"{self.modname}.py").write_text(self.src)
        sys.path.insert(0, str(d))
        self._path = str(d)
        config.configuration.module_name = self.modname
        config.configuration.statistics_output.coverage_metrics = [config.CoverageMetric.BRANCH, config.CoverageMetric.LINE]
        self.sp = SubjectProperties()
        self.hook = install_import_hook(self.modname, self.sp)
        self.hook.__enter__()
        with self.sp.instrumentation_tracer:
            self.module = importlib.import_module(self.modname)
            importlib.reload(self.module)
        self.executor = TestCaseExecutor(self.sp, maximum_test_execution_timeout=600, test_execution_time_per_statement=120)
        self.switch_log: list = []
        tr = self.sp.instrumentation_tracer
        orig = self.executor._exec_statement

        def wrapped(node, namespace):
            pre = tr.is_disabled()
            r = orig(node, namespace)
            self.switch_log.append((pre, tr.is_disabled()))
            return r

        self.executor._exec_statement = wrapped
        # plain (uninstrumented) copy of the module, to know which path a call takes
        self.plain: dict = {}
        exec(compile(self.src, "<plain>", "exec"), self.plain)  # noqa: S102

    def close(self):
        self.hook.__exit__(None, None, None)
        if self._path in sys.path:
            sys.path.remove(self._path)
        sys.modules.pop(self.modname, None)

    def execute(self, calls):
        import libcst as cst
        import pynguin.testcase.testcase as tc

        t = tc.TestCase()
        for i, c in enumerate(calls):
            t.add_statement(tc.Statement(node=cst.parse_module(f"v{i} = {c}\n").body[0], bound_variable=f"v{i}", bound_type=None))
        self.switch_log.clear()
        res = self.executor.execute(t)
        if res.timeout or res.has_test_exceptions():
            return None
        tr = res.execution_trace
        lines = sorted({self.sp.existing_lines[l].line_number for l in tr.covered_line_ids})
        preds = {self.sp.existing_predicates[p].line_no: c for p, c in tr.executed_predicates.items()}
        return {"lines": lines, "preds": preds, "switch": list(self.switch_log)}

    def plain_path(self, call):
        try:
            return eval(call, dict(self.plain)) % 10  # noqa: S307
        except Exception:  # noqa: BLE001
            return None


def check_scenario(pl, sc):
    """-> None (holds) | "skip" | (signature, message)"""
    full = pl.execute(sc["prefix"] + sc["suffix"])
    if full is None:
        return "skip"
    control = pl.execute(sc["suffix"])
    if control is None:
        return "skip"
    for k, (pre, post) in enumerate(full["switch"]):
        if pre != post:
            return ("switch-not-restored", f"statement {k} ({(sc['prefix'] + sc['suffix'])[k]}): tracer disabled before = {pre}, after = {post}")
    missing = [l for l in control["lines"] if l not in full["lines"]]
    if missing:
        return ("lines-lost-after-exception", f"lines {missing} are covered when {sc['suffix']} runs alone but not after {sc['prefix']}")
    lost = {l: (c, full["preds"].get(l, 0)) for l, c in control["preds"].items() if full["preds"].get(l, 0) < c}
    if lost:
        return ("branches-lost-after-exception", f"predicates (line: executions alone, in the test case) {lost} after {sc['prefix']}")
    # within the statement: the handler and the code after the try block
    for fn, call in zip(sc["prefix_fn"], sc["prefix"]):
        if pl.plain_path(call) == 3:
            hl = pl.handler_lines[fn]
            if hl not in full["lines"] or (hl + 1) not in full["lines"]:
                return ("handler-lines-lost", f"{call}: the subject caught the exception, but handler line {hl} / the line after the try block is not covered")
    return None


def shrink_scenario(pl, sc, sig):
    def fails(s):
        r = check_scenario(pl, s)
        return isinstance(r, tuple) and r[0] == sig

    cur = dict(sc)
    changed = True
    while changed:
        changed = False
        for key in ("prefix", "suffix"):
            for i in range(len(cur[key])):
                if key == "suffix" and len(cur[key]) == 1:
                    continue
                t = dict(cur)
                t[key] = cur[key][:i] + cur[key][i + 1:]
                if key == "prefix":
                    t["prefix_fn"] = cur["prefix_fn"][:i] + cur["prefix_fn"][i + 1:]
                if fails(t):
                    cur, changed = t, True
                    break
            if changed:
                break
    return cur


# ---------------------------------------------------------------------------------------------
def run(ctx: vlib.Ctx):
    vlib.setup_impl_path()
    ctx.digest_sources(SRC)
    ctx.coq_static()
    if not ctx.quick:
        ctx.coqchk()
    # K1
    br = read_brackets(ctx.repo)
    fin = bool(br) and all(br.values()) and len(br) == 2
    ctx.leg("K1", brackets=br, finally_premise=fin)
    # S first: a broken premise must come with a failing input if there is one
    corpus = json.loads((vlib.VERIF / "corpus" / "C05.json").read_text())
    pl = Pipeline(ctx)
    n_fail = n_skip = 0
    try:
        scenarios = [dict(c) for c in corpus["scenarios"]]
        for _ in range(40 if ctx.quick else 500):
            scenarios.append(gen_scenario(ctx.rng))
        reported = set()
        for sc in scenarios:
            r = check_scenario(pl, sc)
            ctx.case_seen(("scenario", sc["prefix"], sc["suffix"]))
            ctx.count("scenario:" + ("skip" if r == "skip" else "ok" if r is None else r[0]))
            for c in sc["prefix"]:
                ctx.count("prefix-op:" + (c.split("_")[2] if c.startswith("f_") else c.split("(")[0]))
            if r == "skip":
                n_skip += 1
            elif r is not None:
                n_fail += 1
                if r[0] not in reported:
                    reported.add(r[0])
                    small = shrink_scenario(pl, sc, r[0])
                    r2 = check_scenario(pl, small)
                    r2 = r2 if isinstance(r2, tuple) else r
                    ctx.fail(r2[0], r2[1], {"scenario": small, "module_source": "harness/props/C05.py:sut_source()"})
        ctx.sample({"scenario": scenarios[len(corpus["scenarios"])]})
    finally:
        pl.close()
    ctx.leg("S", scenarios=len(scenarios), failures=n_fail, skipped_uncaught_or_timeout=n_skip)
    if not fin:
        ctx.broken("premise:brackets-restore-in-finally",
                   "temporarily_disable / temporarily_enable do not restore the switch in a finally clause: the "
                   "theorems (stated for run true) do not apply to this code; C05_without_finally_refuted does",
                   {"brackets": br})
    # K2
    hists = [dict(h) for h in corpus["histories"]]
    for _ in range(500 if ctx.quick else 8000):
        hists.append(gen_history(ctx.rng))
    cases, recs, direct = [], [], 0
    for h in hists:
        runner = Runner()
        hist = runner.run_history(h)
        recs.append((h, hist))
        cases.append(c_case(fin, h, hist))
        ctx.case_seen(("history", h["enabled"], h["top"]), nontrivial=len(h["top"]) > 0)
        ctx.count("history-top-events", len(hist))
        ctx.count("histories-with-raising-callback-or-block", int(any(has_raising(e) for e in h["top"])))
        # the property itself, read directly off the implementation: the switch after every
        # top-level event equals the switch before
        prev = h["enabled"]
        for e, o in hist:
            if o[0] != prev:
                direct += 1
                if "switch-after-event" not in {f.signature for f in ctx.failures}:
                    ctx.fail("switch-after-event", f"after event {e} the tracer switch is {o[0]}, before it was {prev}",
                             {"history": {"enabled": h["enabled"], "top": h["top"]}, "event": e})
                break
            prev = o[0]
    ctx.sample({"history": hists[len(corpus["histories"])], "observed": [list(map(repr, o)) for _, o in recs[len(corpus["histories"])][1]]})
    ctx.cov["rule"] = ("K2: random event trees (depth <= 3; line visits, bool/==/in/exception-match predicate callbacks whose "
                       "operand runs nested events and raises with p = 0.45, nested temporarily_disable/enable blocks that "
                       "raise with p = 0.4, statements through _before/_after_statement_execution with observers), initially "
                       "enabled or disabled; S: test cases of 1-3 calls whose traced comparison raises inside the subject "
                       "(user operators, NaN, huge ints, iterators) followed by 1-3 further calls; non-trivial = at least "
                       "one event / one prefix call; distinct = distinct trees / scenarios")
    bad = ctx.run_cases("C05_cases", "From Verif Require Import Models.C05.", "C05.case", "C05.check_case", cases)
    if bad:
        ctx.leg("K2", ok=False, mismatches=len(bad))
        if not any(f.kind == "input" for f in ctx.failures):
            h, hist = recs[bad[0]]
            ctx.broken("correspondence:C05-model-vs-tracer",
                       "the switch model (about which the theorems are proved) no longer reproduces the tracer",
                       {"history": h, "observed": [list(map(repr, o)) for _, o in hist], "mismatching_histories": len(bad)})
    elif bad is not None:
        ctx.leg("K2", ok=True, histories=len(cases), direct_switch_violations=direct)
    ctx.assumptions += [
        "one test case runs in one thread (TracerLocalState is thread-local; TestCaseExecutor starts a fresh thread per "
        "test case); the thread check (TracingAbortedException) that kills timed-out threads is outside the model",
        "what the subject does is an arbitrary tree of events; an exception raised in traced code and caught by the "
        "subject is a callback/block flagged `raises` followed by the next events",
        "callbacks without a bracket (track_line_visit, track_generic, ...) never change the switch",
    ]
    ctx.cov["trusted_base"] += [
        "hand-written model Models/C05.v tied by replaying event trees on the real tracer/executor in Coq (this run); "
        "its parameter `fin` is read off the source (ast) on every run",
        "harness/props/C05.py (event replay, generated subject module, differential pipeline oracle)",
    ]


def replay(ctx, path):
    vlib.setup_impl_path()
    d = json.loads(open(path).read())["replay"]
    if "scenario" in d:
        pl = Pipeline(ctx)
        try:
            sc = d["scenario"]
            print("scenario:", sc)
            print("combined:", pl.execute(sc["prefix"] + sc["suffix"]))
            print("suffix alone:", pl.execute(sc["suffix"]))
            print("oracle:", check_scenario(pl, sc))
        finally:
            pl.close()
    else:
        h = d["history"]
        hist = Runner().run_history(h)
        for e, o in hist:
            print(e, "->", o)
        br = read_brackets(ctx.repo)
        fin = bool(br) and all(br.values())
        print("model agrees:", ctx.coq_eval("From Verif Require Import Models.C05.", "C05.check_case " + c_case(fin, h, hist)))
    return 0
