"""C15 — variation operators keep every test case well-formed.

T  static proofs (Properties/C15.v): every container operation / history preserves WF under
   decidable preconditions; crossover and the insertion loop respect the length bound.
K2 every outermost call the real TestFactory / mutation / crossover / local search / post-processing
   code makes on the real TestCase container is recorded with abstract states before and after and
   replayed by the Coq model (check_step); for calls issued by the factory code on well-formed test
   cases the proved precondition is evaluated in Coq (check_pre); crossover and _mutation_insert
   are replayed as a whole.  Direct random calls (also on malformed test cases) widen the input
   space of the container model.
S  an independent oracle (python's parser + execution) checks after every operation exactly what
   the property states, plus the two length clauses.
"""
from __future__ import annotations

import json
import multiprocessing as mp
import random
import traceback

import vlib
from props import _c15_lib as L

SRC = ["src/pynguin/testcase/testcase.py", "src/pynguin/testcase/testfactory.py",
       "src/pynguin/ga/operators/mutation.py", "src/pynguin/ga/operators/crossover.py",
       "src/pynguin/testcase/localsearch.py", "src/pynguin/testcase/localsearchstatement.py",
       "src/pynguin/ga/testcasechromosome.py"]
IMPORTS = "From Verif Require Import Base.TestCaseIR Models.C15.\nOpen Scope N_scope."

_REC = None


def recorder():
    global _REC
    if _REC is None:
        _REC = L.Recorder()
        _REC.install()
    return _REC


class FakeResult:
    """Stands in for an ExecutionResult: only what get_last_mutatable_statement reads."""

    def __init__(self, pos):
        self.pos = pos
        self.execution_trace = None

    def has_test_exceptions(self):
        return self.pos is not None

    def get_first_position_of_thrown_exception(self):
        return self.pos


class Timer:
    def __init__(self, n):
        self.n = n

    def limit_reached(self):
        self.n -= 1
        return self.n < 0


class Objective:
    """Stub objective: never / sometimes / always reports an improvement."""

    def __init__(self, r, p=None):
        self.r = r
        self.p = r.choice([0.0, 0.0, 0.4, 0.4, 1.0]) if p is None else p

    def has_improved(self, chromosome):
        return self.r.random() < self.p

    def has_changed(self, chromosome):
        from pynguin.testcase.localsearchobjective import LocalSearchImprovement

        return self.r.choice(list(LocalSearchImprovement))


OPS = [("mutate", 34), ("crossover", 18), ("local_search", 16), ("delete", 6), ("insert", 6), ("change", 12),
       ("chop", 3), ("ruv", 3), ("clone", 3), ("append", 3), ("exec_result", 4), ("remove_fwd", 5),
       ("crossover_boundary", 12), ("clone_append", 5)]


def configure(r, maxlen):
    import pynguin.configuration as config

    sa = config.configuration.search_algorithm
    sa.chromosome_length = maxlen
    sa.chop_max_length = r.random() < 0.8
    sa.test_delete_probability = r.choice([1 / 3, 0.7])
    sa.test_change_probability = r.choice([1 / 3, 0.7])
    sa.test_insert_probability = r.choice([1 / 3, 0.8])
    sa.statement_insertion_probability = r.choice([0.5, 0.8])
    sa.change_statement_type_probability = r.choice([0.05, 0.4])
    tcn = config.configuration.test_creation
    tcn.max_attempts = 30
    tcn.callable_invocation_probability = r.choice([0.25, 0.6])
    tcn.callable_argument_probability = r.choice([0.25, 0.5])
    tcn.object_reuse_probability = r.choice([0.9, 0.5])
    tcn.primitive_reuse_probability = r.choice([0.5, 0.2])
    tcn.max_recursion = r.choice([10, 3])
    ls = config.configuration.local_search
    ls.local_search_probability = 1.0
    ls.local_search_llm = False
    ls.local_search_same_datatype = r.random() < 0.8
    ls.local_search_different_datatype = r.random() < 0.8
    ls.local_search_primitives = True
    ls.local_search_collections = r.random() < 0.8
    ls.local_search_complex_objects = r.random() < 0.8
    # the remaining mass goes to "replace by a random generator accessible", which inserts receiver/argument statements
    ls.ls_different_type_primitive_probability = r.choice([0.3, 0.1, 0.0])
    ls.ls_different_type_collection_probability = r.choice([0.3, 0.1, 0.0])
    ls.ls_max_different_type_mutations = r.choice([3, 6])
    ls.ls_random_parametrized_statement_call_count = 4
    ls.ls_dict_max_insertions = 3


def run_history(cluster, module, alias, hist_seed, n_steps, maxlen, stats):
    """One random history on a population of four chromosomes.  Returns a list of failures
    (signature, message, step)."""
    import pynguin.ga.testcasefactory as tcf
    from pynguin.ga.operators.crossover import SinglePointRelativeCrossOver
    from pynguin.ga.testcasechromosome import TestCaseChromosome
    from pynguin.testcase.localsearch import TestCaseLocalSearch
    from pynguin.testcase.testfactory import TestFactory
    from pynguin.utils import randomness

    rec = recorder()
    r = random.Random(hist_seed)
    randomness.RNG.seed(hist_seed)
    configure(r, maxlen)
    factory = TestFactory(cluster)
    gen = tcf.RandomLengthTestCaseFactory(factory, cluster)
    pop = [TestCaseChromosome(gen.get_test_case(), factory) for _ in range(4)]
    fails = []
    n_ins, n_x, n_al, n_ls = len(rec.inserts), len(rec.xover), len(rec.alias), len(rec.ls)

    last = {}

    def check(step, what):
        for k, c in enumerate(pop):
            t = c.test_case
            fp = (id(t), tuple(map(id, t._statements)), t._var_counter,
                  tuple((ty, tuple(vs)) for ty, vs in t._type_registry.items()), t._code_cache)
            if last.get(k) == fp:
                continue
            last[k] = fp
            for sig, msg in L.oracle_wf(c.test_case, alias, module, execute=True):
                fails.append((f"wf:{sig}", f"after {what} (step {step}, chromosome {k}): {msg}\n{c.test_case.to_module().code}", step))
        nonlocal n_ins, n_x, n_al, n_ls
        for l_ in rec.ls[n_ls:]:
            stats[f"ls:{l_['kind']}:{'found' if l_['found'] else 'rejected'}"] = stats.get(
                f"ls:{l_['kind']}:{'found' if l_['found'] else 'rejected'}", 0) + 1
            if not l_["found"] and l_["before"] != l_["after"]:
                fails.append((f"ls:rollback:{l_['kind']}", f"local search ({l_['kind']}) found no improvement but left the test "
                              f"case changed: {len(l_['before']['stmts'])} -> {len(l_['after']['stmts'])} statements, bound "
                              f"{[x['bound'] for x in l_['before']['stmts']]} -> {[x['bound'] for x in l_['after']['stmts']]}", step))
        n_ls = len(rec.ls)
        for al in rec.alias[n_al:]:
            fails.append((f"alias:{al['op']}", f"{al['op']} on one test case changed another live test case "
                          f"(registry {al['before']['reg']!r} -> {al['after']['reg']!r}, "
                          f"{len(al['before']['stmts'])} -> {len(al['after']['stmts'])} statements) during {what}", step))
        n_al = len(rec.alias)
        for ins in rec.inserts[n_ins:]:
            stats["insert-calls"] = stats.get("insert-calls", 0) + 1
            if ins["proposed"] and max(ins["proposed"]) > ins["maxlen"]:
                stats["insert-overshoot-proposals"] = stats.get("insert-overshoot-proposals", 0) + 1
            if ins["after"] > max(ins["before"], ins["maxlen"]):
                fails.append(("length:insertion", f"_mutation_insert grew a test case from {ins['before']} to {ins['after']} statements "
                              f"(chromosome_length {ins['maxlen']}, sizes after each insert_random_statement: {ins['proposed']})", step))
        n_ins = len(rec.inserts)
        for x in rec.xover[n_x:]:
            stats["crossover-calls"] = stats.get("crossover-calls", 0) + 1
            changed = x["result"] != x["parent"]
            if changed:
                stats["crossover-accepted"] = stats.get("crossover-accepted", 0) + 1
            if changed and len(x["result"]["stmts"]) >= x["maxlen"]:
                fails.append(("length:crossover", f"crossover produced {len(x['result']['stmts'])} statements "
                              f"(chromosome_length {x['maxlen']})", step))
        n_x = len(rec.xover)

    check(-1, "initial generation")
    names = [o for o, _ in OPS]
    weights = [w for _, w in OPS]
    for step in range(n_steps):
        if fails:
            break
        kind = r.choices(names, weights)[0]
        c = r.choice(pop)
        what = kind
        try:
            if kind == "mutate":
                c.mutate()
            elif kind == "crossover":
                a, b = r.sample(pop, 2)
                SinglePointRelativeCrossOver().cross_over(a, b)
            elif kind == "crossover_boundary":
                # split points SinglePointRelativeCrossOver never draws: 0, the parent's size (nothing is cut
                # off), the other's size (empty tail); repeated on the same (possibly kept) parents
                a, b = r.sample(pop, 2)
                for _ in range(r.choice([1, 2, 3])):
                    p1 = r.choice([0, a.size(), a.size(), r.randrange(0, a.size() + 1)])
                    p2 = r.choice([0, 0, b.size(), r.randrange(0, b.size() + 1)])
                    a.cross_over(b.clone(), p1, p2)
                    if r.random() < 0.5:
                        b.cross_over(a.clone(), r.choice([0, b.size()]), r.choice([0, a.size()]))
            elif kind == "clone_append":
                # extend a clone without any registry rebuild; the original stays in the population
                cl = c.clone()
                o = r.choice(pop)
                cl.test_case.append_test_case_from(o.test_case, r.randrange(0, o.size() + 1))
                if r.random() < 0.5:
                    pop[r.randrange(len(pop))] = cl
            elif kind == "local_search":
                c.set_last_execution_result(FakeResult(None))
                TestCaseLocalSearch(None, None, Timer(150)).local_search(c, factory, Objective(r))
            elif kind == "delete":
                factory.delete_statement_gracefully(c.test_case, r.randrange(-1, c.size() + 2))
            elif kind == "insert":
                factory.insert_random_statement(c.test_case, r.randrange(0, c.size() + 2))
            elif kind == "change":
                pos = r.randrange(-1, c.size() + 1)
                sub = r.choice(["change_random_call", "mutate_call", "mutate_value", "change_statement_type",
                                "change_random_field_call"])
                what = sub
                getattr(factory, sub)(c.test_case, pos)
            elif kind == "remove_fwd":   # what the statement minimisers do
                if c.size():
                    c.test_case.remove_statement_with_forward_dependencies(r.randrange(0, c.size()))
            elif kind == "chop":
                c.test_case.chop(r.randrange(-1, c.size() + 1))
            elif kind == "ruv":
                c.test_case.remove_unused_variables()
            elif kind == "clone":
                pop[pop.index(c)] = c.clone()
            elif kind == "append":
                o = r.choice(pop)
                if o is not c:
                    c.test_case.append_test_case(o.test_case)
            elif kind == "exec_result":
                c.set_last_execution_result(FakeResult(r.choice([None, r.randrange(0, c.size() + 1)])))
        except Exception as e:  # noqa: BLE001  an operator that raises is counted; well-formedness is still checked
            stats[f"op-exception:{what}:{type(e).__name__}"] = stats.get(f"op-exception:{what}:{type(e).__name__}", 0) + 1
            stats.setdefault("op-exception-sample", traceback.format_exc()[-800:])
        stats[f"op:{what}"] = stats.get(f"op:{what}", 0) + 1
        check(step, what)
    for c in pop:
        stats["final-size-max"] = max(stats.get("final-size-max", 0), c.size())
        stats[f"size>{maxlen}" if c.size() > maxlen else "size<=max"] = stats.get(
            f"size>{maxlen}" if c.size() > maxlen else "size<=max", 0) + 1
    return fails


def work(task):
    """Runs in a worker process: one generated module, several histories."""
    try:
        vlib.setup_impl_path()
        from pathlib import Path

        from pynguin.utils.naming import get_module_alias

        mod_seed, hists, scratch, sample_seed, cap = task
        rec = recorder()
        rec.steps.clear(), rec.xover.clear(), rec.inserts.clear(), rec.unsupported.clear()
        rec.alias.clear(), rec.alias_ok.clear(), rec._live.clear(), rec.ls.clear()
        rec.origin = "factory"
        name = f"c15sut_{mod_seed}"
        src = L.gen_module_source(random.Random(mod_seed))
        cluster, module = L.load_cluster(Path(scratch), name, src)
        alias = get_module_alias(name)
        stats, failures = {}, []
        stats["accessibles"] = cluster.num_accessible_objects_under_test()
        for hist_seed, n_steps, maxlen in hists:
            fs = run_history(cluster, module, alias, hist_seed, n_steps, maxlen, stats)
            for sig, msg, step in fs[:3]:
                failures.append({"signature": sig, "message": msg,
                                 "replay": {"mod_seed": mod_seed, "hist_seed": hist_seed, "n_steps": step + 1,
                                            "maxlen": maxlen, "module_source": src}})
        sr = random.Random(sample_seed)
        steps = rec.steps
        for s in steps:
            stats["call:" + s["op"][0]] = stats.get("call:" + s["op"][0], 0) + 1
        if len(steps) > cap:
            steps = sr.sample(steps, cap)
        xo = rec.xover if len(rec.xover) <= cap // 8 else sr.sample(rec.xover, cap // 8)
        return {"steps": [L.c_case(s) for s in steps], "xover": [L.c_xcase(x) for x in xo],
                "inserts": [L.c_icase(i) for i in rec.inserts[:cap]], "failures": failures, "stats": stats,
                "alias": [L.c_acase(a) for a in (rec.alias + rec.alias_ok)[:cap // 4]],
                "ls": [L.c_lcase(a) for a in rec.ls[:cap // 2]],
                "unsupported": list(rec.unsupported), "n_steps_total": len(rec.steps)}
    except Exception as e:  # noqa: BLE001
        return {"crash": f"{type(e).__name__}: {e}", "trace": traceback.format_exc()[-3000:]}


# ------------------------------------------------------------------------------------------------
# direct random calls on the container (also on malformed test cases): K2 for the container model
TYPES = [int, str, float, list, dict, None]


def build_tc(r, n, wf):
    import libcst as cst
    import pynguin.assertion.assertion as ass
    from pynguin.testcase.testcase import Statement, TestCase

    tc = TestCase()
    bound = []
    nxt = 0
    for i in range(n):
        pool = list(bound)
        if not wf and r.random() < 0.25:
            pool = pool + [f"var_{r.randrange(0, n + 3)}"]
        uses = r.sample(pool, min(len(pool), r.choice([0, 1, 1, 2, 3]))) if pool else []
        args = ", ".join(uses)
        form = r.choice(["assign", "assign", "assign", "assign", "expr", "ann", "multi", "attr"])
        if not wf and r.random() < 0.15 and bound:
            v = r.choice(bound)
        else:
            v = f"var_{nxt}"
        if form == "expr":
            code, bv = f"foo({args})", None
        elif form == "ann":
            code, bv = f"{v}: int = foo({args})", v
        elif form == "multi":
            code, bv = f"{v} = other_name = foo({args})", v
        elif form == "attr" and uses:
            code, bv = f"{v} = {uses[0]}.attr", v
        else:
            code, bv = f"{v} = mod_0.foo({args})", v
        if bv is not None:
            if bv == f"var_{nxt}":
                nxt += 1
            bound.append(bv)
        asserts = []
        if r.random() < 0.3:
            k = r.random()
            src = r.choice(bound) if bound and k < 0.7 else "mod_0.K.f"
            if r.random() < 0.3:
                src += ".fld"
            asserts.append(r.choice([lambda: ass.ObjectAssertion(src, 5), lambda: ass.FloatAssertion(src, 1.5),
                                     lambda: ass.ExceptionAssertion("builtins", "ValueError")])())
        st = Statement(node=cst.parse_statement(code + "\n"), bound_variable=bv,
                       bound_type=r.choice(TYPES) if bv is not None else None, assertions=asserts)
        tc._statements.append(st)
    tc._var_counter = nxt if wf or r.random() < 0.6 else r.randrange(0, nxt + 1)
    tc._rebuild_registry()
    if not wf and r.random() < 0.2 and tc._type_registry:
        k = r.choice(list(tc._type_registry))
        tc._type_registry[k] = tc._type_registry[k][::-1] + ["var_99"]
    return tc


def direct_cases(r, n_cases):
    import libcst as cst
    from pynguin.testcase.testcase import Statement
    from pynguin.testcase.testfactory import TestFactory
    from pynguin.utils import randomness

    rec = recorder()
    rec.steps.clear()
    rec.origin = "direct"
    kinds = ["add", "insert", "remove", "replace", "batch", "chop", "next", "clone", "fwd", "dsg", "append",
             "append", "ruv", "ruv"]
    for k in range(n_cases):
        randomness.RNG.seed(r.randrange(2**30))
        wf = r.random() < 0.7
        tc = build_tc(r, r.choice([0, 1, 2, 3, 5, 8, 12]), wf)
        n = tc.size()
        kind = r.choice(kinds)

        def new_stmt():
            pos = r.randrange(0, n + 1)
            pool = [s.bound_variable for s in tc._statements[:pos] if s.bound_variable] if r.random() < 0.8 else \
                [f"var_{r.randrange(0, n + 2)}"]
            uses = r.sample(pool, min(len(pool), r.choice([0, 1, 2])))
            v = tc._var_counter if r.random() < 0.8 else r.randrange(0, n + 2)
            bvn = r.choice([f"var_{v}", f"var_{v}", None])
            code = f"{bvn} = bar({', '.join(uses)})" if bvn else f"bar({', '.join(uses)})"
            return pos, Statement(node=cst.parse_statement(code + "\n"), bound_variable=bvn,
                                  bound_type=r.choice(TYPES) if bvn else None)
        try:
            if kind == "add":
                tc.add_statement(new_stmt()[1])
            elif kind == "insert":
                pos, st = new_stmt()
                tc.insert_statement(pos if r.random() < 0.9 else n + 3, st)
            elif kind == "remove":
                tc.remove_statement(r.randrange(0, n + 2))
            elif kind == "replace":
                pos, st = new_stmt()
                if pos < n and r.random() < 0.6:
                    old = tc._statements[pos]
                    uses = sorted(n_ for n_ in st.used_variables() if L.VAR_RE.match(n_))
                    code = (f"{old.bound_variable} = " if old.bound_variable else "") + f"baz({', '.join(uses)})"
                    st = Statement(node=cst.parse_statement(code + "\n"), bound_variable=old.bound_variable,
                                   bound_type=r.choice(TYPES) if old.bound_variable else None)
                tc.replace_statement(pos, st)
            elif kind == "batch":
                tc.remove_statements_batch({r.randrange(0, n + 2) for _ in range(r.choice([0, 1, 2, 3]))})
            elif kind == "chop":
                tc.chop(r.randrange(-2, n + 2))
            elif kind == "next":
                tc.next_var_name()
            elif kind == "clone":
                tc.clone()
            elif kind == "fwd":
                tc.remove_statement_with_forward_dependencies(r.randrange(0, n + 1))
            elif kind == "dsg":
                TestFactory.delete_statement_gracefully(tc, r.randrange(0, n + 2))
            elif kind == "append":
                other = build_tc(r, r.choice([1, 2, 3, 5, 8]), r.random() < 0.8)
                tc.append_test_case_from(other, r.randrange(0, other.size() + 1))
            elif kind == "ruv":
                tc.remove_unused_variables()
        except (IndexError,):
            pass
    out = list(rec.steps)
    rec.steps.clear()
    rec.origin = "factory"
    return out


# ------------------------------------------------------------------------------------------------
def plan(ctx):
    q = ctx.quick
    n_mod = 5 if q else 24
    n_hist = 4 if q else 10
    n_steps = 40 if q else 50
    tasks = []
    corpus = json.loads((vlib.VERIF / "corpus" / "C15.json").read_text())
    scratch = str(ctx.mkscratch())
    cap = 220 if q else 320
    for c in corpus:
        tasks.append((c["mod_seed"], [(c["hist_seed"], c["n_steps"], c["maxlen"])], scratch, 1, cap))
    for _ in range(n_mod):
        mod_seed = ctx.rng.randrange(10**8)
        hists = [(ctx.rng.randrange(10**8), n_steps, ctx.rng.choice([2, 4, 6, 10, 10, 16, 24])) for _ in range(n_hist)]
        tasks.append((mod_seed, hists, scratch, ctx.rng.randrange(10**8), cap))
    return tasks, len(corpus)


def run(ctx: vlib.Ctx):
    vlib.setup_impl_path()
    ctx.digest_sources(SRC)
    ctx.coq_static()
    if not ctx.quick:
        ctx.coqchk()
    tasks, n_corpus = plan(ctx)
    ctx.log(f"running {sum(len(t[1]) for t in tasks)} histories on {len(tasks)} generated modules")
    with mp.get_context("fork").Pool(min(16, len(tasks))) as pool:
        results = pool.map(work, tasks, chunksize=1)
    ctx.log("histories done")
    steps, xover, inserts, stats, alias, lscases = [], [], [], {}, [], []
    n_fail = 0
    total_calls = 0
    for t, res in zip(tasks, results):
        if "crash" in res:
            ctx.broken("harness-crash", f"worker crashed on module seed {t[0]}: {res['crash']}", {"trace": res["trace"]})
            continue
        steps += res["steps"]
        xover += res["xover"]
        inserts += res["inserts"]
        alias += res["alias"]
        lscases += res["ls"]
        total_calls += res["n_steps_total"]
        for k, v in res["stats"].items():
            if isinstance(v, int):
                stats[k] = (max(stats.get(k, 0), v) if k == "final-size-max" else stats.get(k, 0) + v)
            else:
                stats.setdefault(k, v)
        if res["unsupported"]:
            ctx.broken("correspondence:C15-unsupported-call", "container called with a negative index (outside the model)",
                       {"calls": sorted(set(res["unsupported"]))})
        for f in res["failures"]:
            n_fail += 1
            ctx.fail(f["signature"], f["message"], f["replay"])
        for _hs in t[1]:
            ctx.case_seen((t[0], _hs), nontrivial=True)
    for k, v in sorted(stats.items()):
        if isinstance(v, int):
            ctx.count(k, v)
    if "op-exception-sample" in stats:
        ctx.notes.append("an operator raised during a history (counted, not a C15 failure): " + stats["op-exception-sample"][-400:])
    ctx.leg("S", histories=sum(len(t[1]) for t in tasks), oracle_failures=n_fail, container_calls=total_calls,
            corpus=n_corpus)
    # direct calls on the container, also malformed test cases
    direct = direct_cases(random.Random(ctx.rng.randrange(10**9)), 500 if ctx.quick else 3000)
    for d in direct:
        ctx.case_seen(("direct", L.canon_rec(d)), nontrivial=len(d["pre"]["stmts"]) > 0)
        ctx.count("direct:" + d["op"][0])
    dcases = [L.c_case(d) for d in direct]
    ctx.log(f"{len(direct)} direct container cases; evaluating the model in Coq")
    ctx.sample({"direct_case": dcases[0][:600]} if dcases else {})
    ctx.sample({"factory_step_case": steps[0][:600]} if steps else {})
    ctx.cov["rule"] = ("histories = (generated module, history seed): 4 chromosomes, 40-60 operations drawn from mutate / "
                       "crossover / local search / graceful delete / insert / change ops / chop / unused-variable removal / "
                       "clone / append over generated clusters; every history is non-trivial; direct container cases are "
                       "distinct (state, call) pairs, non-trivial when the test case is non-empty")
    ok = True
    big = 500
    b_f = ctx.run_cases("C15_factory", IMPORTS, "C15.case", "C15.check_factory", steps, shard=big)
    b_d = ctx.run_cases("C15_direct", IMPORTS, "C15.case", "C15.check_step", dcases, shard=big)
    b3 = ctx.run_cases("C15_xover", IMPORTS, "C15.xcase", "C15.check_crossover", xover, shard=200)
    b4 = ctx.run_cases("C15_insert", IMPORTS, "C15.icase", "C15.check_insert", inserts, shard=5000)
    b5 = ctx.run_cases("C15_alias", IMPORTS, "C15.acase", "C15.check_alias", alias, shard=big)
    b6 = ctx.run_cases("C15_ls", IMPORTS, "C15.lcase", "C15.check_ls", lscases, shard=big)
    b1 = b2 = None
    if b_f is not None and b_d is not None:
        b1 = [len(steps) + i for i in b_d]
        b2 = []
        if b_f:  # classify the disagreeing factory calls: model mismatch or precondition violated
            sub = [steps[i] for i in b_f]
            r1 = ctx.run_cases("C15_factory_step", IMPORTS, "C15.case", "C15.check_step", sub, shard=big)
            r2 = ctx.run_cases("C15_factory_pre", IMPORTS, "C15.case", "C15.check_pre", sub, shard=big)
            b1 = [b_f[i] for i in (r1 or [])] + b1
            b2 = [b_f[i] for i in (r2 or [])]
    allc = steps + dcases
    for name, bad, pool_, what in (
        ("C15-container-model", b1, allc, "the container model (about which WF preservation is proved) no longer reproduces the real TestCase operations"),
        ("C15-factory-preconditions", b2, steps, "a call issued by the factory code on a well-formed test case violates the precondition under which WF preservation is proved"),
        ("C15-crossover-model", b3, xover, "the crossover model no longer reproduces splice_test_case_chromosomes"),
        ("C15-insertion-loop-model", b4, inserts, "the insertion-loop model (undo of overshooting insertions) no longer reproduces _mutation_insert"),
        ("C15-local-search-rollback", b6, lscases, "a local search that found no improvement did not restore the test case exactly (or an accepted result is not well-formed)"),
        ("C15-value-semantics", b5, alias, "a call on one test case changed another live test case (the model treats test cases as values: clone is independent)"),
    ):
        if bad is None:
            ok = False
        elif bad:
            ok = False
            ctx.leg("K2:" + name, ok=False, mismatches=len(bad), cases=len(pool_))
            if n_fail == 0:
                ctx.broken("correspondence:" + name, what, {"first_case": pool_[bad[0]][:3000], "mismatching": len(bad)})
        else:
            ctx.leg("K2:" + name, ok=True, cases=len(pool_))
    ctx.assumptions += [
        "a statement is abstracted to (bound variable, test-case variables among used_variables(), bound type, assertions, "
        "convertible flag, normalised text); names other than var_N (module alias, attributes, keywords, builtins) are not variables",
        "randomness.choice outcomes inside append_test_case_from are taken from the run (the theorem quantifies over all outcomes)",
        "TestFactory (2 700 lines) is not modelled: its effect is observed as the sequence of container calls it issues, each "
        "checked against the proved precondition; local search runs with a stub objective/timer (no execution)",
    ]
    ctx.cov["trusted_base"] += ["hand-written IR model Base/TestCaseIR.v + Models/C15.v tied by per-call correspondence (this run)",
                                "harness/props/_c15_lib.py (abstraction, recorder, ast oracle), harness/props/C15.py"]
    return ok


def replay(ctx, path):
    vlib.setup_impl_path()
    d = json.loads(open(path).read())["replay"]
    scratch = str(ctx.mkscratch())
    res = work((d["mod_seed"], [(d["hist_seed"], d["n_steps"], d["maxlen"])], scratch, 1, 50))
    print("module under test:\n" + d.get("module_source", ""))
    print("failures:", json.dumps(res.get("failures", res), indent=1)[:6000])
    return 0
