"""C07 — every branch goal is reachable in the DynaMOSA goal graph.

T  static proofs (Proofs/C07.v + C06): closure/monotonicity of the goals manager, a goal whose
   parents are covered is current, pruning with re-linking preserves root reachability, building
   cannot fail under checked premises.
K  per generated module x exclusion configuration the real instrumentation is run; dumped are the
   unpruned and covered CDGs (+ removal order), the predicate registry, the real _BranchFitnessGraph
   and the states of the real _GoalsManager/CoverageArchive over a random history; Coq (vm_compute)
   checks prune / build (+ premises, root reachability) / update models against them.
S  direct oracle: building raises, goals unreachable from the root branches, unregistered
   dependencies, a simulated search that does not drain all goals.
"""
from __future__ import annotations

import json
import re
import warnings

import vlib
from vlib import cN, cbool, clist, cpair
from props import _c06_extract as X
from props import _c06_gen as G
from props import _c07_impl as I

SRC = ["src/pynguin/ga/algorithms/dynamosaalgorithm.py", "src/pynguin/instrumentation/transformer.py",
       "src/pynguin/instrumentation/controlflow.py", "src/pynguin/ga/coveragegoals.py"]
IMPORTS = "From Verif Require Import Base.Graph Models.C06 Models.C07."


def c_goal(g):
    if g[0] == "L":
        return f"C07.GL {cN(g[1])}"
    return f"C07.GB {cN(g[1])} {cN(g[2])} {cbool(g[3])}"


def c_module(out):
    cos = clist("{| C07.co_id := %s; C07.co_cdg := %s; C07.co_preds := %s |}" % (
        cN(c["id"]), clist(X.c_ledge(e) for e in c["cdg"]), clist(cpair(cN(n), cN(p)) for n, p in c["preds"]))
        for c in out["cos"])
    return "{| C07.cos := %s; C07.goals := %s |}" % (cos, clist(c_goal(g) for g in out["goals"]))


def c_edges(es):
    return clist(cpair(cN(a), cN(b)) for a, b in es)


def c_nlist(ns):
    return clist(cN(n) for n in ns)


ERR = {"KeyError": "C07.EKey", "RuntimeError": "C07.ERuntime", "AssertionError": "C07.EAssert"}


def c_build_case(out):
    if "error" in out:
        if out["error"] not in ERR:
            return None
        exp = f"inl {ERR[out['error']]}"
    else:
        exp = f"inr ({c_edges(out['edges'])}, {c_nlist(out['roots'])})"
    return f"({c_module(out)}, {exp})"


def c_prune_case(co):
    return f"({clist(X.c_ledge(e) for e in co['unpruned'])}, {c_nlist(co['removed'])}, {clist(X.c_ledge(e) for e in co['cdg'])})"


def c_query_case(triples, obs):
    o = clist(f"({cN(n)}, {clist(cpair(cN(a), cbool(v)) for a, v in deps)}, {cbool(root)})" for n, deps, root in obs)
    return f"({clist(X.c_ledge(e) for e in triples)}, {o})"


def c_mgr_case(out, truths, hist):
    g = "{| C07.gnodes := %s; C07.gedges := %s; C07.groots := %s |}" % (
        c_nlist(range(len(out["goals"]))), c_edges(out["edges"]), c_nlist(out["roots"]))
    return f"({g}, {clist(c_nlist(t) for t in truths)}, {clist(cpair(c_nlist(cur), c_nlist(cov)) for cur, cov in hist)})"


# ------------------------------------------------------------------------------------------------
def run_one(src, kw, path, rng):
    """Instrument + dump one module/configuration.  Returns dict with status and artefacts."""
    res = {"src": src, "to_cover": kw}
    try:
        sp, captured = I.instrument(src, path, kw)
    except ValueError as e:
        res["status"] = "skipped:config-conflict" if "Conflicting cover lines" in str(e) else f"skipped:instrumentation-error:{type(e).__name__}"
        return res
    except Exception as e:  # noqa: BLE001  (instrumentation defects belong to C01 ...)
        import traceback

        frames = [f.filename for f in traceback.extract_tb(e.__traceback__)]
        if any(f.endswith("instrumentation/controlflow.py") for f in frames) and not any("version/python3" in f for f in frames):
            # ... unless the CFG / (covered) CDG construction itself raises: then no goal graph can be built
            res["status"] = "ok-but-no-cdg"
            res["fails"] = [(f"build:controlflow:{type(e).__name__}",
                             f"CFG/CDG construction raised {type(e).__name__}: {str(e)[:120]}; no goal graph can be built for the module")]
            return res
        res["status"] = f"skipped:instrumentation-error:{type(e).__name__}"
        return res
    out, graph, ffs = I.dump_module(sp, captured)
    res.update(status="ok", out=out)
    fails = []
    if "error" in out:
        fails.append((f"build:{out['error']}", f"_BranchFitnessGraph raised {out['error']}: {out.get('error_msg', '')}"))
        res["fails"] = fails
        return res
    n = len(out["goals"])
    # every goal reachable from the root branches
    succ = {}
    for a, b in out["edges"]:
        succ.setdefault(a, []).append(b)
    seen, todo = set(out["roots"]), list(out["roots"])
    while todo:
        x = todo.pop()
        for y in succ.get(x, []):
            if y not in seen:
                seen.add(y)
                todo.append(y)
    if len(seen) != n:
        miss = sorted(set(range(n)) - seen)
        fails.append(("goalgraph:unreachable-goal", f"goals {[out['goals'][k] for k in miss[:4]]} are not reachable from the root branches"))
    # every control dependency of a registered predicate resolves to a registered predicate
    for pid, meta in sp.existing_predicates.items():
        cdg = sp.existing_code_objects[meta.code_object_id].cdg
        regs = {m.node for m in sp.existing_predicates.values() if m.code_object_id == meta.code_object_id}
        try:
            deps = cdg.get_control_dependencies(meta.node)
        except Exception as e:  # noqa: BLE001
            fails.append((f"goalgraph:dependencies-raise:{type(e).__name__}", f"get_control_dependencies of predicate {pid} raised"))
            break
        bad = [d for d in deps if d.node not in regs]
        if bad:
            fails.append(("goalgraph:unregistered-dependency", f"predicate {pid} depends on unregistered node {X.ident(bad[0].node)}"))
            break
    # a goal structurally depends exactly on the goals (predicate of the same code object, outcome) of
    # its predicate's control dependencies
    gindex = {g: k for k, g in enumerate(out["goals"])}
    expected = set()
    try:
        for k, g in enumerate(out["goals"]):
            if g[0] != "B":
                continue
            meta = sp.existing_predicates[g[2]]
            node2pid = {m.node: p for p, m in sp.existing_predicates.items() if m.code_object_id == g[1]}
            for d in sp.existing_code_objects[g[1]].cdg.get_control_dependencies(meta.node):
                expected.add((gindex[("B", g[1], node2pid[d.node], bool(d.branch_value))], k))
    except KeyError:
        expected = None
    if expected is not None and expected != set(map(tuple, out["edges"])):
        wrong = sorted(set(map(tuple, out["edges"])) ^ expected)[0]
        fails.append(("goalgraph:edges-differ-from-control-dependencies",
                      f"goal graph edge {out['goals'][wrong[0]]} -> {out['goals'][wrong[1]]} does not correspond to a control "
                      "dependency of the child's predicate in its own code object (or such an edge is missing)"))
    # root dependence / dependencies must not depend on the insertion order of the CDG edges
    import networkx as nx
    from pynguin.instrumentation import controlflow as cf

    def reordered(cdg, edges):
        g2 = nx.DiGraph()
        g2.add_nodes_from(cdg.graph.nodes)
        for a, b, d in edges:
            g2.add_edge(a, b, **d)
        return cf.ControlDependenceGraph(g2)

    alt = {}
    for coid, meta in sp.existing_code_objects.items():
        es = list(meta.cdg.graph.edges(data=True))
        alt[coid] = [reordered(meta.cdg, es), reordered(meta.cdg, reversed(es))]
    for pid, meta in sp.existing_predicates.items():
        c1 = sp.existing_code_objects[meta.code_object_id].cdg
        for c2 in alt[meta.code_object_id]:
            if c1.is_control_dependent_on_root(meta.node) != c2.is_control_dependent_on_root(meta.node):
                fails.append(("goalgraph:root-depends-on-edge-order",
                              f"is_control_dependent_on_root of predicate {pid} (node {X.ident(meta.node)}) changes when the same CDG edges are inserted in another order"))
                break
            if set(c1.get_control_dependencies(meta.node)) != set(c2.get_control_dependencies(meta.node)):
                fails.append(("goalgraph:dependencies-depend-on-edge-order",
                              f"get_control_dependencies of predicate {pid} changes when the same CDG edges are inserted in another order"))
                break
        if fails:
            break
    # every node of every real covered CDG is asked in several orders on the SAME object (the one
    # the goal graph was built from) and on a fresh object; state carried between queries must
    # not change an answer.  Answers are compared with the closure reading (S) and with the model (K).
    res["query_cases"] = []
    n_before = len(fails)
    for coid, meta in sorted(sp.existing_code_objects.items()):
        triples = X.graph_triples(meta.cdg.graph)
        seed = 31 * len(triples) + coid
        obs, err = X.query_all(meta.cdg, X.query_orders(meta.cdg, seed))
        fresh = cf.ControlDependenceGraph(meta.cdg.graph.copy())
        orders = X.query_orders(fresh, seed + 1)
        obs2, err2 = X.query_all(fresh, [orders[2], orders[2][::-1], orders[4]])
        allobs = sorted({(qn, tuple(map(tuple, qd)), qr) for qn, qd, qr in obs + obs2})
        res["query_cases"].append((coid, triples, [(qn, list(qd), qr) for qn, qd, qr in allobs]))
        if err or err2:
            fails.append((f"goalgraph:query-raises:{err or err2}", f"a CDG query of code object {coid} raised"))
            continue
        for qn, qd, qr in allobs:
            d2, r2 = X.queries(triples, qn)
            if qr != r2:
                fails.append(("goalgraph:query:root", f"is_control_dependent_on_root(node {qn}) of code object {coid} answered {qr} in one "
                              f"of several query orders on the same CDG; the CDG edges give {r2}"))
                break
            if sorted(qd) != d2:
                fails.append(("goalgraph:query:dependencies", f"get_control_dependencies(node {qn}) of code object {coid} answered {sorted(qd)} "
                              f"in one of several query orders; the CDG edges give {d2}"))
                break
        if len(fails) > n_before:
            break
    # goals manager over a random history, and a simulated search that must drain all goals
    truths = []
    for _ in range(rng.choice([1, 3, 6])):
        k = rng.choice([0, 1, 1, 2, max(1, n // 2), n])
        truths.append(sorted(rng.sample(range(n), min(n, k))) if n else [])
    hist = I.drive_manager(sp, ffs, truths)
    res.update(truths=truths, hist=hist)
    parents = {}
    for a, b in out["edges"]:
        parents.setdefault(b, []).append(a)
    for cur, cov in hist:
        for g in range(n):
            if all(p in cov for p in parents.get(g, [])) and g not in cur and g not in cov:
                fails.append(("manager:goal-with-covered-parents-not-current", f"goal {out['goals'][g]} has all parents covered but is neither current nor covered"))
                break
    left, steps = I.drain(sp, ffs, rng)
    res["drain_steps"] = steps
    if left:
        fails.append(("manager:goal-never-offered", f"a search covering every offered goal never covers {[out['goals'][k] for k in left[:4]]}"))
    res["fails"] = fails
    return res


def _job(args):
    import random

    warnings.simplefilter("ignore")
    src, kw, path, seed = args
    return run_one(src, kw, path, random.Random(seed))


def shrink_module(src, kw, sig, path, rng_seed):
    """Drop top-level blocks while the same failure persists."""
    import random

    def fails(s):
        if G.compiles(s) is None:
            return False
        try:
            r = run_one(s, kw, path, random.Random(rng_seed))
        except Exception:  # noqa: BLE001
            return False
        return any(f[0] == sig for f in r.get("fails", []))
    blocks = re.split(r"\n(?=(?:def |class |if ))", src)
    changed = True
    while changed and len(blocks) > 1:
        changed = False
        for i in range(len(blocks)):
            cand = "\n".join(blocks[:i] + blocks[i + 1:])
            if fails(cand):
                blocks.pop(i)
                changed = True
                break
    return "\n".join(blocks)


def run(ctx: vlib.Ctx):
    vlib.setup_impl_path()
    warnings.simplefilter("ignore")
    ctx.digest_sources(SRC)
    ctx.coq_static()
    if not ctx.quick:
        ctx.coqchk()
    ctx.log("static development checked")
    rng = ctx.rng
    scratch = ctx.mkscratch()
    n_mod = 70 if ctx.quick else 600
    n_cfg = 2 if ctx.quick else 3
    jobs = []
    for k, c in enumerate(json.loads((vlib.VERIF / "corpus" / "C07.json").read_text())):
        jobs.append((c["src"], c.get("to_cover", {}), f"corpus[{k}] {c.get('note', '')}"))
    for k in range(n_mod):
        src = G.gen_module(rng, allow_try=rng.random() < 0.7)
        if G.compiles(src) is None:
            ctx.count("generated:syntax-error")
            continue
        for j in range(n_cfg):
            s2, kw, desc = I.add_exclusions(rng, src)
            jobs.append((s2, kw, f"generated module #{k} config #{j} ({desc['mode']})"))
            ctx.count("exclusion-mode:" + desc["mode"])
    build_cases, prune_cases, mgr_cases, query_cases = [], [], [], []
    origin_b, origin_p, origin_m, origin_q = [], [], [], []
    n_fail = 0
    failing = set()
    shrunk = set()
    import multiprocessing as mp

    args = [(src, kw, scratch / f"genmod_{idx}.py", rng.getrandbits(48)) for idx, (src, kw, _) in enumerate(jobs)]
    with mp.Pool(12) as pool:
        results = pool.map(_job, args, chunksize=4)
    for idx, ((src, kw, origin), r) in enumerate(zip(jobs, results)):
        ctx.count("status:" + r["status"])
        if r["status"] == "ok-but-no-cdg":
            n_fail += 1
            failing.add(idx)
            for sig, msg in r["fails"]:
                ctx.fail(sig, f"{origin}: {msg}", {"origin": origin, "src": src, "to_cover": kw})
            continue
        if r["status"] != "ok":
            continue
        out = r["out"]
        n_pruned = sum(len(c["removed"] or []) for c in out["cos"])
        ctx.count("modules-with-pruned-cdg-nodes" if n_pruned else "modules-without-pruning")
        ctx.count("goals", len(out["goals"]))
        ctx.count("goal-graph-edges", len(out.get("edges", [])))
        ctx.case_seen((src, sorted(kw.items())), nontrivial=any(g[0] == "B" for g in out["goals"]))
        if r.get("fails"):
            n_fail += 1
            failing.add(idx)
            sig, msg = r["fails"][0]
            small = shrink_module(src, kw, sig, scratch / "shrink.py", 1) if sig not in shrunk else src
            shrunk.add(sig)
            ctx.fail(sig, f"{origin}: {msg}", {"origin": origin, "src": small, "to_cover": kw})
            for sig2, msg2 in r["fails"][1:]:
                ctx.fail(sig2, f"{origin}: {msg2}", {"origin": origin, "src": src, "to_cover": kw})
        bc = c_build_case(out)
        if bc is not None:
            build_cases.append(bc)
            origin_b.append(idx)
        for c in out["cos"]:
            if c["unpruned"] is not None:
                prune_cases.append(c_prune_case(c))
                origin_p.append((idx, c["id"]))
        for coid, triples, obs in r.get("query_cases", []):
            if len(triples) > 1:
                query_cases.append(c_query_case(triples, obs))
                origin_q.append((idx, coid))
        if "hist" in r:
            mgr_cases.append(c_mgr_case(out, r["truths"], r["hist"]))
            origin_m.append(idx)
            ctx.count("manager-updates", len(r["truths"]))
            ctx.count("drain-updates", r["drain_steps"])
        if len(ctx.cov["samples"]) < 3 and n_pruned and len(out["goals"]) > 4:
            ctx.sample({"origin": origin, "src": src, "to_cover": kw, "goals": out["goals"], "edges": out.get("edges"),
                        "roots": out.get("roots"), "removed_cdg_nodes": [c["removed"] for c in out["cos"]]})
    ctx.leg("S", oracle_failures=n_fail, modules=len(jobs))
    ctx.log(f"{len(jobs)} module/configuration pairs run on the implementation; {len(prune_cases)} prune, {len(build_cases)} build, "
            f"{len(query_cases)} query, {len(mgr_cases)} manager cases")
    ctx.cov["rule"] = ("one case per generated module (1-3 functions, optional class and module-level branch; nested/"
                       "sequential branches, loops, try/except/finally, early returns, generators) x exclusion configuration "
                       "(none / inline pragma / only_cover / no_cover names / both); non-trivial = at least one branch goal; "
                       "distinct = distinct (source, configuration)")

    def report(name, bad, origins, cases, what):
        ctx.log(f"{name}: {len(cases)} cases evaluated in Coq")
        if bad is None:
            return
        ctx.leg(name, ok=not bad, evaluated=len(cases), mismatches=len(bad))
        unexplained = [b for b in bad if (origins[b][0] if isinstance(origins[b], tuple) else origins[b]) not in failing]
        if unexplained:
            b = unexplained[0]
            j = origins[b][0] if isinstance(origins[b], tuple) else origins[b]
            detail = {"origin": jobs[j][2], "src": jobs[j][0], "to_cover": jobs[j][1], "mismatching_cases": len(unexplained)}
            if name == "K-build":
                detail["check_build_code"] = ctx.coq_eval(IMPORTS, "C07.check_build_code " + cases[b])
            ctx.broken(f"correspondence:C07-{name}", what, detail)

    import concurrent.futures as cf_

    def shard(cases):
        return max(10, -(-len(cases) // 8))

    specs = [
        ("K-prune", "C07_prune", "C07.prune_case", "C07.check_prune", prune_cases, origin_p,
         "the node-removal model does not reproduce InstrumentationTransformer._create_covered_cdg"),
        ("K-queries", "C07_query", "list (N * option bool * N) * list C06.obs",
         "fun c => forallb (C06.check_obs (fst c)) (snd c)", query_cases, origin_q,
         "get_control_dependencies / is_control_dependent_on_root of a covered CDG, asked for every node in several "
         "orders on the same object, do not equal the closure model (C06.deps_model / C06.is_root_model)"),
        ("K-build", "C07_build", "C07.build_case", "C07.check_build", build_cases, origin_b,
         "the goal-graph model does not reproduce _BranchFitnessGraph (code 1 error kind, 2 edges, 3 roots, 4 premises "
         "fail, 5 goal not reachable from roots, 6 one side raised)"),
        ("K-manager", "C07_mgr", "C07.mgr_case", "C07.check_mgr", mgr_cases, origin_m,
         "the update model does not reproduce _GoalsManager.update with the real CoverageArchive"),
    ]
    with cf_.ThreadPoolExecutor(max_workers=4) as ex:
        futs = [ex.submit(ctx.run_cases, fname, IMPORTS, ctype, chk, cases, shard(cases)) for _, fname, ctype, chk, cases, _, _ in specs]
        bads = [f.result() for f in futs]
    for (name, _, _, _, cases, origins, what), bad in zip(specs, bads):
        report(name, bad, origins, cases, what)
    ctx.assumptions += [
        "solutions are abstracted to the set of goals they cover (stub chromosomes); the archive is the real CoverageArchive",
        "goal identity = position in the list of fitness functions; CDG node identity as in C06",
        "modules that the instrumentation itself rejects (conflicting exclusion configuration, instrumentation defects of "
        "C01) are counted and skipped: no goal graph exists for them",
    ]
    ctx.cov["trusted_base"] += ["harness/props/_c07_impl.py (dump of CDGs, registry, goal graph; stub solutions)",
                                "generator harness/props/_c06_gen.py"]


def replay(ctx, path):
    import random

    vlib.setup_impl_path()
    warnings.simplefilter("ignore")
    d = json.loads(open(path).read())["replay"]
    if "src" not in d:
        d = d.get("detail", d)
    scratch = ctx.mkscratch()
    r = run_one(d["src"], d.get("to_cover", {}), scratch / "replay.py", random.Random(1))
    print("status:", r["status"])
    if r["status"] == "ok":
        out = r["out"]
        print("goals:", out["goals"])
        print("real graph:", out.get("edges"), "roots:", out.get("roots"), out.get("error", ""))
        for c in out["cos"]:
            print(f"code object {c['id']}: preds {c['preds']} removed {c['removed']} cdg {c['cdg']}")
        print("oracle:", r.get("fails"))
        bc = c_build_case(out)
        if bc:
            print("model check_build_code:", ctx.coq_eval(IMPORTS, "C07.check_build_code " + bc))
    return 0
