"""C21 helpers: observation of MutationAnalysisAssertionGenerator (scripted and real runs).

Everything here observes the implementation through its stable entry points
(`_select_minimal_assertions`, `_handle_add_assertions`, `_add_assertions`,
`_execute_test_case_on_mutants`, `_testing_mutation_summary`); nothing is re-implemented except the
small independent oracle `classify` used by the direct checks.
"""
from __future__ import annotations

import os
import shutil
import sys
import traceback
from pathlib import Path

SUTS = {
    "sut_num": '''
LIMIT = 10


def clamp(x: int, lo: int, hi: int) -> int:
    if x < lo:
        return lo
    if x > hi:
        return hi
    return x


def area(w: int, h: int) -> int:
    if w <= 0 or h <= 0:
        raise ValueError("bad")
    return w * h + 1


class Acc:
    total = 0

    def __init__(self, start: int):
        self.value = start
        self.count = 0

    def add(self, n: int) -> int:
        self.value += n
        self.count += 1
        return self.value

    def over(self) -> bool:
        return self.value > LIMIT
''',
    "sut_str": '''
def initials(name: str) -> str:
    out = ""
    for part in name.split(" ")[:8]:
        if part:
            out += part[0].upper()
    return out


def pad(text: str, width: int) -> str:
    if width > 40:
        width = 40
    if len(text) >= width:
        return text
    return text + "*" * (width - len(text))


def classify(text: str) -> int:
    if not text:
        return 0
    if text.isdigit():
        return 1
    if text.startswith("a") or text.endswith("z"):
        return 2
    return 3
''',
    "sut_stack": '''
class Stack:
    def __init__(self):
        self.items = []
        self.pushes = 0

    def push(self, x: int) -> int:
        self.items.append(x)
        self.pushes += 1
        return len(self.items)

    def pop(self) -> int:
        if not self.items:
            raise IndexError("empty")
        return self.items.pop()

    def size(self) -> int:
        return len(self.items)


def total(n: int, step: int) -> int:
    result = 0
    for i in range(min(n, 12)):
        if i % 2 == 0:
            result += step
        else:
            result -= 1
    return result
''',
    "sut_float": '''
def mean(a: float, b: float) -> float:
    return (a + b) / 2.0


def sign(x: int) -> int:
    if x > 0:
        return 1
    if x < 0:
        return -1
    return 0


def ratio(a: int, b: int) -> float:
    if b == 0:
        raise ZeroDivisionError("b")
    return a / b


def bucket(x: int) -> str:
    if x < 10 and x >= 0:
        return "small"
    if x >= 10 and not x > 100:
        return "medium"
    return "other"
''',
}


# ---------------------------------------------------------------------------------------------
def codes_of_test(test, seen=None):
    """Assertions of a test as integer codes: equal assertions get equal codes, exception
    assertions negative codes.  `seen` carries the code table between snapshots of one test."""
    import pynguin.assertion.assertion as ass

    if seen is None:
        seen = []
    out = []
    for st in test.statements():
        row = []
        for a in st.assertions:
            idx = None
            for i, b in enumerate(seen):
                if a == b:
                    idx = i
                    break
            if idx is None:
                seen.append(a)
                idx = len(seen) - 1
            row.append(-(idx + 1) if isinstance(a, ass.ExceptionAssertion) else idx + 1)
        out.append(row)
    return out


def cell_of(result):
    if result is None:
        return None
    tr = result.assertion_verification_trace
    viol = set()
    for d in (tr.failed, tr.error):
        for pos, idxs in d.items():
            for i in idxs:
                viol.add((int(pos), int(i)))
    return [bool(result.timeout), sorted(viol), bool(result.has_test_exceptions())]


def classify(column):
    """Independent oracle: class of one mutant from its per-test cells (test order)."""
    killed = False
    for c in column:
        if c is None:
            continue
        if c[0]:
            return "timeout"
        if c[1] or c[2]:
            killed = True
    return "killed" if killed else "survived"


def float_ratio(x: float):
    n, d = float(x).as_integer_ratio()
    return [n, d]


class Capture:
    """Wraps one MutationAnalysisAssertionGenerator instance during _handle_add_assertions."""

    def __init__(self, gen, test_cases):
        self.gen = gen
        self.tests = test_cases
        self.stream = []  # per delivered mutant: None | list of cells
        self.kmaps = []

    def tee(self, orig):
        cap = self

        def wrapped(test_cases, mutant_count):
            for item in orig(test_cases, mutant_count):
                if item is None:
                    cap.stream.append(None)
                    yield None
                else:
                    res = list(item)
                    cap.stream.append([cell_of(r) for r in res])
                    yield res
        return wrapped


def observe_handle(ag, gen, test_cases, orig_handle, lazy_stream=None):
    """Run gen._handle_add_assertions(test_cases) and return the CRun observation dict.
    lazy_stream: for scripted runs the raw (unpadded) stream the scripted executor will deliver."""
    import pynguin.configuration as config

    cap = Capture(gen, test_cases)
    seens = [[] for _ in test_cases]
    before = [codes_of_test(t, sn) for t, sn in zip(test_cases, seens)]
    gen._testing = True
    orig_exec = gen._execute_test_case_on_mutants
    gen._execute_test_case_on_mutants = cap.tee(orig_exec)
    orig_sel = ag._select_minimal_assertions

    def sel(km):
        keep = orig_sel(km)
        cap.kmaps.append([[list(k), sorted(v)] for k, v in km.items()])
        return keep
    ag._select_minimal_assertions = sel
    try:
        orig_handle(gen, test_cases)
    finally:
        ag._select_minimal_assertions = orig_sel
        del gen._execute_test_case_on_mutants
    summary = gen._testing_mutation_summary
    metrics = summary.get_metrics()
    obs = {
        "tests": before,
        "stream": cap.stream,
        "cut": len(cap.stream),
        "lazy": False,
        "minimize": bool(config.configuration.test_case_output.assertion_minimization),
        "infos": [[list(i.timed_out_by), list(i.killed_by)] for i in summary.mutant_information],
        "metrics": [metrics.num_created_mutants, metrics.num_killed_mutants, metrics.num_timeout_mutants],
        "score": float_ratio(metrics.get_score()),
        "score_float": metrics.get_score(),
        "kmaps": cap.kmaps,
        "final": [codes_of_test(t, sn) for t, sn in zip(test_cases, seens)],
    }
    return obs, orig_exec


def make_holds_checker():
    """Independent re-execution oracle: evaluates every kept assertion right after its statement was
    executed (also when the statement raised), without RemoteAssertionVerificationObserver."""
    import libcst as cst

    import pynguin.assertion.assertion as ass
    from pynguin.assertion.assertion_to_ast import assertion_to_cst
    from pynguin.testcase.execution import RemoteExecutionObserver

    class HoldsChecker(RemoteExecutionObserver):
        def __init__(self):
            super().__init__()
            self.violations = []
            self.position = 0
            self.checked = 0

        def before_test_case_execution(self, test_case):  # noqa: ARG002
            self.position = 0
            self.violations = []

        def after_statement_execution(self, statement, executor, namespace, exception):  # noqa: ARG002
            position = self.position
            self.position += 1
            for idx, assertion in enumerate(statement.assertions):
                if isinstance(assertion, ass.ExceptionAssertion):
                    self.checked += 1
                    if exception is None or type(exception).__name__ != assertion.exception_type_name:
                        self.violations.append((position, idx, f"expected {assertion.exception_type_name}, got {exception!r}"))
                    continue
                node = assertion_to_cst(assertion)
                if node is None:
                    continue
                source = cst.Module(body=[node]).code.strip()
                self.checked += 1
                try:
                    exec(compile(source, "<recheck>", "exec"), namespace)  # noqa: S102
                except BaseException as exc:  # noqa: BLE001
                    self.violations.append((position, idx, f"`{source}` after a statement that raised {exception!r}: "
                                                           f"{type(exc).__name__}: {exc}"[:300]))

        def after_test_case_execution(self, executor, test_case, result):
            pass

    return HoldsChecker()


STATEFUL_SUT = '''
"""Stateful subjects: the second execution of the same call behaves differently."""

_names = []
_budget = {"left": 1}
_seen = set()


def register(name: str) -> int:
    if name in _names:
        raise ValueError(f"duplicate name {name!r}")
    _names.append(name)
    return len(_names) * 0 + 1


def take(amount: int) -> int:
    if _budget["left"] < amount:
        raise RuntimeError("budget exhausted")
    _budget["left"] -= amount
    return amount + 41


def first_time(key: str) -> bool:
    if key in _seen:
        raise KeyError(key)
    _seen.add(key)
    return True


def stable(x: int) -> int:
    return x * 2 + 1


registry = {"events": []}
history = [{"calls": []}, {"calls": []}]


def log_event(name: str) -> int:
    registry["events"].append(name)
    return 7


def note(x: int) -> bool:
    history[x % 2]["calls"].append(x)
    return True


class Once:
    used = False

    def fire(self) -> str:
        if Once.used:
            raise RuntimeError("already fired")
        Once.used = True
        return "fired"
'''


def run_stateful(spec: dict) -> dict:
    """Hand-built test cases on a stateful module: a statement succeeds in the capture pass and raises
    in the in-process filtering re-execution.  Afterwards every kept assertion is re-checked by the
    independent HoldsChecker."""
    out = {"spec": spec, "cases": [], "fails": [], "stats": {}, "error": None}
    scratch = Path(spec["scratch"])
    try:
        sys.path.insert(0, str(Path(__file__).resolve().parents[1]))
        import vlib

        vlib.setup_impl_path()
        import importlib
        import logging
        import random

        logging.disable(logging.CRITICAL)
        import libcst as cst

        import pynguin.assertion.assertiongenerator as ag
        import pynguin.configuration as config
        import pynguin.ga.testcasechromosome as tcc
        import pynguin.ga.testsuitechromosome as tsc
        import pynguin.testcase.testcase as tc
        from pynguin.instrumentation.machinery import install_import_hook
        from pynguin.instrumentation.tracer import SubjectProperties
        from pynguin.testcase.execution import TestCaseExecutor
        from pynguin.utils.naming import get_module_alias

        rng = random.Random(spec["seed"])
        scratch.mkdir(parents=True, exist_ok=True)
        module_name = "c21_stateful_sut"
        (scratch / f"{module_name}.py").write_text(STATEFUL_SUT.lstrip("\n"))
        sys.path.insert(0, str(scratch))
        config.configuration.module_name = module_name
        alias = get_module_alias(module_name)

        def stmt(code, var, typ=None):
            node = cst.parse_module(code + "\n").body[0]
            return tc.Statement(node=node, bound_variable=var, bound_type=typ)

        import pynguin.assertion.mutation_analysis.mutators as mu
        import pynguin.assertion.mutation_analysis.operators as mo
        from pynguin.assertion.mutation_analysis.controller import MutationController
        from pynguin.assertion.mutation_analysis.transformer import ParentNodeTransformer

        stats = {"stateful_tests": 0, "stateful_checked": 0, "stateful_kept": 0, "stateful_raise_on_rerun": 0,
                 "stateful_wiring_shared": 0, "stateful_wiring_distinct": 0, "stateful_generator_plain": 0,
                 "stateful_generator_mutation": 0}
        sp = SubjectProperties()
        with install_import_hook(module_name, sp):
            with sp.instrumentation_tracer:
                importlib.import_module(module_name)
            executor = TestCaseExecutor(sp)
            filtering = TestCaseExecutor(sp)          # a second, distinct in-process executor for the filtering pass
            module_ast = ParentNodeTransformer.create_ast(STATEFUL_SUT.lstrip("\n"))
            operators = [*mo.standard_operators, *mo.experimental_operators]
            uid = 0
            for _round in range(spec["rounds"]):
                # every fourth round is a FRESH round: a single test, the module is re-executed (fresh module state)
                # before the capture pass and again before the re-check, so the rendered text of every kept assertion
                # is evaluated against fresh module state
                fresh = _round % 4 == 3
                tests = []
                for _t in range(1 if fresh else rng.choice([1, 2, 3])):
                    t = tc.TestCase()
                    n = 0
                    for _s in range(rng.choice([1, 2, 3])):
                        uid += 1
                        kind = rng.choice(["register", "register", "take", "first", "once", "stable", "stable"])
                        if fresh and rng.random() < 0.6:
                            # nested SUT-retained state is only touched in fresh rounds (one test, fresh module state):
                            # in a multi-test round an assertion on it would depend on the order of the other tests
                            kind = rng.choice(["log", "log", "note"])
                        if kind == "register":
                            t.add_statement(stmt(f"str_{n} = 'name{uid}'", f"str_{n}", str))
                            t.add_statement(stmt(f"int_{n} = {alias}.register(str_{n})", f"int_{n}", int))
                        elif kind == "take":
                            t.add_statement(stmt(f"int_{n} = {alias}.take(1)", f"int_{n}", int))
                        elif kind == "first":
                            t.add_statement(stmt(f"bool_{n} = {alias}.first_time('k{uid}')", f"bool_{n}", bool))
                        elif kind == "once":
                            t.add_statement(stmt(f"once_{n} = {alias}.Once()", f"once_{n}"))
                            t.add_statement(stmt(f"str_{n} = once_{n}.fire()", f"str_{n}", str))
                        elif kind == "log":
                            t.add_statement(stmt(f"int_{n} = {alias}.log_event('e{uid % 3}')", f"int_{n}", int))
                        elif kind == "note":
                            t.add_statement(stmt(f"bool_{n} = {alias}.note({rng.randrange(4)})", f"bool_{n}", bool))
                        else:
                            t.add_statement(stmt(f"int_{n} = {alias}.stable({rng.randrange(9)})", f"int_{n}", int))
                        n += 1
                    tests.append(t)
                suite = tsc.TestSuiteChromosome()
                for t in tests:
                    suite.add_test_case_chromosome(tcc.TestCaseChromosome(t))
                # reset the budget/once state so that the capture pass succeeds once more
                mod = sys.modules[module_name]
                if fresh:
                    with sp.instrumentation_tracer:
                        importlib.reload(mod)
                    stats["stateful_fresh_rounds"] = stats.get("stateful_fresh_rounds", 0) + 1
                mod._budget["left"] = 1
                mod.Once.used = False
                # both wirings: one shared executor / a dedicated filtering executor; plain and mutation-analysis generator.
                # (A fresh-subprocess filtering executor is not used here: its module state starts empty, so the
                # statement does not raise there and the subject would be flaky by construction.)
                distinct = _round % 2 == 1
                mutation = _round % 3 == 2
                stats["stateful_wiring_distinct" if distinct else "stateful_wiring_shared"] += 1
                stats["stateful_generator_mutation" if mutation else "stateful_generator_plain"] += 1
                wiring = "distinct-filtering-executor" if distinct else "shared-executor"
                if mutation:
                    mutator = mu.FirstOrderMutator(operators, maximum_mutants=rng.choice([4, 8]), sampling_seed=rng.randrange(99), reorder=True)
                    controller = MutationController(mutator, module_ast, mod)
                    config.configuration.test_case_output.assertion_minimization = rng.random() < 0.7
                    generator = ag.MutationAnalysisAssertionGenerator(executor, controller, filtering_executor=filtering if distinct else None)
                    wiring += "+mutation-analysis"
                elif distinct:
                    generator = ag.AssertionGenerator(executor, rng.choice([1, 1, 2]), filtering_executor=filtering)
                else:
                    generator = ag.AssertionGenerator(executor, rng.choice([1, 1, 2]))
                suite.accept(generator)
                for t in tests:
                    if fresh:
                        with sp.instrumentation_tracer:
                            importlib.reload(mod)
                        mod._budget["left"] = 1
                        mod.Once.used = False
                        wiring_note = wiring + "+fresh-module-state"
                    else:
                        wiring_note = wiring
                    checker = make_holds_checker()
                    with executor.temporarily_add_remote_observer(checker):
                        res = executor.execute(t)
                    stats["stateful_tests"] += 1
                    stats["stateful_checked"] += checker.checked
                    stats["stateful_kept"] += sum(len(s.assertions) for s in t.statements())
                    stats["stateful_raise_on_rerun"] += int(res.has_test_exceptions())
                    if checker.violations and not res.timeout:
                        code = [cst.Module(body=[s.node]).code.strip() for s in t.statements()]
                        out["fails"].append({
                            "signature": "holding:kept-assertion-fails-on-original",
                            "what": f"stateful subject ({wiring_note}): {len(checker.violations)} kept assertion(s) do not hold when the test is "
                                    f"re-executed on the unmutated module: {checker.violations[:2]}",
                            "replay": {"spec": spec, "wiring": wiring_note, "test": code, "violated": checker.violations[:5]}})
        out["stats"] = stats
    except BaseException as e:  # noqa: BLE001
        out["error"] = f"{type(e).__name__}: {e}\n" + traceback.format_exc()[-2500:]
    finally:
        shutil.rmtree(scratch, ignore_errors=True)
    return out


# ---------------------------------------------------------------------------------------------
def run_real(spec: dict) -> dict:
    """One real pynguin run in this (fresh) process.  Returns captured CRun observations, direct
    oracle failures and statistics."""
    out = {"spec": spec, "cases": [], "fails": [], "stats": {}, "error": None}
    scratch = Path(spec["scratch"])
    try:
        sys.path.insert(0, str(Path(__file__).resolve().parents[1]))
        import vlib

        vlib.setup_impl_path()
        import ast
        import logging

        logging.disable(logging.CRITICAL)
        import pynguin.assertion.assertiongenerator as ag
        import pynguin.assertion.assertiontraceobserver as ato
        import pynguin.configuration as config
        from pynguin.generator import run_pynguin, set_configuration
        from pynguin.utils import randomness

        proj = scratch / "proj"
        proj.mkdir(parents=True, exist_ok=True)
        (proj / (spec["module"] + ".py")).write_text(SUTS[spec["module"]].lstrip("\n"))
        outdir = scratch / "out"
        tco = config.TestCaseOutputConfiguration(
            output_path=str(outdir),
            assertion_generation=config.AssertionGenerator(spec["assertion_generation"]),
            mutation_strategy=config.MutationStrategy(spec["strategy"]),
            mutation_order=spec["order"],
            maximum_mutants=spec["max_mutants"],
            assertion_minimization=spec["minimization"],
            filter_assertions_in_subprocess=spec["subprocess_filter"],
        )
        cfg = config.Configuration(
            project_path=str(proj), module_name=spec["module"], test_case_output=tco,
            algorithm=config.Algorithm(spec["algorithm"]),
            stopping=config.StoppingConfiguration(maximum_iterations=spec["iterations"], maximum_search_time=-1),
            seeding=config.SeedingConfiguration(seed=spec["seed"]),
            statistics_output=config.StatisticsOutputConfiguration(
                report_dir=str(outdir), statistics_backend=config.StatisticsBackend.NONE),
        )
        stats = {"tests": 0, "assertions_full": 0, "assertions_kept": 0, "mutants": 0, "killed": 0,
                 "timeouts": 0, "reexecuted": 0, "held": 0, "recomputed_mutants": 0,
                 "enumeration_differs": 0, "gained_kills": 0, "handle_calls": 0, "add_calls": 0}
        depth = {"n": 0}
        orig_add = ag.AssertionGenerator._add_assertions
        orig_mut_add = ag.MutationAnalysisAssertionGenerator._add_assertions
        orig_handle = ag.MutationAnalysisAssertionGenerator._handle_add_assertions

        def render(test):
            try:
                return [(s.node and __import__("libcst").Module(body=[s.node]).code.strip(), [repr(a) for a in s.assertions])
                        for s in test.statements()]
            except Exception:  # noqa: BLE001
                return [repr(test)]

        def holding_check(self, test_cases):
            """S(a): every assertion left holds when the test is re-executed on the original
            (independent checker, not the implementation's verification observer)."""
            plain = self._plain_executor
            for t in test_cases:
                checker = make_holds_checker()
                with plain.temporarily_add_remote_observer(checker):
                    r = plain.execute(t)
                stats["reexecuted"] += 1
                if r.timeout:
                    continue
                n_ass = sum(len(s.assertions) for s in t.statements())
                stats["assertions_kept"] += n_ass
                if checker.violations:
                    out["fails"].append({
                        "signature": "holding:kept-assertion-fails-on-original",
                        "what": f"{len(checker.violations)} kept assertion(s) fail when the test is re-executed on the unmutated "
                                f"module {spec['module']}: {checker.violations[:2]}",
                        "replay": {"spec": spec, "test": render(t), "violated": checker.violations[:5]}})
                else:
                    stats["held"] += n_ass

        def wrapped_handle(self, test_cases):
            stats["handle_calls"] += 1
            rng_state = randomness.RNG.getstate()
            sigs1: list = []
            ctrl = self._mutation_controller
            orig_create = ctrl.create_mutants

            def create_sig(store):
                def f():
                    for item in orig_create():
                        try:
                            store.append(ast.unparse(ctrl._module_ast))
                        except Exception:  # noqa: BLE001
                            store.append("?")
                        yield item
                return f
            ctrl.create_mutants = create_sig(sigs1)
            try:
                obs, orig_exec = observe_handle(ag, self, test_cases, orig_handle)
            finally:
                del ctrl.create_mutants
            out["cases"].append(obs)
            stats["tests"] += len(test_cases)
            stats["assertions_full"] += sum(len(s) for t in obs["tests"] for s in t)
            stats["mutants"] += len(obs["infos"])
            cols1 = [c for c in obs["stream"] if c is not None]
            cls1 = [classify(c) for c in cols1]
            stats["killed"] += cls1.count("killed")
            stats["timeouts"] += cls1.count("timeout")
            # subset
            for t_before, t_after in zip(obs["tests"], obs["final"]):
                for sb, sa in zip(t_before, t_after):
                    it = iter(sb)
                    if not all(any(x == y for y in it) for x in sa):
                        out["fails"].append({"signature": "subset:kept-not-subsequence",
                                             "what": f"assertions after the mutation phase {sa} are not a subsequence of {sb}",
                                             "replay": {"spec": spec, "before": sb, "after": sa}})
            # S(b): recompute the kills of the reduced assertion sets on the same mutants
            post_state = randomness.RNG.getstate()
            randomness.RNG.setstate(rng_state)
            sigs2: list = []
            ctrl.create_mutants = create_sig(sigs2)
            stream2 = []
            try:
                for item in orig_exec(test_cases, len(obs["stream"])):
                    stream2.append(None if item is None else [cell_of(r) for r in item])
            finally:
                del ctrl.create_mutants
                randomness.RNG.setstate(post_state)
            if sigs1 != sigs2 or [c is None for c in obs["stream"]] != [c is None for c in stream2]:
                stats["enumeration_differs"] += 1
                return
            cols2 = [c for c in stream2 if c is not None]
            valid_idx = [i for i, c in enumerate(obs["stream"]) if c is not None]
            for j, (c1, c2) in enumerate(zip(cols1, cols2)):
                k1, k2 = classify(c1), classify(c2)
                if k1 == "timeout" or k2 == "timeout":
                    continue
                stats["recomputed_mutants"] += 1
                if k1 == "killed" and k2 != "killed":
                    out["fails"].append({
                        "signature": "kills:reduced-assertions-lose-mutant",
                        "what": f"mutant {j} of {spec['module']} is killed by the full assertion set but survives the kept subset",
                        "replay": {"spec": spec, "mutant": j, "mutant_source": sigs1[valid_idx[j]],
                                   "cells_full": c1, "cells_kept": c2,
                                   "tests_before": obs["tests"], "tests_after": obs["final"], "kill_maps": obs["kmaps"]}})
                elif k1 != "killed" and k2 == "killed":
                    stats["gained_kills"] += 1

        def wrapped_add(self, test_cases):
            depth["n"] += 1
            try:
                orig_add(self, test_cases)
            finally:
                depth["n"] -= 1
            if depth["n"] == 0 and type(self)._add_assertions is wrapped_add:
                stats["add_calls"] += 1
                holding_check(self, test_cases)

        def wrapped_mut_add(self, test_cases):
            depth["n"] += 1
            try:
                orig_mut_add(self, test_cases)
            finally:
                depth["n"] -= 1
            if depth["n"] == 0:
                stats["add_calls"] += 1
                holding_check(self, test_cases)

        ag.AssertionGenerator._add_assertions = wrapped_add
        ag.MutationAnalysisAssertionGenerator._add_assertions = wrapped_mut_add
        ag.MutationAnalysisAssertionGenerator._handle_add_assertions = wrapped_handle
        set_configuration(cfg)
        rc = run_pynguin()
        out["stats"] = stats
        out["exit"] = str(rc)
    except BaseException as e:  # noqa: BLE001
        out["error"] = f"{type(e).__name__}: {e}\n" + traceback.format_exc()[-2500:]
    finally:
        shutil.rmtree(scratch, ignore_errors=True)
    # daemon threads of timed-out executions must not keep the worker alive
    return out


def launch(spec: dict, timeout: int = 1200) -> dict:
    """Run one real run in a fresh interpreter (pynguin keeps non-daemon helpers alive, so the child
    leaves through os._exit) and read its result file."""
    import json
    import subprocess

    res_path = spec["scratch"] + ".result.json"
    try:
        subprocess.run([sys.executable, str(Path(__file__).resolve()), json.dumps(spec), res_path],
                       timeout=timeout, capture_output=True, check=False,
                       env={**os.environ, "PYTHONHASHSEED": "0"})
        with open(res_path) as fh:
            return json.load(fh)
    except Exception as e:  # noqa: BLE001
        return {"spec": spec, "cases": [], "fails": [], "stats": {}, "error": f"launcher: {type(e).__name__}: {e}"}
    finally:
        with __import__("contextlib").suppress(OSError):
            os.unlink(res_path)
        shutil.rmtree(spec["scratch"], ignore_errors=True)


if __name__ == "__main__":
    import json

    spec = json.loads(sys.argv[1])
    result = run_stateful(spec) if spec.get("kind") == "stateful" else run_real(spec)
    with open(sys.argv[2], "w") as fh:
        json.dump(result, fh, default=repr)
    sys.stdout.flush()
    os._exit(0)
