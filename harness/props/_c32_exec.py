"""C32 — real TestCaseExecutor sessions with looping and terminating test cases, run in a process of
their own (abandoned threads and the import hook must not leak into the harness).

usage: _c32_exec.py '<json>'   with {"dir", "seed", "n", "max_timeout", "per_stmt"}   prints RESULT <json>

The session first executes every terminating test case once on the fresh executor (reference results:
no abandoned thread exists yet), then a seeded interleaving of looping test cases (pure-Python loop in
instrumented code, loop with short sleeps, one long C-level sleep followed by instrumented code) and
terminating ones.  For every execution it reports wall time, timeout flag, exception types per
position, covered line numbers, executed code objects, predicates with true/false distance entries,
and whether the main thread called tracer.stop() during execute.
"""
from __future__ import annotations

import importlib
import json
import os
import random
import sys
import threading
import time
from pathlib import Path

SUT = '''
import logging
import time

def spin(n: int) -> int:
    i = 0
    while True:
        i += 1
        if i < 0:
            break
    return i

def spin_sleep(n: int) -> int:
    i = 0
    while n >= 0:
        time.sleep(0.005)
        i += 1
        if i % 2 == 0:
            n += 1
    return i

def nap_then_branch(t: float) -> int:
    time.sleep(t)
    if t > 1:
        return 1
    return 0

def quick(x: int) -> str:
    if x > 3:
        return "big"
    if x == 0:
        raise ValueError("zero")
    return "small"

def other(s: str) -> int:
    if s.startswith("a"):
        return 1
    if len(s) > 4:
        return 2
    return 3

class Slow:
    def __init__(self, delay: float):
        self.delay = delay

    def __eq__(self, other):
        time.sleep(self.delay)
        return True

    __hash__ = None

def spin_eq(a, b) -> int:
    hits = 0
    while True:
        if a == b:
            hits += 1

def mute_block(t: float) -> int:
    logging.disable(logging.ERROR)
    while True:
        time.sleep(t)

def logs_enabled() -> int:
    if logging.getLogger("c32sut").isEnabledFor(logging.ERROR):
        return 1
    return 0

def busy(ms: int) -> int:
    end = time.monotonic() + ms / 1000.0
    k = 0
    while time.monotonic() < end:
        k += 1
    return 1
'''

TERMINATING = {
    "quick5": ["var_0 = quick(5)"],
    "quick1": ["var_0 = quick(1)"],
    "quick0": ["var_0 = quick(0)", "var_1 = quick(7)"],
    "other_a": ["var_0 = other('abc')"],
    "other_long": ["var_0 = 'xxxxxxx'", "var_1 = other(var_0)"],
    "other_short": ["var_0 = other('zz')", "var_1 = quick(2)"],
    "busy": ["var_0 = busy(300)"],
    "typeerr": ["var_0 = quick('s')"],
    # branches on process-global logging state that an abandoned execution may have changed
    "logcheck": ["var_0 = logs_enabled()"],
}
LOOPING = {
    "spin": ["var_0 = spin(1)"],
    "spin2": ["var_0 = quick(9)", "var_1 = spin(2)"],
    "spin_sleep": ["var_0 = spin_sleep(3)"],
    "nap": ["var_0 = nap_then_branch(%NAP%)"],
    # calls logging.disable(ERROR) and then blocks in uninstrumented code for good
    "mute_block": ["var_0 = mute_block(30.0)"],
    # abandoned INSIDE a predicate callback: the operands' __eq__ sleeps longer than timeout + grace join
    "spin_eq": ["var_0 = Slow(%EQ%)", "var_1 = Slow(%EQ%)", "var_2 = spin_eq(var_0, var_1)"],
}


def main() -> None:
    sc = json.loads(sys.argv[1])
    base = Path(sc["dir"])
    base.mkdir(parents=True, exist_ok=True)
    (base / "c32sut.py").write_text(SUT)
    os.environ["PYNGUIN_DANGER_AWARE"] = "1"
    import logging

    # silence pynguin's own loggers WITHOUT logging.disable: the process-wide disable level is what the
    # mute_block / logcheck tests are about
    logging.getLogger("pynguin").setLevel(logging.CRITICAL + 1)
    logging.getLogger("pynguin").propagate = False
    logging.getLogger("pynguin").addHandler(logging.NullHandler())
    import libcst as cst

    import pynguin.configuration as config
    from pynguin.instrumentation.machinery import install_import_hook
    from pynguin.instrumentation.tracer import SubjectProperties
    from pynguin.testcase.execution import TestCaseExecutor
    from pynguin.testcase.testcase import Statement, TestCase

    config.configuration.module_name = "c32sut"
    config.configuration.project_path = str(base)
    config.configuration.statistics_output.coverage_metrics = [config.CoverageMetric.BRANCH,
                                                               config.CoverageMetric.LINE]
    sys.path.insert(0, str(base))
    sp = SubjectProperties()
    install_import_hook("c32sut", sp)
    with sp.instrumentation_tracer:
        importlib.import_module("c32sut")
    max_t, per = sc["max_timeout"], sc["per_stmt"]
    ex = TestCaseExecutor(sp, maximum_test_execution_timeout=max_t, test_execution_time_per_statement=per)

    # observe tracer.stop() calls made by the main thread (wrap, do not replace)
    tracer = sp.instrumentation_tracer
    main_ident = threading.current_thread().ident
    stops = {"n": 0}
    real_stop = type(tracer).stop

    def counting_stop(self):
        if threading.current_thread().ident == main_ident:
            stops["n"] += 1
        return real_stop(self)

    type(tracer).stop = counting_stop

    # observe the timeouts the main thread passes to Thread.join while it waits for a test's thread
    joins: list = []
    real_join = threading.Thread.join

    def recording_join(self, timeout=None):
        if threading.current_thread().ident == main_ident and self.daemon:
            joins.append(timeout)
        return real_join(self, timeout)

    threading.Thread.join = recording_join
    kept: list = []          # (record, result object): re-read at the end of the session

    def tc(lines):
        t = TestCase()
        for i, ln in enumerate(lines):
            t.add_statement(Statement(node=cst.parse_statement(ln), bound_variable=f"var_{i}"))
        return t

    def run(name, lines):
        t = tc(lines)
        before = stops["n"]
        del joins[:]
        threads_before = set(threading.enumerate())
        t0 = time.monotonic()
        r = ex.execute(t)
        wall = time.monotonic() - t0
        new_alive = sum(1 for th in threading.enumerate() if th not in threads_before and th.is_alive())
        rec = snapshot(r)
        rec.update({"name": name, "size": len(lines), "wall": round(wall, 3),
                    "main_stops": stops["n"] - before, "new_alive": new_alive, "joins": list(joins),
                    "ident_after": tracer.tracer._current_thread_identifier is None})
        kept.append((rec, r))
        return rec

    def snapshot(r):
        tr = r.execution_trace
        return {
            "timeout": bool(r.timeout),
            "exceptions": sorted([int(k), type(v).__name__] for k, v in r.exceptions.items()),
            "lines": sorted(int(x) for x in sp.lineids_to_linenos(tr.covered_line_ids)),
            "code_objects": sorted(int(x) for x in tr.executed_code_objects),
            "true": sorted(int(x) for x in tr.true_distances),
            "false": sorted(int(x) for x in tr.false_distances),
            "true_zero": sorted(int(k) for k, v in tr.true_distances.items() if v == 0.0),
            "false_zero": sorted(int(k) for k, v in tr.false_distances.items() if v == 0.0),
            "predicates": sorted(int(x) for x in tr.executed_predicates),
        }

    rng = random.Random(sc["seed"])
    reference = {name: run(name, lines) for name, lines in TERMINATING.items()}
    eq_delay = min(max_t, per * 3) + max_t + 1.5       # longer than timeout + grace join of the spin_eq test
    session = []
    last_eq = None
    plan = list(sc.get("first", []))
    for i in range(sc["n"]):
        if i < len(plan):
            name = plan[i]
        elif rng.random() < 0.4:
            name = rng.choice(list(LOOPING))
        else:
            name = rng.choice(list(TERMINATING))
        if name in LOOPING:
            lines = [ln.replace("%NAP%", str(rng.choice([max_t * 1.3, max_t * 2.2, max_t * 2.6, max_t * 3.5])))
                       .replace("%EQ%", str(eq_delay)) for ln in LOOPING[name]]
            if name == "spin_eq":
                last_eq = time.monotonic()
            session.append({"kind": "looping", **run(name, lines), "lines_src": lines})
        else:
            session.append({"kind": "terminating", **run(name, TERMINATING[name])})
    # let every thread that was abandoned inside a sleeping __eq__ wake up and finish its callback, then
    # read all results again: a result must not change after it was returned
    if last_eq is not None:
        time.sleep(max(0.0, last_eq + eq_delay + 1.5 - time.monotonic()))
    n_ref = len(reference)
    for k, (rec, r) in enumerate(kept):
        (rec if k < n_ref else session[k - n_ref])["final"] = snapshot(r)
    alive = sum(1 for th in threading.enumerate() if th is not threading.main_thread())
    print("RESULT " + json.dumps({"reference": reference, "session": session, "threads_alive_at_end": alive,
                                  "max_timeout": max_t, "per_stmt": per}), flush=True)
    os._exit(0)      # abandoned threads stuck in C-level sleeps must not keep the process alive


if __name__ == "__main__":
    main()
