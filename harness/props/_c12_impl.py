"""C12 helper: drives the REAL ComputationCache / TestCaseChromosome / TestSuiteChromosome /
mutation and crossover operators with table-driven stub fitness functions and a stub executor, and
records the complete observable state after every operation.

The stub executor returns, for a test case, a result object carrying the *content code* of the test
case that was executed (code = index of its rendered source in the world's table).  Stub fitness and
coverage functions subclass the real TestCase*/TestSuite* computation classes and obtain their
results through the real `_run_test_case_chromosome` / `_run_test_suite_chromosome`.
"""
from __future__ import annotations

import statistics
import zlib
from fractions import Fraction

NF = 4      # fitness function ids 0..NF-1 (test level and suite level)
NC = 3      # coverage function ids

SUT_SRC = '''
class Acc:
    def __init__(self, start: int) -> None:
        self.v = start

    def add(self, x: int) -> int:
        self.v += x
        return self.v

    def name(self, s: str) -> str:
        return s + str(self.v)


def twice(x: int) -> int:
    if x > 3:
        return x * 2
    return x


def join(a: str, b: str) -> str:
    return a + b


class Box:
    def __init__(self) -> None:
        self.items = [1, 2]

    def size(self) -> int:
        return len(self.items)


def make_box() -> Box:
    return Box()


def label(flag: bool, name: str) -> str:
    return name if flag else name.upper()
'''

_ENV = {}


def env(scratch):
    """Real test cluster / factories for a small module (built once per process)."""
    if _ENV:
        return _ENV
    import sys

    import pynguin.configuration as config
    import pynguin.ga.testcasefactory as tcf
    import pynguin.testcase.testfactory as tf
    from pynguin.analyses.constants import EmptyConstantProvider
    from pynguin.analyses.module import generate_test_cluster

    d = scratch / "c12sut"
    d.mkdir(parents=True, exist_ok=True)
    (d / "c12mod.py").write_text(SUT_SRC)
    sys.path.insert(0, str(d))
    config.configuration.module_name = "c12mod"
    config.configuration.project_path = str(d)
    cluster = generate_test_cluster("c12mod")
    factory = tf.TestFactory(cluster, EmptyConstantProvider())
    _ENV.update(cluster=cluster, factory=factory,
                tc_factory=tcf.RandomLengthTestCaseFactory(factory, cluster))
    return _ENV


class Res:
    """Stub ExecutionResult: remembers which content was executed; optionally reports an exception at a
    statement position (that steers get_last_mutatable_statement and the chop of mutate())."""

    def __init__(self, code, exc_pos=None):
        self.code = code
        self.exc_pos = exc_pos
        self.timeout = False
        self.execution_trace = ("trace", code)

    def has_test_exceptions(self):
        return self.exc_pos is not None

    def get_first_position_of_thrown_exception(self):
        return self.exc_pos


def set_search_config(chop, maxlen):
    """Per-history search configuration of the real operators (global in pynguin): chop_max_length and
    chromosome_length (pynguin's defaults when the case does not say otherwise)."""
    import pynguin.configuration as config

    sa = config.configuration.search_algorithm
    sa.chop_max_length = True if chop is None else bool(chop)
    sa.chromosome_length = 48 if maxlen is None else int(maxlen)


class World:
    """Content codes, tables and the stub functions of one history."""

    def __init__(self, salt: int, consistent: bool, exceptions: bool = False, eager: bool = False):
        import pynguin.ga.computations as ff

        self.salt, self.cons, self.exceptions, self.eager = salt, consistent, exceptions, eager
        self.codes: dict[str, int] = {}
        self.executions = 0
        self.operator_errors: list[str] = []
        world = self

        class Exec:
            subject_properties = None

            def execute(self, test_case):
                world.executions += 1
                code = world.code(test_case)
                return Res(code, world.exc_pos(code, test_case.size()))

            def execute_multiple(self, test_cases):
                if world.eager:        # like SubprocessTestCaseExecutor: consume the input, return all results
                    return [self.execute(t) for t in list(test_cases)]
                return self._lazy(test_cases)

            def _lazy(self, test_cases):   # like TestCaseExecutor: a generator
                for t in test_cases:
                    yield self.execute(t)

        self.executor = Exec()

        class TFit(ff.TestCaseFitnessFunction):
            def __init__(self, ex, fid):
                super().__init__(ex, fid)
                self.fid = fid

            def compute_fitness(self, individual):
                return world.tF(self.fid, self._run_test_case_chromosome(individual).code) * UNIT

            def compute_is_covered(self, individual):
                return world.tK(self.fid, self._run_test_case_chromosome(individual).code)

            def is_maximisation_function(self):
                return False

        class TCov(ff.TestCaseCoverageFunction):
            def __init__(self, ex, fid):
                super().__init__(ex)
                self.fid = fid

            def compute_coverage(self, individual):
                return world.tC(self.fid, self._run_test_case_chromosome(individual).code) / 4.0

        class SFit(ff.TestSuiteFitnessFunction):
            def __init__(self, ex, fid):
                super().__init__(ex)
                self.fid = fid

            def compute_fitness(self, individual):
                return world.sF(self.fid, [r.code for r in self._run_test_suite_chromosome(individual)]) * UNIT

            def compute_is_covered(self, individual):
                return world.sK(self.fid, [r.code for r in self._run_test_suite_chromosome(individual)])

            def is_maximisation_function(self):
                return False

        class SCov(ff.TestSuiteCoverageFunction):
            def __init__(self, ex, fid):
                super().__init__(ex)
                self.fid = fid

            def compute_coverage(self, individual):
                return world.sC(self.fid, [r.code for r in self._run_test_suite_chromosome(individual)]) / 4.0

        self.tfit = [TFit(self.executor, i) for i in range(NF + 1)]     # the last one is never registered
        self.tcov = [TCov(self.executor, i) for i in range(NC + 1)]
        self.sfit = [SFit(self.executor, i) for i in range(NF + 1)]
        self.scov = [SCov(self.executor, i) for i in range(NC + 1)]

    def exc_pos(self, code, size):
        """Deterministic per content: the execution raises at an early statement (two of three contents)."""
        if not self.exceptions or size == 0:
            return None
        h = self._h("E", 0, code)
        return None if h % 3 == 0 else (h // 3) % min(size, 2)

    # -- tables (pure functions of salt, so replays need no stored table) --
    def _h(self, kind, f, c):
        return zlib.crc32(f"{self.salt}:{kind}:{f}:{c}".encode())

    def tabF(self, f, c):
        return self._h("F", f, c) % 5

    def tabC(self, f, c):
        return self._h("C", f, c) % 5

    def tabK(self, f, c):
        if self.cons:
            return 1 if self.tabF(f, c) == 0 else 0
        return self._h("K", f, c) % 2

    def tF(self, f, c):
        return self.tabF(f, c)

    def tK(self, f, c):
        return self.tabK(f, c) == 1

    def tC(self, f, c):
        return self.tabC(f, c)

    def _sfold(self, tab, salt, f, rs):
        acc = 0
        for r in rs:
            acc = (acc * 3 + tab(f, r) + salt) % 5
        return acc

    def sF(self, f, rs):
        return self._sfold(self.tabF, 1, f, rs)

    def sC(self, f, rs):
        return self._sfold(self.tabC, 2, f, rs)

    def sK(self, f, rs):
        if self.cons:
            return self.sF(f, rs) == 0
        return any(self.tabK(f, r) == 1 for r in rs)

    # -- contents --
    def code(self, test_case) -> int:
        src = test_case.to_code()
        if src not in self.codes:
            self.codes[src] = len(self.codes)
        return self.codes[src]


def mk_tc(n: int):
    """A real TestCase whose only statement is `var_0 = n` (n = 0 gives the empty test case)."""
    import libcst as cst

    from pynguin.testcase.testcase import Statement, TestCase

    t = TestCase()
    for k in range(n % 3 + (1 if n else 0)):
        t.add_statement(Statement(node=cst.parse_statement(f"var_{k} = {n + k}"), bound_variable=f"var_{k}",
                                  bound_type=int))
    return t


UNIT = 1.0   # fitness unit of the running history: fitness float = table value (0..4) * UNIT, UNIT a power of two.
             # With a tiny unit (5e-324, 5.55e-17, 9e-13, just below/above 1e-9) all non-zero fitness values are
             # near misses; sums stay exact, the abstract value is recovered by an exact division.


def as_fit(x):
    return as_int(x / UNIT)


def as_int(x, scale=1):
    y = x * scale
    return int(y) if y == int(y) else -999


def obs_tc(world, ch):
    cache = ch.computation_cache
    last = ch.get_last_execution_result()
    return {
        "content": world.code(ch.test_case),
        "last": None if last is None else last.code,
        "changed": bool(ch.changed),
        "funcs": [f.fid for f in cache._fitness_functions],
        "cfuncs": [f.fid for f in cache._coverage_functions],
        "fit": [(k.fid, as_fit(v)) for k, v in cache._fitness_cache.items()],
        "isc": [(k.fid, bool(v)) for k, v in cache._is_covered_cache.items()],
        "cov": [(k.fid, as_int(v, 4)) for k, v in cache._coverage_cache.items()],
    }


def obs_suite(world, s):
    cache = s.computation_cache
    return {
        "members": [obs_tc(world, t) for t in s.test_case_chromosomes],
        "changed": bool(s.changed),
        "funcs": [f.fid for f in cache._fitness_functions],
        "cfuncs": [f.fid for f in cache._coverage_functions],
        "fit": [(k.fid, as_fit(v)) for k, v in cache._fitness_cache.items()],
        "isc": [(k.fid, bool(v)) for k, v in cache._is_covered_cache.items()],
        "cov": [(k.fid, as_int(v, 4)) for k, v in cache._coverage_cache.items()],
    }


QUERIES = ("GetFitness", "GetFitnessFor", "GetIsCovered", "GetCoverage", "GetCoverageFor")


def do_query(ch, op, fits, covs):
    """Run one cache query on the real object; returns the abstract output."""
    name = op[0]
    try:
        if name == "GetFitness":
            return ("OVal", as_fit(ch.get_fitness()))
        if name == "GetFitnessFor":
            return ("OVal", as_fit(ch.get_fitness_for(fits[op[1]])))
        if name == "GetIsCovered":
            return ("OBool", bool(ch.get_is_covered(fits[op[1]])))
        if name == "GetCoverageFor":
            return ("OVal", as_int(ch.get_coverage_for(covs[op[1]]), 4))
        if name == "GetCoverage":
            v = ch.get_coverage()
            n = len(ch.computation_cache._coverage_cache)
            s = round(v * 4 * n)
            if n == 0 or float(Fraction(s, 4 * n)) != v:
                s = -999
            return ("OMean", s, n)
    except KeyError:
        return ("OErr", "KeyError")
    except statistics.StatisticsError:
        return ("OErr", "StatisticsError")
    except Exception as e:  # noqa: BLE001
        return ("OErr", "OtherError", type(e).__name__)
    raise ValueError(name)


def generic_op(ch, op, fits, covs):
    """Operations shared by both chromosome kinds.  Returns (handled, out)."""
    name = op[0]
    if name in QUERIES:
        return True, do_query(ch, op, fits, covs)
    if name == "AddFit":
        ch.add_fitness_function(fits[op[1]])
    elif name == "AddCov":
        ch.add_coverage_function(covs[op[1]])
    elif name == "Invalidate":
        ch.invalidate_cache()
    elif name == "SetFit":
        ch.set_fitness_values({fits[op[1]]: op[2] * UNIT})
    elif name == "SetCov":
        ch.set_coverage_values({covs[op[1]]: op[2] / 4.0})
    else:
        return False, None
    return True, ("OUnit",)


def poke_clone(world, c, fits, covs, rng_bits):
    """Exercise a clone that is then thrown away (its content was edited by the caller, flag set):
    register functions and query everything.  The original must not notice any of it."""
    c.add_fitness_function(fits[rng_bits % NF])
    c.add_coverage_function(covs[rng_bits % NC])
    c.changed = True
    try:
        c.get_fitness()
        c.get_coverage()
        for f in list(c.get_fitness_functions()):
            c.get_is_covered(f)
    except Exception:  # noqa: BLE001
        pass


class only_change_mutation:
    """mutate() draws delete / change / insert with the configured probabilities: switch delete and insert
    off and make the change mutation certain (which statements it picks stays random)."""

    def __enter__(self):
        import pynguin.configuration as config

        sa = config.configuration.search_algorithm
        self.old = (sa.test_delete_probability, sa.test_change_probability, sa.test_insert_probability)
        sa.test_delete_probability, sa.test_change_probability, sa.test_insert_probability = -1.0, 1.0, -1.0

    def __exit__(self, *exc):
        import pynguin.configuration as config

        sa = config.configuration.search_algorithm
        sa.test_delete_probability, sa.test_change_probability, sa.test_insert_probability = self.old
        return False


def apply_tc_op(world, ch, op, E):
    """Apply one test-level op to the real TestCaseChromosome.  Returns (ch', out, modelop).
    modelop: the abstract operation handed to the Coq model (real operators are abstracted to the
    observed Edit)."""
    from pynguin.ga.operators.crossover import SinglePointRelativeCrossOver
    from pynguin.ga.testcasechromosome import TestCaseChromosome

    name = op[0]
    handled, out = generic_op(ch, op, world.tfit, world.tcov)
    if handled:
        return ch, out, op
    if name == "Clone":
        return ch.clone(), ("OUnit",), ("Clone",)
    if name == "ClonePoke":
        c = ch.clone()
        c.test_case = mk_tc(1 + op[1] % 8)      # the clone is edited (flag set in poke_clone) and queried
        poke_clone(world, c, world.tfit, world.tcov, op[1])
        return ch, ("OUnit",), ("Clone",)
    if name == "SynEdit":            # synthetic operator: replace the test case, flag per mode
        ch.test_case = mk_tc(op[1])
        if op[2] == "set":
            ch.changed = True
        elif op[2] == "clear":
            ch.changed = False
    elif name == "DropResult":
        ch.remove_last_execution_result()
    elif name in ("Mutate", "MutateChange", "CrossOver", "XOverOp"):
        try:
            if name == "Mutate":           # real TestCaseMutation through the real TestFactory
                ch.mutate()
            elif name == "MutateChange":   # mutate() with only the change mutation switched on
                with only_change_mutation():
                    ch.mutate()
            elif name == "CrossOver":      # real splice with a synthetic partner
                other = TestCaseChromosome(mk_tc(op[1]), E["factory"])
                ch.cross_over(other, op[2], op[3])
            else:
                other = TestCaseChromosome(mk_tc(op[1]), E["factory"])
                for _ in range(op[2]):
                    other.mutate()
                SinglePointRelativeCrossOver().cross_over(ch, other)
        except Exception as e:  # noqa: BLE001  an operator that fails is C15's subject; the state it leaves is observed
            world.operator_errors.append(f"{name}:{type(e).__name__}")
    else:
        raise ValueError(name)
    o = obs_tc(world, ch)
    return ch, ("OUnit",), ("Edit", o["content"], o["last"], o["changed"])


def set_unit(uexp):
    global UNIT
    UNIT = 2.0 ** int(uexp or 0)


def run_tc_history(seed, salt, cons, init, ops, scratch, exc=False, chop=None, maxlen=None, uexp=0):
    """Returns list of steps: dict(op, modelop, before, after, out)."""
    from pynguin.ga.testcasechromosome import TestCaseChromosome
    from pynguin.utils import randomness

    E = env(scratch)
    set_search_config(chop, maxlen)
    randomness.RNG.seed(seed)
    set_unit(uexp)
    world = World(salt, cons, exc)
    world.code(mk_tc(0))
    if init < 0:       # built by the real RandomLengthTestCaseFactory (calls on the SUT, literals, parameterless calls)
        tcase = E["tc_factory"].get_test_case()
        for _ in range(20):
            if tcase.size() >= 2:
                break
            tcase = E["tc_factory"].get_test_case()
    else:
        tcase = mk_tc(init)
    ch = TestCaseChromosome(tcase, E["factory"])
    init_code = world.code(ch.test_case)
    steps = []
    for op in ops:
        before = obs_tc(world, ch)
        ch, out, mop = apply_tc_op(world, ch, op, E)
        steps.append({"op": op, "modelop": mop, "before": before, "after": obs_tc(world, ch), "out": out,
                      "scratch": scratch_tc(world, ch, op, E) if op[0] in QUERIES else None})
    return world, init_code, steps


def scratch_tc(world, ch, op, E):
    """The value recomputed from scratch: a brand-new chromosome for the current test case with the
    same registered functions answers the same query."""
    from pynguin.ga.testcasechromosome import TestCaseChromosome

    fresh = TestCaseChromosome(ch.test_case.clone(), E["factory"])
    for f in ch.get_fitness_functions():
        fresh.add_fitness_function(f)
    for c in ch.get_coverage_functions():
        fresh.add_coverage_function(c)
    n = world.executions
    out = do_query(fresh, op, world.tfit, world.tcov)
    world.executions = n
    return out


# ------------------------------------------------------------------------------------------------
def new_suite(world, E):
    import pynguin.ga.testcasechromosomefactory as tccf
    from pynguin.ga.testsuitechromosome import TestSuiteChromosome
    from pynguin.utils.orderedset import OrderedSet

    f = tccf.TestCaseChromosomeFactory(E["factory"], E["tc_factory"], OrderedSet())
    return TestSuiteChromosome(f)


def aliased(s, t):
    """("aliased",) if the chromosome object t occurs more than once in the suite: an operation on it
    changes several positions at once, the model then takes the observed Edit."""
    return ("aliased",) if sum(1 for x in s.test_case_chromosomes if x is t) > 1 else ()


def apply_suite_op(world, s, op, E):
    from pynguin.ga.operators.crossover import SinglePointRelativeCrossOver
    from pynguin.ga.testcasechromosome import TestCaseChromosome

    name = op[0]
    handled, out = generic_op(s, op, world.sfit, world.scov)
    if handled:
        return s, out, op
    if name == "Clone":
        return s.clone(), ("OUnit",), ("Clone",)
    if name == "ClonePoke":
        c = s.clone()
        for t in c.test_case_chromosomes:
            t.test_case = mk_tc(7)
            t.changed = True
            t.add_fitness_function(world.tfit[0])
        poke_clone(world, c, world.sfit, world.scov, op[1])
        return s, ("OUnit",), ("Clone",)
    if name == "Member":                 # op on member i (index taken modulo size)
        n = s.size()
        if n == 0:
            return s, ("OUnit",), ("Member", 0, ("Clone",), False)
        i = op[1] % n
        t = s.test_case_chromosomes[i]
        top = op[2]
        if top[0] == "SynEdit":
            t.test_case = mk_tc(top[1])
            if top[2] == "set":
                t.changed = True
            elif top[2] == "clear":
                t.changed = False
            if op[3]:
                s.changed = True
            o = obs_tc(world, t)
            return s, ("OUnit",), ("Member", i, ("Edit", o["content"], o["last"], o["changed"]), bool(op[3])) + aliased(s, t)
        if top[0] in ("Clone", "ClonePoke", "Mutate", "CrossOver", "XOverOp", "DropResult"):
            raise ValueError(top)
        if len(top) > 1 and isinstance(top[1], (list, tuple)):       # ["reg", k]: k-th registered function
            reg = t.get_coverage_functions() if top[0] == "GetCoverageFor" else t.get_fitness_functions()
            if not reg:
                return s, ("OUnit",), ("Member", i, ("Clone",), False)
            top = (top[0], reg[top[1][1] % len(reg)].fid)
        t2, out, mop = apply_tc_op(world, t, top, E)
        assert t2 is t
        return s, out, ("Member", i, mop, False) + aliased(s, t)
    # operators on the suite structure: abstracted to the observed Edit
    if name == "AddAlias":               # the same chromosome OBJECT a second time
        if s.size():
            s.add_test_case_chromosome(s.test_case_chromosomes[op[1] % s.size()])
    elif name == "AddTwice":
        t = TestCaseChromosome(mk_tc(op[1]), E["factory"])
        s.add_test_case_chromosomes([t, t])
    elif name == "AddFactory":           # a member built by the real test case factory
        s.add_test_case_chromosome(TestCaseChromosome(E["tc_factory"].get_test_case(), E["factory"]))
    elif name == "Add":
        s.add_test_case_chromosome(TestCaseChromosome(mk_tc(op[1]), E["factory"]))
    elif name == "AddMany":
        s.add_test_case_chromosomes([TestCaseChromosome(mk_tc(n), E["factory"]) for n in op[1]])
    elif name == "Delete":
        if s.size():
            s.delete_test_case_chromosome(s.test_case_chromosomes[op[1] % s.size()])
    elif name == "Set":
        if s.size():
            s.set_test_case_chromosome(op[1] % s.size(), TestCaseChromosome(mk_tc(op[2]), E["factory"]))
    elif name in ("Mutate", "MemberMutate", "MemberMutateChange", "CrossOver", "XOverOp"):
        try:
            if name == "Mutate":
                s.mutate()
            elif name == "MemberMutateChange":
                if s.size():
                    t = s.test_case_chromosomes[op[1] % s.size()]
                    with only_change_mutation():
                        t.mutate()
                    if t.changed:
                        s.changed = True
            elif name == "MemberMutate":     # a member mutated the way TestSuiteMutation does it
                if s.size():
                    t = s.test_case_chromosomes[op[1] % s.size()]
                    t.mutate()
                    if t.changed:
                        s.changed = True
            else:
                other = new_suite(world, E)
                for n in op[1]:
                    other.add_test_case_chromosome(TestCaseChromosome(mk_tc(n), E["factory"]))
                if name == "CrossOver":
                    s.cross_over(other, op[2], op[3])
                else:
                    SinglePointRelativeCrossOver().cross_over(s, other)
        except Exception as e:  # noqa: BLE001
            world.operator_errors.append(f"{name}:{type(e).__name__}")
    else:
        raise ValueError(name)
    o = obs_suite(world, s)
    return s, ("OUnit",), ("Edit", o["members"], o["changed"])


def scratch_suite(world, s, op, E):
    from pynguin.ga.testcasechromosome import TestCaseChromosome

    fresh = new_suite(world, E)
    for t in s.test_case_chromosomes:
        fresh.add_test_case_chromosome(TestCaseChromosome(t.test_case.clone(), E["factory"]))
    for f in s.get_fitness_functions():
        fresh.add_fitness_function(f)
    for c in s.get_coverage_functions():
        fresh.add_coverage_function(c)
    n = world.executions
    out = do_query(fresh, op, world.sfit, world.scov)
    world.executions = n
    return out


def run_suite_history(seed, salt, cons, ops, scratch, exc=False, chop=None, maxlen=None, eager=False, uexp=0):
    from pynguin.utils import randomness

    E = env(scratch)
    set_search_config(chop, maxlen)
    randomness.RNG.seed(seed)
    set_unit(uexp)
    world = World(salt, cons, exc, eager)
    world.code(mk_tc(0))
    s = new_suite(world, E)
    steps = []
    for op in ops:
        before = obs_suite(world, s)
        s, out, mop = apply_suite_op(world, s, op, E)
        scr = None
        if op[0] in QUERIES:
            scr = scratch_suite(world, s, op, E)
        elif mop[0] == "Member" and mop[2][0] in QUERIES and s.size():
            scr = scratch_tc(world, s.test_case_chromosomes[mop[1]], mop[2], E)
        steps.append({"op": op, "modelop": mop, "before": before, "after": obs_suite(world, s), "out": out,
                      "scratch": scr})
    return world, steps
