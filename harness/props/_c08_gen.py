"""C08 helper: generator of modules annotated with random exclusion markers and scope lists.

Only `rng` (the check's single PRNG) is used.  Module- and class-level statements are import safe
(constants and builtins only), function bodies need not be runnable: they are only compiled and
instrumented."""
from __future__ import annotations

import ast

MARKERS = ["# pragma: no cover", "# pynguin: no cover"]


class Gen:
    def __init__(self, rng, size):
        self.rng = rng
        self.size = size
        self.lines: list[str] = []
        self.n = 0
        self.budget = size

    def name(self, p):
        self.n += 1
        return f"{p}{self.n}"

    def emit(self, ind, text):
        self.lines.append("    " * ind + text)

    # ---- expressions -----------------------------------------------------------------
    def expr(self, safe):
        r = self.rng
        atoms = ["1", "2", "0", "None", "True", "'s'"] if safe else ["a", "b", "1", "0", "None", "a.x", "b[0]"]
        c = r.random()
        x, y = r.choice(atoms), r.choice(atoms)
        if c < 0.35:
            return x
        if c < 0.5:
            return f"{x} == {y}"
        if c < 0.6:
            return f"{x} if {y} else 3"
        if c < 0.68:
            return f"{x} and {y}"
        if c < 0.76:
            return f"(lambda q: q == {y})"
        if c < 0.84:
            return f"[i for i in range(3) if i != {y}]"
        if c < 0.9:
            return f"sum(i for i in range(2) if i)"
        if c < 0.95:
            return "K is None" if safe else "a is None"
        return f"({x} or {y})"

    def cond(self, safe):
        r = self.rng
        if safe:
            return r.choice(["K > 1", "K == 0", "K", "not K", "K is None", "K < 2 and K"])
        return r.choice(["a", "a > b", "a == 1", "a is None", "not b", "a and b", "a in b", "a is not None", "a < b or b"])

    # ---- statements ------------------------------------------------------------------
    def simple(self, ind, safe):
        r = self.rng
        c = r.random()
        v = r.choice(["a", "b", "c"]) if not safe else r.choice(["L", "M"])
        if c < 0.6:
            self.emit(ind, f"{v} = {self.expr(safe)}")
        elif c < 0.7:
            self.emit(ind, f"{v} = max({self.expr(safe)},")
            self.emit(ind, f"        {self.expr(safe)})")
        elif c < 0.8 and not safe:
            self.emit(ind, f"assert {self.cond(safe)}")
        elif c < 0.88:
            self.emit(ind, f"{v} = 1; {v} = 2")
        elif c < 0.94 and not safe:
            self.emit(ind, f"return {self.expr(safe)}")
        else:
            self.emit(ind, "pass")

    def body(self, ind, safe, depth, in_loop=False):
        k = self.rng.choice([1, 1, 2, 2, 3])
        for _ in range(k):
            self.stmt(ind, safe, depth, in_loop)

    def stmt(self, ind, safe, depth, in_loop=False):
        r = self.rng
        self.budget -= 1
        if depth <= 0 or self.budget <= 0:
            return self.simple(ind, safe)
        c = r.random()
        if c < 0.34:
            return self.simple(ind, safe)
        if c < 0.52:
            return self.if_stmt(ind, safe, depth, in_loop)
        if c < 0.60:
            it = "range(2)" if safe else r.choice(["a", "range(b)", "b.items()"])
            self.emit(ind, f"for i in {it}:")
            self.body(ind + 1, safe, depth - 1, True)
            if r.random() < 0.4:
                self.emit(ind, "else:")
                self.body(ind + 1, safe, depth - 1, in_loop)
            return None
        if c < 0.67:
            self.emit(ind, f"while {self.cond(safe) if not safe else 'K > 5'}:")
            self.body(ind + 1, safe, depth - 1, True)
            if r.random() < 0.5 or safe:
                self.emit(ind + 1, "break")
            if r.random() < 0.4:
                self.emit(ind, "else:")
                self.body(ind + 1, safe, depth - 1, in_loop)
            return None
        if c < 0.77:
            return self.try_stmt(ind, safe, depth, in_loop)
        if c < 0.82 and not safe:
            self.emit(ind, "with a as w:" if r.random() < 0.7 else "with a as w, b:")
            self.body(ind + 1, safe, depth - 1, in_loop)
            return None
        if c < 0.88:
            subj = "K" if safe else "a"
            self.emit(ind, f"match {subj}:")
            for _ in range(r.choice([1, 2, 3])):
                pat = r.choice(["1", "2", "'s'", "None", "[1, 2]", "{'k': 1}", "x if x" if not safe else "3"])
                self.emit(ind + 1, f"case {pat}:")
                self.body(ind + 2, safe, depth - 1, in_loop)
            if r.random() < 0.5:
                self.emit(ind + 1, "case _:")
                self.body(ind + 2, safe, depth - 1, in_loop)
            return None
        if c < 0.90:
            cnd = self.cond(safe)
            self.emit(ind, f"if {cnd}: c = 1" if not safe else f"if {cnd}: M = 1")
            return None
        if c < 0.96:
            return self.funcdef(ind, depth - 1, method=False)
        return self.classdef(ind, depth - 1)

    def if_stmt(self, ind, safe, depth, in_loop):
        r = self.rng
        self.emit(ind, f"if {self.cond(safe)}:")
        self.body(ind + 1, safe, depth - 1, in_loop)
        for _ in range(r.choice([0, 0, 0, 1, 1, 2])):
            self.emit(ind, f"elif {self.cond(safe)}:")
            self.body(ind + 1, safe, depth - 1, in_loop)
        c = r.random()
        if c < 0.35:
            self.emit(ind, "else:")
            self.body(ind + 1, safe, depth - 1, in_loop)
        elif c < 0.5:
            # else arm holding a single nested if (not an elif)
            self.emit(ind, "else:")
            self.emit(ind + 1, f"if {self.cond(safe)}:")
            self.body(ind + 2, safe, depth - 1, in_loop)
            if r.random() < 0.5:
                self.emit(ind + 1, "else:")
                self.body(ind + 2, safe, depth - 1, in_loop)

    def try_stmt(self, ind, safe, depth, in_loop):
        r = self.rng
        self.emit(ind, "try:")
        self.body(ind + 1, safe, depth - 1, in_loop)
        full = r.random() < 0.35          # try / except / else / finally all present
        nh = r.choice([1, 2]) if full else r.choice([0, 1, 1, 2])
        fin = full or r.random() < 0.5 or nh == 0
        for k in range(nh):
            self.emit(ind, r.choice(["except ValueError:", "except (KeyError, TypeError) as e:", "except Exception:"])
                      if k < nh - 1 or r.random() < 0.8 else "except:")
            self.body(ind + 1, safe, depth - 1, in_loop)
        if nh and (full or r.random() < 0.55):
            self.emit(ind, "else:")
            self.body(ind + 1, safe, depth - 1, in_loop)
        if fin:
            self.emit(ind, "finally:")
            self.body(ind + 1, safe, depth - 1, in_loop)

    def decorators(self, ind, method):
        r = self.rng
        if r.random() < 0.3:
            ds = ["@functools.cache", "@functools.lru_cache(maxsize=None)", "@functools.wraps(len)"]
            if method:
                ds += ["@staticmethod", "@classmethod", "@property"]
            for d in r.sample(ds, r.choice([1, 1, 2])):
                self.emit(ind, d)
            return True
        return False

    def funcdef(self, ind, depth, method):
        r = self.rng
        nm = self.name("f")
        self.decorators(ind, method)
        if r.random() < 0.15:
            self.emit(ind, f"def {nm}(a=None, b=None): return {r.choice(['a', 'a if b else 3', '(lambda q: q)(a)', 'not b'])}")
            return
        pre = "async " if r.random() < 0.05 else ""
        self.emit(ind, f"{pre}def {nm}(a=None, b=None):")
        self.body(ind + 1, False, depth)

    def classdef(self, ind, depth):
        r = self.rng
        nm = self.name("C")
        if r.random() < 0.2:
            self.emit(ind, "@functools.total_ordering" if r.random() < 0.5 else "@staticmethod")
        if r.random() < 0.08:
            self.emit(ind, f"class {nm}: L = 1")
            return
        self.emit(ind, f"class {nm}:")
        k = r.choice([1, 2, 3])
        for _ in range(k):
            c = r.random()
            if c < 0.25:
                self.simple(ind + 1, True)
            elif c < 0.35 and depth > 0:
                self.budget -= 1
                self.if_stmt(ind + 1, True, min(depth, 1), False)
            elif c < 0.42 and depth > 0:
                self.classdef(ind + 1, depth - 1)
            else:
                self.funcdef(ind + 1, depth, method=True)
        if r.random() < 0.3:
            # a one-line method that closes the class body
            self.emit(ind + 1, f"def {self.name('f')}(a=None, b=None): return {r.choice(['a', 'not a', 'a or b'])}")

    def module(self):
        r = self.rng
        self.emit(0, "import functools")
        tc = r.choice(["from typing import TYPE_CHECKING", "import typing", "import types", None])
        if tc:
            self.emit(0, tc)
        self.emit(0, "K = 3")
        if tc and r.random() < 0.8:
            t = {"from typing import TYPE_CHECKING": "TYPE_CHECKING", "import typing": "typing.TYPE_CHECKING",
                 "import types": "types.TYPE_CHECKING" if r.random() < 0.0 else "K == 7"}[tc]
            self.emit(0, f"if {t}:")
            self.emit(1, "import os")
            if r.random() < 0.5:
                self.emit(1, "def tc_helper(a): return a")
            if r.random() < 0.4:
                self.emit(0, "else:")
                self.emit(1, "L = 2")
        n_items = r.choice([2, 3, 4, 5])
        for _ in range(n_items):
            c = r.random()
            if c < 0.55:
                self.funcdef(0, r.choice([1, 2, 3]), False)
            elif c < 0.8:
                self.classdef(0, r.choice([1, 2]))
            else:
                self.stmt(0, True, 2)
        c = r.random()
        if c < 0.3:
            # a one-line definition that closes the module
            self.emit(0, f"def {self.name('f')}(a=None, b=None): return {r.choice(['a', 'a + 1', 'a if b else 2'])}")
        elif c < 0.65:
            q = r.choice(['"__main__"', "'__main__'"])
            self.emit(0, f"if __name__ == {q}:")
            self.emit(1, "K = 4")
            if r.random() < 0.5:
                self.emit(1, "if K: print(K)")
            if r.random() < 0.3:
                self.emit(0, "else:")
                self.emit(1, "L = 5")
        return self.lines


def scope_names(tree):
    """Qualified names of def/class scopes -> node (own computation; lambdas/comprehensions get no
    name here: they cannot sensibly be listed by a user)."""
    res = {}

    def walk(node, prefix):
        for ch in ast.iter_child_nodes(node):
            if isinstance(ch, (ast.FunctionDef, ast.AsyncFunctionDef, ast.ClassDef)):
                q = f"{prefix}.{ch.name}" if prefix else ch.name
                res[q] = ch
                walk(ch, q)
            elif isinstance(ch, (ast.Lambda, ast.ListComp, ast.SetComp, ast.DictComp, ast.GeneratorExp)):
                walk(ch, prefix + ".<anon>" if prefix else "<anon>")
            else:
                walk(ch, prefix)
    walk(tree, "")
    return {k: v for k, v in res.items() if "<anon>" not in k}


def decorate(rng, marker):
    """Ways a marker appears in real code: alone, after another comment on the same line, followed
    by an explanation, with several blanks."""
    c = rng.random()
    if c < 0.55:
        return marker
    if c < 0.75:
        return rng.choice(["# noqa: D103", "# type: ignore", "# explanation", "# noqa: E501 # nosec"]) + rng.choice(["  ", " "]) + marker
    if c < 0.88:
        return marker + rng.choice(["  # only when run by hand", " # why"])
    return marker.replace("# ", "#  ").replace(": no ", ":  no  ")


def arm_targets(lines):
    """0-based indices of lines where a marker exercises the arm logic of compound statements with
    several arms: the else/finally labels and lines inside the else / handler / finally bodies of
    try statements (weighted towards try/except/else/finally), else labels and bodies of
    if/for/while, case lines."""
    try:
        tree = ast.parse("\n".join(lines) + "\n")
    except SyntaxError:
        return []
    out = []

    def label_before(stmts):
        i = stmts[0].lineno - 2
        return [i] if i >= 0 and lines[i].strip() in ("else:", "finally:") else []

    def inside(stmts):
        return [st.lineno - 1 for st in stmts]

    for n in ast.walk(tree):
        if isinstance(n, ast.Try):
            w = 3 if (n.handlers and n.orelse and n.finalbody) else 1
            for h in n.handlers:
                out += [h.lineno - 1] + inside(h.body)
            if n.orelse:
                out += (label_before(n.orelse) + inside(n.orelse)) * w
            if n.finalbody:
                out += label_before(n.finalbody) + inside(n.finalbody)
        elif isinstance(n, (ast.If, ast.For, ast.While)) and n.orelse:
            out += label_before(n.orelse) + inside(n.orelse)[:1]
        elif isinstance(n, ast.match_case):
            out += [n.pattern.lineno - 1]
    return out


def gen_case(rng, size=None):
    """Returns dict(src, only, no, pynguin, pragma)."""
    size = size or rng.choice([6, 10, 16, 24])
    for _ in range(50):
        g = Gen(rng, size)
        lines = g.module()
        # markers
        hdr = [i for i, ln in enumerate(lines) if ln.rstrip().endswith(":") or ln.lstrip().startswith(("def ", "class ", "if ", "case "))]
        labels = [i for i, ln in enumerate(lines) if ln.strip() in ("else:", "finally:", "try:") or ln.lstrip().startswith(("except", "elif "))]
        code = [i for i, ln in enumerate(lines) if ln.strip()]
        targets = arm_targets(lines)
        k = rng.choice([0, 1, 1, 2, 3, 5])
        for _ in range(k):
            c = rng.random()
            pool = (targets if (targets and c < 0.4) else labels if (labels and c < 0.55)
                    else hdr if (hdr and c < 0.8) else code)
            i = rng.choice(pool)
            if "#" not in lines[i]:
                lines[i] = lines[i] + "  " + decorate(rng, rng.choice(MARKERS))
        src = "\n".join(lines) + "\n"
        try:
            tree = ast.parse(src)
            compile(src, "<gen>", "exec")
        except SyntaxError:
            continue
        all_names = scope_names(tree)
        names = sorted(all_names)
        only, no = [], []
        c = rng.random()
        oneliners = [q for q in names if all_names[q].lineno == (all_names[q].end_lineno or all_names[q].lineno)]
        if oneliners and rng.random() < 0.4:
            # one-line definitions named in the lists (scope boundary lines)
            (only if rng.random() < 0.65 else no).append(rng.choice(oneliners))
            names = [n for n in names if n not in only and n not in no]
        if names and c < 0.45:
            no += rng.sample(names, min(len(names), rng.choice([1, 1, 2])))
        if names and 0.3 < c < 0.75:
            cand = [n for n in names if n not in no]
            if cand:
                only += rng.sample(cand, min(len(cand), rng.choice([1, 1, 2])))
        if rng.random() < 0.05:
            no.append("does_not_exist")
        return {"src": src, "only": only, "no": no,
                "pynguin": rng.random() < 0.9, "pragma": rng.random() < 0.9}
    raise RuntimeError("generator produced no valid module")
