"""C22 — minimization never reduces coverage.

T  static Coq proofs about the minimisation model (Properties/C22.v).
K2 (a) table-driven coverage functions on real chromosomes through the real visitors and the real
       generator._minimize; (b) real search runs on small modules, CASE/SUITE/COMBINED x
       FORWARD/BACKWARD; every coverage query the implementation makes is recorded and the Coq model
       replays the whole minimisation with that table (vm_compute) and must end in the same suite.
S  direct oracle, independent of the model: coverage of every optimised function recomputed from
   scratch on the minimised suite, statement lists diffed (sub-sequence), asserted-on statements.
"""
from __future__ import annotations

import concurrent.futures as cf
import json

import vlib

SRC = ["src/pynguin/ga/postprocess.py", "src/pynguin/generator.py", "src/pynguin/testcase/testcase.py",
       "src/pynguin/ga/computation_cache.py", "src/pynguin/ga/testsuitechromosome.py"]
IMPORTS = "From Coq Require Import QArith.\nClose Scope Q_scope.\nFrom Verif Require Import Models.C22."
MODULES = ["c22_counter", "c22_stack", "c22_pure", "c22_account"]
SUT_DIR = vlib.VERIF / "corpus" / "C22_sut"


def synth_kinds(I, rng, desc):
    kinds = [("minimize", rng.choice(I.STRATS), rng.choice(I.DIRS))] * 3 + ["suite", "combined"]
    if desc["tests"] and desc["tests"][0]:
        kinds += ["forward", "backward", "protected", "ruv", ("remove_fwd", rng.randrange(len(desc["tests"][0])))]
    return rng.choice(kinds)


def real_specs(ctx, n, scratch):
    specs = []
    for i in range(n):
        algo = ["DYNAMOSA", "MOSA", "WHOLE_SUITE", "RANDOM", "MIO", "DYNAMOSA"][i % 6]
        metrics = ["BRANCH"] if algo == "DYNAMOSA" or ctx.rng.random() < 0.6 else ["BRANCH", "LINE"]
        specs.append({
            "repo": str(ctx.repo), "project": str(SUT_DIR), "module": MODULES[(i // 2) % len(MODULES)],
            "seed": ctx.rng.randrange(1, 10**6), "iterations": ctx.rng.choice([2, 3, 5, 8]), "algorithm": algo,
            "assertions": ctx.rng.choice(["SIMPLE", "SIMPLE", "MUTATION_ANALYSIS", "NONE"]), "metrics": metrics,
            "length": ctx.rng.choice([6, 10, 14]), "population": 8,
            "combos": [[s, d] for s in ("CASE", "SUITE", "COMBINED") for d in ("FORWARD", "BACKWARD")],
            "scratch": str(scratch / f"run{i}"),
        })
    return specs


def shrink_synth(I, desc, kind, sig):
    """Drop whole tests, then single statements, while the same signature is reported."""
    def fails(d):
        try:
            return any(s[0] == sig for s in I.run_synth_case(d, kind)["oracle"])
        except Exception:  # noqa: BLE001
            return False

    changed = True
    while changed:
        changed = False
        for ti in range(len(desc["tests"])):
            cand = {"tests": desc["tests"][:ti] + desc["tests"][ti + 1:], "specs": desc["specs"]}
            if cand["tests"] and fails(cand):
                desc, changed = cand, True
                break
            for si in range(len(desc["tests"][ti])):
                gone = desc["tests"][ti][si]
                if any(gone["bound"] and gone["bound"] in s["args"] for s in desc["tests"][ti]):
                    continue
                t2 = desc["tests"][ti][:si] + desc["tests"][ti][si + 1:]
                cand = {"tests": desc["tests"][:ti] + [t2] + desc["tests"][ti + 1:], "specs": desc["specs"]}
                if fails(cand):
                    desc, changed = cand, True
                    break
            if changed:
                break
    return desc


def run(ctx: vlib.Ctx):
    vlib.setup_impl_path()
    import logging

    logging.disable(logging.CRITICAL)
    from props import _c22_impl as I

    ctx.digest_sources(SRC)
    ctx.coq_static()
    if not ctx.quick:
        ctx.coqchk()

    corpus = json.loads((vlib.VERIF / "corpus" / "C22.json").read_text())
    # ------------------------------------------------------------------ real runs (children, started first)
    scratch = ctx.mkscratch()
    n_real = 8 if ctx.quick else 48
    specs = [dict(c["real"], repo=str(ctx.repo), project=str(SUT_DIR), scratch=str(scratch / f"corpus{i}"))
             for i, c in enumerate(corpus) if "real" in c]
    specs += real_specs(ctx, n_real, scratch)
    pool = cf.ThreadPoolExecutor(max_workers=12)
    pending = [pool.submit(I.real_run_subprocess, sp) for sp in specs]

    # ------------------------------------------------------------------ synthetic cases, real visitors
    n_syn = 1500 if ctx.quick else 12000
    todo = []
    for c in corpus:
        if "desc" in c:
            for kind in c["kinds"]:
                todo.append((c["desc"], tuple(kind) if isinstance(kind, list) else kind))
    n_corpus = len(todo)
    for _ in range(n_syn):
        desc = I.gen_synth(ctx.rng, big=not ctx.quick and ctx.rng.random() < 0.2)
        todo.append((desc, synth_kinds(I, ctx.rng, desc)))
    cases, recs, n_fail = [], [], 0
    reported = set()
    for desc, kind in todo:
        r = I.run_synth_case(desc, kind)
        name = kind if isinstance(kind, str) else ":".join(map(str, kind[:3] if kind[0] == "minimize" else kind[:1]))
        ctx.count("synthetic:" + name)
        ctx.count("synthetic-tests:%d" % len(desc["tests"]))
        nstmt = sum(len(t) for t in desc["tests"])
        ctx.case_seen((json.dumps(desc, sort_keys=True), kind), nontrivial=nstmt > 0)
        cases.append(r["coq"])
        recs.append((desc, kind, r))
        for sig, msg, detail in r["oracle"]:
            n_fail += 1
            if sig in reported:
                continue
            reported.add(sig)
            small = desc if vlib.match_finding(vlib.load_findings("C22"), sig) else shrink_synth(I, desc, kind, sig)
            ctx.fail(sig, msg, {"synthetic": small, "kind": kind, "detail": detail,
                                "tests": [[I.synth_stmt_code(s) + ("  # assert " + ",".join(str(a[1]) for a in s["asserts"]) if s["asserts"] else "")
                                           for s in t] for t in small["tests"]]})
    d, k, r = recs[n_corpus]
    ctx.sample({"synthetic": [[I.synth_stmt_code(s) for s in t] for t in d["tests"]], "kind": k, "observed": r["obs"]})
    ctx.leg("S-synthetic", oracle_failures=n_fail, cases=len(todo))
    bad = ctx.run_cases("C22_synth", IMPORTS, "C22.case", "C22.check_case", cases, shard=250)
    k2_ok = True
    if bad:
        k2_ok = False
        ctx.leg("K2-synthetic", ok=False, mismatches=len(bad), cases=len(cases))
        d, k, r = recs[bad[0]]
        mismatch = {"kind": k, "synthetic": d, "implementation": r["obs"], "mismatching_cases": len(bad),
                    "kinds": sorted({str(recs[b][1]) for b in bad})[:12]}
    elif bad is not None:
        ctx.leg("K2-synthetic", ok=True, cases=len(cases))

    # ------------------------------------------------------------------ real runs: collect
    results = [p.result() for p in pending]
    pool.shutdown()
    rcases, rrecs, r_fail, skipped, unstable, nondet, runs_ok = [], [], 0, 0, 0, 0, 0
    for res in results:
        sp = res.get("spec", {})
        if res.get("error"):
            ctx.broken("real-run-crash", f"real run crashed: {res['error']}",
                       {"spec": {k: v for k, v in sp.items() if k not in ("scratch",)}, "traceback": res.get("traceback")})
            continue
        if not res["cases"]:
            skipped += 1
            continue
        runs_ok += 1
        ctx.count("real:%s:%s:%s" % (sp["module"], sp["algorithm"], sp["assertions"]))
        for c in res["cases"]:
            combo = ":".join(c["combo"])
            ctx.count("real-combo:" + combo)
            if c.get("unstable"):
                unstable += 1
                continue
            ctx.case_seen((sp["module"], sp["seed"], sp["algorithm"], sp["iterations"], sp["length"], sp["assertions"], combo),
                          nontrivial=res["info"]["statements"] > 0)
            ctx.count("real-restored:%s" % c["obs"]["restored"])
            for sig, msg, detail in c["oracle"]:
                r_fail += 1
                if sig in reported:
                    continue
                reported.add(sig)
                ctx.fail(sig, msg, {"real": {k: v for k, v in sp.items() if k not in ("repo", "project", "scratch", "combos")},
                                    "combo": c["combo"], "detail": detail, "observed": c["obs"]})
            if c.get("coq"):
                rcases.append(c["coq"])
                rrecs.append((sp, c))
            else:
                nondet += 1
    if rrecs:
        sp, c = rrecs[0]
        ctx.sample({"real": {k: sp[k] for k in ("module", "seed", "algorithm", "iterations", "assertions")}, "combo": c["combo"],
                    "statements_before": sum(len(t) for t in c["obs"]["original"]),
                    "statements_after": sum(len(t) for t in c["obs"]["result"]),
                    "coverage_before": c["obs"]["cov_before"], "coverage_after": c["obs"]["cov_after"],
                    "coverage_queries": c["obs"]["queries"]})
    ctx.leg("S-real", oracle_failures=r_fail, runs=runs_ok, skipped_runs=skipped, unstable_measurements=unstable)
    rbad = ctx.run_cases("C22_real", IMPORTS, "C22.case", "C22.check_case", rcases, shard=12) if rcases else []
    if rbad:
        k2_ok = False
        ctx.leg("K2-real", ok=False, mismatches=len(rbad), cases=len(rcases), untied_nondeterministic=nondet)
        sp, c = rrecs[rbad[0]]
        mismatch = {"real": {k: v for k, v in sp.items() if k not in ("repo", "project", "scratch", "combos")},
                    "combo": c["combo"], "implementation": c["obs"], "mismatching_cases": len(rbad)}
    elif rbad is not None:
        ctx.leg("K2-real", ok=True, cases=len(rcases), untied_nondeterministic=nondet)
    if runs_ok == 0:
        ctx.broken("real-runs", "no real search run produced a suite", {"skipped": skipped})
    if not k2_ok and not any(f.kind == "input" and not vlib.match_finding(vlib.load_findings("C22"), f.signature)
                             for f in ctx.failures):
        ctx.broken("correspondence:C22-model-vs-minimisation",
                   "the minimisation model (about which the theorems are proved) no longer reproduces "
                   "postprocess.py / generator._minimize", mismatch)
    elif not k2_ok:
        ctx.notes.append("model/implementation mismatch accompanies the reported failing inputs: " + json.dumps(mismatch, default=str)[:1500])

    ctx.cov["rule"] = (
        "synthetic: random suites (1-6 tests, 0-10 statements, name-based dependencies, reference/exception "
        "assertions with plain, dotted and module-rooted sources, duplicate tests, re-bound names) with 1-2 "
        "table-driven coverage functions whose goal sets depend on earlier statements, run through the real "
        "visitors / generator._minimize; real: search results (DYNAMOSA/MOSA/WHOLE_SUITE/RANDOM/MIO, 2-8 "
        "iterations, assertion generators SIMPLE/MUTATION_ANALYSIS/NONE, BRANCH and BRANCH+LINE) on 4 corpus "
        "modules, each minimised with the 6 strategy x direction pairs; a case is non-trivial when its suite "
        "has at least one statement; distinct = distinct (suite description or run spec, kind)")
    ctx.assumptions += [
        "re-executing a test case is deterministic, so coverage is a function of the rendered suite "
        "(checked per run: two different values for the same rendered suite drop the case from the tie; "
        "only the empty test case does that here, through the executor's zero timeout)",
        "math.isclose on coverage ratios is equality (steps are >= 1/#goals >> 1e-9)",
        "the coverage value cached for the suite before minimisation is current (C12)",
        "ExceptionTruncation only drops statements that are never executed (sampled by the direct oracle, "
        "which measures the suite before truncation)",
        "test cases are well-formed (one binding per name; assertions refer to already bound names) for the "
        "CASE/SUITE asserted-statement theorems; the model after fix C19-keep-assertions for remove_unused_variables",
    ]
    ctx.cov["trusted_base"] += [
        "hand-written model Models/C22.v tied by replaying recorded coverage tables (this run)",
        "harness/props/C22.py, _c22_impl.py (recording proxies, snapshots, direct oracle)",
    ]


def replay(ctx, path):
    vlib.setup_impl_path()
    import logging

    logging.disable(logging.CRITICAL)
    from props import _c22_impl as I

    d = json.loads(open(path).read())["replay"]
    if "synthetic" in d:
        kind = tuple(d["kind"]) if isinstance(d["kind"], list) else d["kind"]
        r = I.run_synth_case(d["synthetic"], kind)
        print("kind:", kind)
        print("implementation:", json.dumps(r["obs"], default=str))
        print("oracle:", [(s[0], s[1]) for s in r["oracle"]])
        print("model agrees:", ctx.coq_eval(IMPORTS, "C22.check_case (" + r["coq"] + ")"))
        return 0
    if "real" in d:
        scratch = ctx.mkscratch()
        spec = dict(d["real"], repo=str(ctx.repo), project=str(SUT_DIR), scratch=str(scratch / "replay"),
                    combos=[d["combo"]])
        res = I.real_run_subprocess(spec)
        for c in res["cases"]:
            print("combo:", c["combo"])
            print("implementation:", json.dumps(c["obs"], default=str)[:6000])
            print("oracle:", [(s[0], s[1]) for s in c["oracle"]])
            if c.get("coq"):
                print("model agrees:", ctx.coq_eval(IMPORTS, "C22.check_case (" + c["coq"] + ")"))
        if res.get("error"):
            print(res["error"], res.get("traceback"))
        import shutil

        shutil.rmtree(scratch, ignore_errors=True)
        return 0
    print("nothing to replay in", path)
    return 0
