"""C04 — branch distances: T (static proofs), K2 (the real tracer callbacks on adversarial value
pairs, replayed by the Coq model from Python's own outcome and the heuristic observed at the real
call site; the string heuristics of type_utils on random strings), S (direct oracle: the five
clauses of the property checked on the implementation, independent of the model)."""
from __future__ import annotations

import json
import math
import operator

import vlib
from vlib import cZ, cbool, cfloat, clist

from props import _c04_values as V

SRC = ["src/pynguin/instrumentation/tracer.py", "src/pynguin/utils/type_utils.py"]
CMP = ["EQ", "NE", "LT", "LE", "GT", "GE", "IN", "NOT_IN", "IS", "IS_NOT"]
KINDS = CMP + ["BOOL", "EXC", "INP"]
EXC_CODES = {"TypeError": 1, "ValueError": 2, "OverflowError": 3, "AssertionError": 4, "ZeroDivisionError": 5,
             "InvalidOperation": 6}

PYOPS = {
    "EQ": operator.eq, "NE": operator.ne, "LT": operator.lt, "LE": operator.le, "GT": operator.gt,
    "GE": operator.ge, "IN": lambda a, b: a in b, "NOT_IN": lambda a, b: a not in b,
    "IS": operator.is_, "IS_NOT": operator.is_not, "INP": lambda a, b: a in b,
}


def exc_match(err, exc):
    """CPython's own `except exc:` for a raised `err` (instance or class), by a real try/except.
    No identity test on the caught object: CPython re-instantiates an exception whose metaclass's
    __instancecheck__ denies it.  A malformed handler makes the `except exc` test itself raise
    TypeError, which leaves the try statement (sibling clauses do not catch it)."""
    try:
        raise err
    except exc:
        return True
    except BaseException:  # noqa: BLE001
        return False


def py_eval(kind, a, b):
    """("ret", bool) | ("raise", exception class name): what Python itself does."""
    try:
        if kind == "BOOL":
            return ("ret", bool(a))
        if kind == "EXC":
            return ("ret", exc_match(a, b))
        return ("ret", bool(PYOPS[kind](a, b)))
    except Exception as e:  # noqa: BLE001
        return ("raise", type(e).__name__)


class Impl:
    """The real tracer, with a spy on the sanitising call site (if the code has one)."""

    def __init__(self):
        import pynguin.instrumentation.tracer as tm
        from pynguin.instrumentation import PynguinCompare

        self.tm, self.PC = tm, PynguinCompare
        self.spied: list = []
        self.exact = False
        orig = getattr(tm, "_untaken_distance", None)
        if callable(orig):
            self.exact = True

            def spy(heuristic, *values):
                res = orig(heuristic, *values)
                try:
                    raw = ("float", float(heuristic(*values)))
                except Exception:  # noqa: BLE001
                    raw = ("raise",)
                self.spied.append((getattr(heuristic, "__name__", "?"), raw, res))
                return res

            tm._untaken_distance = spy

    def run(self, kind, a, b):
        """-> (("recorded", dt, df) | ("raised", name) | ("skipped",), raw-or-None, disabled_after)"""
        tr = self.tm.ExecutionTracer()
        self.spied.clear()
        with tr:
            try:
                if kind in CMP:
                    tr.executed_compare_predicate(a, b, 0, self.PC[kind])
                elif kind == "BOOL":
                    tr.executed_bool_predicate(a, 0)
                elif kind == "EXC":
                    tr.executed_exception_match(a, b, 0)
                else:
                    tr.executed_in_presence_predicate(a, b, 0)
                t = tr.get_trace()
                if 0 in t.executed_predicates:
                    out = ("recorded", t.true_distances[0], t.false_distances[0])
                else:
                    out = ("skipped",)
            except BaseException as e:  # noqa: BLE001
                out = ("raised", type(e).__name__)
            disabled = tr.is_disabled()
        raw = None
        if self.exact:
            if len(self.spied) == 1:
                raw = self.spied[0][1]
            elif kind == "EXC" and not self.spied:
                raw = ("float", 1.0)
            elif not self.spied:
                raw = ("raise",)         # not needed by the model (raised / skipped)
        return out, raw, disabled


# ---------------------------------------------------------------------------------------------
def gen_case(rng):
    case = _gen_case(rng)
    if case["kind"] not in ("IS", "IS_NOT") and rng.random() < 0.25:
        case["proxy"] = rng.choice([[True, True], [False, True], [True, False]])
    return case


def _gen_case(rng):
    kind = rng.choice(KINDS + ["LT", "LE", "EQ", "IN"])
    if kind == "EXC":
        a, b = V.gen_exc_pair(rng)
        return {"kind": kind, "a": a, "b": b, "alias": False}
    a = V.gen_value(rng)
    if kind == "BOOL":
        if rng.random() < 0.3:
            a = V.gen_container(rng)
        elif rng.random() < 0.08:
            a = V.gen_wrapped(rng)
        return {"kind": kind, "a": a, "b": ["none"], "alias": False}
    if kind in ("IN", "NOT_IN", "INP"):
        c = rng.random()
        if c < 0.06:
            return {"kind": kind, "a": a, "b": V.gen_wrapped(rng), "alias": False}
        if c < 0.75:
            b = V.gen_container(rng, member=V.neighbour(rng, a) if rng.random() < 0.7 else None)
        elif c < 0.9:
            b = V.gen_obj(rng)
        else:
            b = V.gen_value(rng)
        return {"kind": kind, "a": a, "b": b, "alias": False}
    c = rng.random()
    b = V.neighbour(rng, a) if c < 0.6 else V.gen_value(rng)
    return {"kind": kind, "a": a, "b": b, "alias": c < 0.08}


def build_pair(case):
    a = V.build(case["a"])
    b = a if case.get("alias") else V.build(case["b"])
    return a, b


def proxied(case, a, b):
    """What reaches the tracer in a type-tracing execution: operands wrapped in ObjectProxy
    (case["proxy"] = [wrap a, wrap b]).  `is` compares the proxies themselves, not generated."""
    px = case.get("proxy")
    if not px:
        return a, b
    import pynguin.utils.typetracing as tt

    pa = tt.ObjectProxy(a) if px[0] else a
    pb = pa if case.get("alias") and px[0] and px[1] else (tt.ObjectProxy(b) if px[1] else b)
    return pa, pb


def evaluate(impl, case):
    kind = case["kind"]
    V.LOG.clear()
    ref = py_eval(kind, *build_pair(case))               # Python alone, fresh values
    plain_log = list(V.LOG)
    a, b = build_pair(case)
    V.LOG.clear()
    out, raw, disabled = impl.run(kind, *proxied(case, a, b))   # the tracer, fresh values (maybe proxied)
    tracer_log = list(V.LOG)
    # what the subject under test computes next, on the very same objects (the probe runs first;
    # a proxy forwards the operator to the object it wraps)
    sut = py_eval(kind, a, b) if kind != "INP" else ref
    return {"ref": ref, "out": out, "raw": raw, "sut": sut, "disabled": disabled,
            "extra_calls": sorted(set(tracer_log) - set(plain_log))}


def oracle(case, ev):
    """The property's clauses, directly.  Returns (signature, message) or None."""
    kind, out, ref, sut = case["kind"], ev["out"], ev["ref"], ev["sut"]
    if out[0] == "raised":
        if ref[0] == "ret":
            return (f"raise:{kind}:{out[1]}", f"the tracer raises {out[1]} although Python's own evaluation returns {ref[1]}")
        return None
    if out[0] == "skipped":
        return None
    dt, df = out[1], out[2]
    for nm, d in (("true", dt), ("false", df)):
        if isinstance(d, float) and math.isnan(d):
            return (f"nan:{kind}", f"{nm} distance is NaN")
        if not d >= 0:
            return (f"negative:{kind}", f"{nm} distance {d!r} is negative")
    if (dt == 0) == (df == 0):
        return (f"zero-count:{kind}", f"distances ({dt!r}, {df!r}): not exactly one of them is zero")
    if sut[0] == "ret":
        if (dt == 0) != sut[1]:
            why = "" if ref == sut else f" (without the tracer the outcome is {ref[1]}: the tracer changed an operand)"
            if kind == "EXC" and V.handler_has_subclasscheck(V.build(case["b"])):
                return ("outcome:EXC:subclasscheck-handler",
                        f"distances ({dt!r}, {df!r}) but CPython's own `except` clause yields {sut[1]}: the handler's "
                        "metaclass defines __subclasscheck__, which issubclass() asks and CPython does not")
            return (f"outcome:{kind}", f"distances ({dt!r}, {df!r}) but Python's own operator yields {sut[1]}{why}")
    elif kind not in ("INP", "EXC") and ref[0] == "raise":
        return (f"recorded-without-outcome:{kind}", f"distances ({dt!r}, {df!r}) recorded although Python's own operator raises {ref[1]}")
    return None


# ---------------------------------------------------------------------------------------------
def c_kind(kind):
    if kind in CMP:
        return f"(C04.KCompare C04.{kind})"
    return {"BOOL": "C04.KBool", "EXC": "C04.KExcMatch", "INP": "C04.KInPresence"}[kind]


def c_result(out):
    if out[0] == "recorded":
        return f"(C04.Recorded {cfloat(float(out[1]))} {cfloat(float(out[2]))})"
    if out[0] == "raised":
        return f"(C04.Raised {cZ(EXC_CODES.get(out[1], 9))})"
    return "C04.Skipped"


def c_case(case, ev):
    ref = ev["ref"]
    py = f"(C04.Ret {cbool(ref[1])})" if ref[0] == "ret" else f"(C04.Raise {cZ(EXC_CODES.get(ref[1], 9))})"
    raw = ev["raw"]
    if raw is None:
        u = "None"
    elif raw[0] == "float":
        u = f"(Some (C04.RFloat {cfloat(raw[1])}))"
    else:
        u = "(Some C04.RRaise)"
    one_shot = case["kind"] in ("IN", "NOT_IN", "INP") and V.is_one_shot(case["b"])
    return ("{| C04.ckind := %s; C04.cone_shot := %s; C04.cpy := %s; C04.cuntaken := %s; C04.cobs := %s |}"
            % (c_kind(case["kind"]), cbool(one_shot), py, u, c_result(ev["out"])))


SIMPLE = [["int", "0"], ["int", "1"], ["float", "nan"], ["float", float.hex(1.0)], ["none"], ["str", []], ["str", [97]],
          ["list", []], ["iter", []]]


def shrink(impl, case, sig):
    def fails(c):
        try:
            r = oracle(c, evaluate(impl, c))
        except Exception:  # noqa: BLE001
            return False
        return r is not None and r[0] == sig

    cur = dict(case)
    changed = True
    while changed:
        changed = False
        for side in ("a", "b"):
            spec = cur[side]
            cands = []
            if spec[0] in ("list", "tuple", "set", "frozenset", "dict", "iter", "gen") and spec[1]:
                cands += [[spec[0], spec[1][:i] + spec[1][i + 1:]] for i in range(len(spec[1]))]
            if spec[0] == "obj":
                cs = spec[1]
                for s in list(cs["slots"]):
                    c2 = dict(cs, slots={k: v for k, v in cs["slots"].items() if k != s})
                    cands.append(["obj", c2, spec[2], spec[3]])
                if cs.get("base"):
                    cands.append(["obj", dict(cs, base=None), spec[2], spec[3]])
                if spec[3]:
                    cands.append(["obj", cs, spec[2], []])
            cands += [s for s in SIMPLE if s != spec and len(json.dumps(s)) < len(json.dumps(spec))]
            for c in cands:
                trial = dict(cur, **{side: c})
                if fails(trial):
                    cur, changed = trial, True
                    break
            if changed:
                break
    return cur


def gen_strings(rng, n):
    alphabet = [0, 65, 97, 98, 99, 122, 255, 256, 0xD7FF, 0xD800, 0xDFFF, 0xE000, 0xFFFF, 0x10000, 0x1F600, 0x10FFFF]
    res = []
    for _ in range(n):
        a = [rng.choice(alphabet) for _ in range(rng.choice([0, 1, 2, 3, 5]))]
        c = rng.random()
        if c < 0.3:
            b = list(a)
        elif c < 0.6:
            k = rng.randrange(len(a) + 1)
            b = a[:k] + [rng.choice(alphabet) for _ in range(rng.choice([0, 1, 2]))]
        else:
            b = [rng.choice(alphabet) for _ in range(rng.choice([0, 1, 2, 3]))]
        res.append((a, b))
    return res


def run(ctx: vlib.Ctx):
    vlib.setup_impl_path()
    ctx.digest_sources(SRC)
    ctx.coq_static()
    if not ctx.quick:
        ctx.coqchk()
    impl = Impl()
    corpus = json.loads((vlib.VERIF / "corpus" / "C04.json").read_text())
    cases = [dict(c) for c in corpus]
    n = 8000 if ctx.quick else 50000
    for _ in range(n):
        cases.append(gen_case(ctx.rng))
    coq_cases, recs, n_fail, extra = [], [], 0, 0
    failing_idx = set()
    reported: dict = {}
    for case in cases:
        ev = evaluate(impl, case)
        recs.append((case, ev))
        one_shot = case["kind"] in ("IN", "NOT_IN", "INP") and V.is_one_shot(case["b"])
        ctx.case_seen((case["kind"], case["a"], case["b"], case.get("alias"), case.get("proxy")), nontrivial=True)
        ctx.count("kind:" + case["kind"])
        ctx.count("a:" + V.vclass(case["a"]))
        if case["kind"] not in ("BOOL",):
            ctx.count("b:" + V.vclass(case["b"]))
        ctx.count("python:" + (ev["ref"][0] if ev["ref"][0] == "ret" else "raise:" + ev["ref"][1]))
        ctx.count("tracer:" + ev["out"][0])
        if case.get("proxy"):
            ctx.count("operands-in-ObjectProxy")
        if one_shot:
            ctx.count("one_shot_container")
        if ev["raw"] is not None and ev["out"][0] == "recorded":
            r = ev["raw"]
            ctx.count("heuristic:" + ("raises" if r[0] == "raise" else "nan" if math.isnan(r[1]) else
                                      "nonpositive" if not r[1] > 0 else "inf" if math.isinf(r[1]) else "positive"))
        if ev["extra_calls"]:
            extra += 1
        coq_cases.append(c_case(case, ev))
        r = oracle(case, ev)
        if r:
            n_fail += 1
            failing_idx.add(len(recs) - 1)
            sig, msg = r
            if sig not in reported and len(reported) < 40:
                small = shrink(impl, case, sig)
                ev2 = evaluate(impl, small)
                r2 = oracle(small, ev2) or r
                reported[sig] = True
                ctx.fail(sig, f"{small['kind']} on a={V.build(small['a'])!r}, b={V.build(small['b'])!r}: {r2[1]}",
                         {"case": small, "python": ev2["ref"], "tracer": list(ev2["out"]), "original_case": case})
    case, ev = recs[len(corpus)]
    ctx.sample({"case": case, "python": ev["ref"], "tracer": repr(ev["out"]), "heuristic": repr(ev["raw"])})
    ctx.sample({"case": recs[0][0], "python": recs[0][1]["ref"], "tracer": repr(recs[0][1]["out"])})
    ctx.cov["rule"] = ("value pairs from ints (small, +-2**53+-k, +-10**400), floats (NaN, +-inf, +-0.0, subnormal, "
                       "2**53 neighbours, 1e308), bool, None, complex, Decimal (NaN, sNaN, inf), Fraction, str (empty, "
                       "astral, surrogate), bytes/bytearray, list/tuple/set/frozenset/dict/range, one-shot iterators and "
                       "generators, objects exposing __wrapped__ that are no proxies (functools.wraps / lru_cache / staticmethod / "
                       "delegating user class), user classes with random subsets of __eq__..__ge__/__bool__/__len__/__contains__/"
                       "__iter__/__next__ (returning bools, non-bools, NotImplemented, objects without truth value, or "
                       "raising), subclasses, numbers.Number-registered classes, exception classes/tuples; x 13 predicate "
                       "kinds; related pairs (copies, aliases, neighbours, members); every case counts as non-trivial; "
                       "a quarter of the cases with one or both operands wrapped in typetracing.ObjectProxy (type-tracing execution); "
                       "distinct = distinct (kind, specs, proxy flags)")
    ctx.leg("S", oracle_failures=n_fail, cases=len(cases), cases_with_operator_calls_python_does_not_make=extra)
    ctx.notes.append(f"tracer evaluated an operator slot that Python's own evaluation does not touch in {extra} cases "
                     "(statistic only; not part of the property)")
    # K2a: the callbacks
    bad = ctx.run_cases("C04_cases", "From Coq Require Import PrimFloat.\nFrom Verif Require Import Models.C04.",
                        "C04.case", "C04.check_case", coq_cases)
    unexplained = [i for i in (bad or []) if i not in failing_idx]
    if bad:
        ctx.leg("K2", ok=not unexplained, mismatches=len(bad), mismatches_without_oracle_failure=len(unexplained),
                exact_call_site=impl.exact)
        if unexplained:
            case, ev = recs[unexplained[0]]
            ctx.broken("correspondence:C04-model-vs-tracer",
                       "the distance model (about which the theorems are proved) no longer reproduces the tracer callbacks",
                       {"case": case, "python": ev["ref"], "tracer": repr(ev["out"]), "heuristic": repr(ev["raw"]),
                        "mismatching_cases": len(unexplained)})
    elif bad is not None:
        ctx.leg("K2", ok=True, cases=len(coq_cases), exact_call_site=impl.exact)
    # K2b: string heuristics
    from pynguin.utils.type_utils import string_le_distance, string_lt_distance

    scases, srecs = [], []
    for a, b in gen_strings(ctx.rng, 1500 if ctx.quick else 8000):
        sa, sb = "".join(map(chr, a)), "".join(map(chr, b))
        obs = (sa < sb, sa <= sb, string_lt_distance(sa, sb), string_le_distance(sa, sb))
        srecs.append((a, b, obs))
        ctx.case_seen(("str", a, b))
        scases.append("(%s, %s, (%s, %s, %s, %s))" % (clist(map(cZ, a)), clist(map(cZ, b)), cbool(obs[0]), cbool(obs[1]),
                                                     cZ(obs[2]), cZ(obs[3])))
        if (obs[2] == 0) != obs[0] or (obs[3] == 0) != obs[1] or obs[2] < 0 or obs[3] < 0:
            ctx.fail("string-distance", f"string_lt/le_distance({sa!r}, {sb!r}) = {obs[2:]} but <, <= are {obs[:2]}",
                     {"s1": a, "s2": b})
    sbad = ctx.run_cases("C04_str", "From Verif Require Import Models.C04.", "C04.str_case", "C04.check_str", scases)
    if sbad:
        ctx.leg("K2str", ok=False, mismatches=len(sbad))
        if not ctx.failures:
            a, b, obs = srecs[sbad[0]]
            ctx.broken("correspondence:C04-string-distances", "string_lt/le_distance differ from the model",
                       {"s1": a, "s2": b, "implementation": list(obs)})
    elif sbad is not None:
        ctx.leg("K2str", ok=True, cases=len(scases))
    ctx.assumptions += [
        "what Python's own operator does on a pair of values (returns a truth value / raises) and what a distance "
        "heuristic does (returns any float / raises) are parameters of the model, universally quantified in the theorems",
        "binary64 comparison 0.0 < d of CPython = PrimFloat.ltb (IEEE 754), specified by Coq's FloatAxioms",
        "str comparison of CPython = lexicographic order on code points (sampled by K2str)",
    ]
    ctx.cov["trusted_base"] += [
        "hand-written model Models/C04.v tied by replaying every sampled callback evaluation in Coq (this run); "
        + ("heuristic observed at the real call site _untaken_distance" if impl.exact else
           "call site _untaken_distance not found: only the sign of the untaken distance is compared"),
        "harness/props/C04.py, _c04_values.py (generators, fresh-copy discipline, direct oracle)",
    ]


def replay(ctx, path):
    vlib.setup_impl_path()
    d = json.loads(open(path).read())["replay"]
    case = d["case"]
    impl = Impl()
    ev = evaluate(impl, case)
    print("case:", case)
    print("values:", repr(V.build(case["a"])), repr(V.build(case["b"])))
    print("python:", ev["ref"], "after tracer:", ev["sut"])
    print("tracer:", ev["out"], "heuristic:", ev["raw"])
    print("oracle:", oracle(case, ev))
    print("model agrees:", ctx.coq_eval("From Coq Require Import PrimFloat.\nFrom Verif Require Import Models.C04.",
                                        "C04.check_case " + c_case(case, ev)))
    return 0
