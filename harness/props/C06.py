"""C06 — control-dependence graphs match the post-dominance definition.

T  static proofs (Base/Graph.v, Proofs/C06.v): the executable CDG equals the Ferrante relation over
   walks for every finite graph; root reachability; checker soundness.
K  translation validation: Pynguin's real CFG and CDG of every sampled code object (generated
   functions, pure-Python stdlib sources, synthetic graphs fed to ControlDependenceGraph.compute)
   are dumped as Coq terms and C06.check_case is evaluated inside Coq (vm_compute).
S  independent oracle in Python (iterative post-dominator sets) on the same dumps.
"""
from __future__ import annotations

import json
import multiprocessing as mp
import warnings

import vlib
from props import _c06_extract as X
from props import _c06_gen as G

SRC = ["src/pynguin/instrumentation/controlflow.py", "src/pynguin/instrumentation/transformer.py",
       "src/pynguin/instrumentation/version/python3_12.py"]


def _features(case):
    f = []
    succ = {}
    for a, l, b in case["edges"]:
        succ.setdefault(a, []).append((l, b))
    if any(l is not None for _, l, _ in case["edges"]):
        f.append("branch")
    if any(b <= a and a > 2 and b > 2 for a, _, b in case["edges"]):
        f.append("back-edge")
    if any(len(v) > 1 and all(l is None for l, _ in v) and all(b != X.EXIT for _, b in v) for v in succ.values()):
        f.append("try-or-handler-fork")
    if any(len(v) > 1 and any(b == X.EXIT and l is None for l, b in v) for v in succ.values()):
        f.append("yield-or-loop-exit-edge")
    if any(len(v) > 2 and any(l is not None for l, _ in v) and any(b == X.EXIT and l is None for l, b in v) for v in succ.values()):
        f.append("yielding-conditional-block")
    pairs = {}
    for a, l, b in case["cdg"]:
        pairs.setdefault((a, b), set()).add(l)
    if any(len(v) > 1 for v in pairs.values()):
        f.append("cdg-edge-with-two-outcomes")
    return f


def _file_cases(path):
    """(origin, case) for every code object of one source file (worker process)."""
    warnings.simplefilter("ignore")
    try:
        code = compile(open(path, encoding="utf-8", errors="replace").read(), path, "exec")
    except (SyntaxError, ValueError):
        return []
    return [(f"{path}:{co.co_name}:{co.co_firstlineno}", X.extract(co)) for co in X.code_objects(code)]


def _source_cases(src, origin):
    warnings.simplefilter("ignore")
    code = G.compiles(src)
    if code is None:
        return []
    return [({"origin": origin, "source": src, "code_object": f"{co.co_name}:{co.co_firstlineno}"}, X.extract(co))
            for co in X.code_objects(code)]


def _graph_case(nodes, edges):
    return X.observe(X.real_from_graph(nodes, [tuple(e) for e in edges]))


def shrink_graph(nodes, edges, sig):
    """Remove blocks/edges while the same failure signature persists on the real code."""
    def fails(ns, es):
        if X.wellformed(ns, es):
            return False
        try:
            return any(s == sig for s, _ in X.oracle(_graph_case(ns, es)))
        except Exception:  # noqa: BLE001
            return False
    nodes, edges = list(nodes), [tuple(e) for e in edges]
    if not fails(nodes, edges):
        return nodes, edges
    changed = True
    while changed:
        changed = False
        for n in [n for n in nodes if n > 3]:
            # bypass n: predecessors inherit its successors
            ins = [(a, l) for a, l, b in edges if b == n and a != n]
            outs = [b for a, l, b in edges if a == n and b != n]
            es = [(a, l, b) for a, l, b in edges if a != n and b != n]
            have = {(a, b) for a, _, b in es}
            for a, l in ins:
                for b in outs:
                    if (a, b) not in have:
                        have.add((a, b))
                        es.append((a, l, b))
            ns = [m for m in nodes if m != n]
            if fails(ns, es):
                nodes, edges, changed = ns, es, True
                break
        if changed:
            continue
        for e in list(edges):
            es = [x for x in edges if x != e]
            if fails(nodes, es):
                edges, changed = es, True
                break
    return nodes, sorted(edges, key=X._k)


def run(ctx: vlib.Ctx):
    vlib.setup_impl_path()
    warnings.simplefilter("ignore")
    ctx.digest_sources(SRC)
    ctx.coq_static()
    if not ctx.quick:
        ctx.coqchk()
    rng = ctx.rng
    cap = 60 if ctx.quick else 220          # largest CFG evaluated inside Coq (cubic cost)
    n_gen = 200 if ctx.quick else 3000
    n_syn = 400 if ctx.quick else 6000
    n_files = 3 if ctx.quick else 70

    items = []  # (origin dict, case)
    # 1. corpus: minimised earlier failures and seeds, always first
    corpus = json.loads((vlib.VERIF / "corpus" / "C06.json").read_text())
    for k, c in enumerate(corpus):
        if c["kind"] == "source":
            items += _source_cases(c["src"], f"corpus[{k}] {c.get('note', '')}")
        else:
            items.append(({"origin": f"corpus[{k}] {c.get('note', '')}"}, _graph_case(c["nodes"], c["edges"])))
        ctx.count("kind:corpus")
    n_corpus = len(items)
    # 2. generated functions
    for k in range(n_gen):
        src = "\n".join(G.gen_function(rng)) + "\n"
        got = _source_cases(src, f"generated function #{k}")
        if not got:
            ctx.count("generated:syntax-error")
        items += got
        ctx.count("kind:generated-function")
    # 3. synthetic graphs through ControlDependenceGraph.compute
    for k in range(n_syn):
        ns, es = X.synth_graph(rng, rng.choice([1, 2, 3, 4, 6, 8, 12, 16, 24]))
        items.append(({"origin": f"synthetic graph #{k}"}, _graph_case(ns, es)))
        ctx.count("kind:synthetic-graph")
    # 4. pure-Python stdlib sources (compiled, never imported)
    files = X.stdlib_files()
    always = [f for f in files if f.name in ("glob.py", "encoder.py")]
    chosen = always + rng.sample([f for f in files if f not in always], min(n_files, len(files) - len(always)))
    with mp.Pool(min(16, len(chosen))) as pool:
        for res in pool.imap(_file_cases, [str(f) for f in chosen], chunksize=1):
            for origin, case in res:
                items.append(({"origin": origin}, case))
            ctx.count("kind:stdlib-file")
    ctx.log(f"{len(items)} code objects / graphs extracted from the implementation")

    # S: independent oracle on every dump
    n_fail = 0
    failing = set()
    shrunk = set()
    for idx, (origin, case) in enumerate(items):
        feats = _features(case)
        for f in feats:
            ctx.count("feature:" + f)
        ctx.count("blocks:%s" % ("<=3" if len(case["nodes"]) <= 5 else "<=10" if len(case["nodes"]) <= 12 else
                                 "<=40" if len(case["nodes"]) <= 42 else "<=100" if len(case["nodes"]) <= 102 else ">100"))
        ctx.case_seen((case["nodes"], case["edges"]), nontrivial="branch" in feats)
        res = X.oracle(case)
        if res:
            failing.add(idx)
            n_fail += 1
        for k, (sig, msg) in enumerate(res):
            rep = dict(origin)
            if not case.get("error") and not sig.startswith("cfg:"):
                ns, es = shrink_graph(case["nodes"], case["edges"], sig) if k == 0 and sig not in shrunk else (case["nodes"], case["edges"])
                shrunk.add(sig)
                rep.update({"kind": "graph", "nodes": ns, "edges": [list(e) for e in es]})
            else:
                # CFG/CDG construction failed or the CFG is malformed: the program (or graph) itself is the replay
                kind = "source" if "source" in origin else "stdlib" if ".py:" in str(origin.get("origin")) else "graph"
                rep.update({"kind": kind, "nodes": case["nodes"], "edges": [list(e) for e in case["edges"]]})
            ctx.fail(sig, f"{origin.get('origin')}: {msg}", rep)
    ctx.leg("S", oracle_failures=n_fail, dumps=len(items))
    for origin, case in items[n_corpus:n_corpus + 3]:
        ctx.sample({"origin": origin.get("origin"), "source": origin.get("source"), "cfg_edges": case["edges"], "cdg": case["cdg"]})
    ctx.cov["rule"] = ("one case per code object (generated functions with nested/sequential branches, loops, try, "
                       "with, match, generators; code objects of pure-Python stdlib sources) or synthetic CFG; a case "
                       "is non-trivial when its CFG has at least one conditional edge; distinct = distinct (nodes, edges)")

    # K: translation validation inside Coq
    eligible = [i for i, (_, c) in enumerate(items)
                if (not c.get("error") or c["error"].startswith("cdg:")) and c["nodes"] and len(c["nodes"]) <= cap]
    ctx.count("coq:skipped-too-large", sum(1 for _, c in items if len(c["nodes"]) > cap))
    # spread the heavy cases over the shards
    eligible.sort(key=lambda i: -len(items[i][1]["nodes"]))
    n_shards = 16
    order = [i for k in range(n_shards) for i in eligible[k::n_shards]]
    shard = max(1, -(-len(order) // n_shards))
    terms = [X.c_case(items[i][1]) for i in order]
    bad = ctx.run_cases("C06_cases", "From Verif Require Import Base.Graph Models.C06.", "C06.case", "C06.check_case",
                        terms, shard=shard, timeout=1500)
    if bad is not None:
        bad_idx = [order[b] for b in bad]
        unexplained = [i for i in bad_idx if i not in failing]
        ctx.leg("K", ok=not bad_idx, evaluated=len(eligible), mismatches=len(bad_idx), largest_cfg_in_coq=cap)
        if unexplained:
            i = unexplained[0]
            origin, case = items[i]
            code = ctx.coq_eval("From Verif Require Import Base.Graph Models.C06.", "C06.check_code " + X.c_case(case))
            ctx.broken("correspondence:C06-model-vs-controlflow",
                       "Pynguin's CFG/CDG for a code object is not accepted by the proved checker "
                       "(1 = CFG not well-formed, 2 = CDG differs from the definition, 3 = dependency/root query differs) "
                       "and the independent oracle found no failing input",
                       {"origin": origin, "check_code": code, "nodes": case["nodes"], "edges": case["edges"], "cdg": case["cdg"],
                        "obs": case["obs"], "mismatching_cases": len(unexplained)})
        missed = [i for i in failing if i in eligible and i not in bad_idx]
        if missed:
            ctx.notes.append(f"{len(missed)} oracle failures not flagged by the Coq checker (queries on a CDG that is itself correct)")
    ctx.assumptions += [
        "node identity: basic block i is i+3, ENTRY=1, EXIT=2, AUGMENTED_ENTRY=0; CDG edge labels are read from the "
        "edge attributes branch_value / branch_values",
        "the bytecode -> basic block translation (bytecode library, CPython 3.12 compiler) is outside the model: the "
        "theorems start from the CFG Pynguin built",
        f"CFGs with more than {cap} nodes are checked by the Python oracle only (cubic cost of the proved checker)",
    ]
    ctx.cov["trusted_base"] += [
        "fact extractor harness/props/_c06_extract.py (dumps nodes/edges/labels of the real graphs)",
        "networkx graph containers as read through .nodes/.edges(data=True)",
    ]


def replay(ctx, path):
    vlib.setup_impl_path()
    warnings.simplefilter("ignore")
    d = json.loads(open(path).read())["replay"]
    if d.get("kind") == "graph":
        cases = [_graph_case(d["nodes"], d["edges"])]
    elif "source" in d:
        cases = [c for o, c in _source_cases(d["source"], "replay") if o["code_object"] == d.get("code_object")]
    else:
        p, name, line = d["origin"].rsplit(":", 2)
        cases = [c for o, c in _file_cases(p) if o == d["origin"]]
    for case in cases:
        print("cfg nodes:", case["nodes"])
        print("cfg edges:", case["edges"])
        print("implementation cdg:", case["cdg"], case.get("error", ""))
        if not case.get("error"):
            print("definition    cdg:", X.ferrante(case["nodes"], case["edges"]))
        print("oracle:", X.oracle(case))
        if not case.get("error"):
            print("model check_code:", ctx.coq_eval("From Verif Require Import Base.Graph Models.C06.", "C06.check_code " + X.c_case(case)))
    return 0
