"""C27 helper: generated modules (SUT + helper module), the real test cluster, an independent
ast+inspect oracle."""
from __future__ import annotations

import ast
import importlib
import inspect
import sys
from pathlib import Path

FUNC_NAMES = ["alpha", "beta", "_prot", "_p2", "__priv", "__dun__", "_Cls__m", "_A1__x_", "mainloop", "main",
              "testify", "test_it", "maintain", "tested", "_", "__", "_x__", "_Kk__z__", "x__y", "__a__b", "gamma_"]
CLASS_NAMES = ["Foo", "Bar", "_Hidden", "__Priv", "Baz", "_Kls__N", "Qux", "MainThing", "TestCase1"]
METHOD_NAMES = ["get", "get_all", "put", "putter", "_prot", "__priv", "__len__", "__call__", "_x__", "run", "__a__b", "_Foo__fake",
                "main", "test_m"]


HELPER_SRC = "\n".join([
    "import abc", "import enum", "import functools",
    "def hf_public(a):", "    return a", "def _hf_prot(a):", "    return a",
    "def hdeco(f):", "    def helper_wrapper(*a, **k):", "        return f(*a, **k)", "    return helper_wrapper",
    "def hmake(n):", "    def made_in_helper(x):", "        return x + n", "    return made_in_helper",
    "class HelperBase:", "    def inherited(self):", "        return 1", "    def _hprot(self):", "        return 2",
    "class HelperOther:", "    def other(self):", "        return 3",
    "class HelperColor(enum.Enum):", "    RED = 1", "    GREEN = 2",
    "HELPER_CONST = 3"]) + "\n"

FACTORY_NAMES = ["mk_a", "_mk_b", "__mk_c", "build", "_build"]
INNER_NAMES = ["inner_pub", "_inner_prot", "__inner_priv", "__inner_dun__", "scale", "_add"]


BUILTIN_DERIVED = [
    ("Stack", ["class @(list):", "    def push(self, x):", "        self.append(x)"]),
    ("Registry", ["class @(dict):", "    def names(self):", "        return sorted(self)"]),
    ("Celsius", ["class @(float):", "    def kelvin(self):", "        return self + 273.15"]),
    ("Label", ["class @(str):", "    pass"]),
    ("Count", ["class @(int):", "    def twice(self):", "        return 2 * self"]),
    ("Bag", ["class @(set):", "    pass"]),
    ("Pair", ["class @(tuple):", "    def first(self):", "        return self[0]"]),
    ("Point", ["class @(NamedTuple):", "    x: int", "    y: int = 0", "    def norm(self):", "        return abs(self.x) + abs(self.y)"]),
    ("Size", ["@ = namedtuple('@', ['w', 'h'])"]),
    ("Level", ["class @(enum.IntEnum):", "    LOW = 1", "    HIGH = 2"]),
    ("Tag", ["class @(str, enum.Enum):", "    A = 'a'", "    B = 'b'"]),
    ("Mode", ["class @(enum.StrEnum):", "    ON = 'on'"]),
    ("Flagged", ["class @(enum.Flag):", "    R = 1", "    W = 2"]),
]


def lambda_layout(rng, name):
    """A named lambda at module level in the layouts found in real code."""
    c = rng.random()
    if c < 0.3:
        return [f"{name} = lambda a: a"]
    if c < 0.5:
        return [f"{name} = (", "    lambda a, b=2: a * b", ")"]
    if c < 0.65:
        return [f"{name} = \\", "    lambda s: s"]
    if c < 0.75:
        return [f"{name} = (lambda a, key=(", "    lambda x: x),", "    other=3: key(a))"]
    if c < 0.85:
        return [f"{name} = lambda a: a; {name}_second = lambda b: b"]
    return [f"{name} = (", "", "    lambda a: (", "        a + 1)", ")"]


def layout(k, variant):
    """Where the SUT and the helper module live.  The helper's dotted name is a suffix / prefix /
    extension of the SUT's name in variants 1-5 (a filter on the defining module must be an exact
    comparison)."""
    base = f"c27sut_{k}"
    if variant == 1:      # helper = <pkg>.<sut name>
        return base, f"{base}.py", f"c27vend_{k}.{base}", {f"c27vend_{k}/__init__.py": "", f"c27vend_{k}/{base}.py": HELPER_SRC}
    if variant == 2:      # helper = <sut name>x
        return base, f"{base}.py", f"{base}x", {f"{base}x.py": HELPER_SRC}
    if variant == 3:      # helper = x_<sut name>
        return base, f"{base}.py", f"x_{base}", {f"x_{base}.py": HELPER_SRC}
    if variant == 4:      # SUT = <pkg>.<name>, helper = top-level <name>
        return f"c27p_{k}.{base}", f"c27p_{k}/{base}.py", base, {f"c27p_{k}/__init__.py": "", f"{base}.py": HELPER_SRC}
    if variant == 5:      # SUT = package, helper = <sut>.sub
        return base, f"{base}/__init__.py", f"{base}.sub", {f"{base}/sub.py": HELPER_SRC}
    return base, f"{base}.py", f"c27helper_{k}", {f"c27helper_{k}.py": HELPER_SRC}


def gen_case(rng, k):
    """Returns dict(sut=source, sut_path, extra_files, name, helper_name, visibility, ignore_methods,
    ignore_modules)."""
    variant = rng.choice([0, 0, 1, 1, 2, 3, 4, 5])
    sut, sut_path, helper, extra = layout(k, variant)
    L = ["import abc", "import enum", "import functools", f"import {helper}",
         f"from {helper} import hf_public, _hf_prot, HelperBase, HelperOther, HelperColor, hdeco, hmake"]
    tail = []   # classes deriving from builtin collections / primitives, named tuples, mixin enums
    if rng.random() < 0.5:
        tail += ["from collections import namedtuple", "from typing import NamedTuple"]
        for bn in rng.sample(BUILTIN_DERIVED, rng.choice([1, 2, 3])):
            cn = rng.choice(["", "_"]) + bn[0]
            tail += [ln.replace("@", cn) for ln in bn[1]]
    if rng.random() < 0.3:
        L.append(f"from {helper} import hf_public as reexported")
    fnames = rng.sample(FUNC_NAMES, rng.choice([2, 3, 5, 7]))
    for fn in fnames:
        c = rng.random()
        if c < 0.08:
            L += [f"async def {fn}(a):", "    return a"]
        elif c < 0.16:
            L += ["@functools.lru_cache(maxsize=None)", f"def {fn}(a):", "    return a"]
        elif c < 0.22:
            L += [f"def {fn}(a):", "    yield a"]
        elif c < 0.34:
            L += lambda_layout(rng, fn)
        elif c < 0.38:
            L += [f"def {fn}(a):", "    def nested_inner(b):", "        return b", "    return nested_inner"]
        elif c < 0.42:
            L += ["if HELPER_FLAG:", f"    def {fn}(a):", "        return a"]
        elif c < 0.46:
            L += [f"{fn} = hf_public"]
        else:
            L += [f"def {fn}(a, b=1):", "    return a"]
    L.insert(5, "HELPER_FLAG = True")
    # closures / partials bound at module level: factory name vs produced function's own name
    n_fac = rng.choice([0, 1, 2, 3])
    facs = rng.sample(FACTORY_NAMES, n_fac)
    for i, fac in enumerate(facs):
        inner = rng.choice(INNER_NAMES)
        bind = rng.choice(["bound_pub", "_bound_prot", "__bound_priv"]) + str(i)
        if rng.random() < 0.3:     # depth 2
            mid = rng.choice(["mid", "_mid"])
            L += [f"def {fac}(a):", f"    def {mid}(b):", f"        def {inner}(c):", "            return a + b + c",
                  f"        return {inner}", f"    return {mid}", f"{bind} = {fac}(1)(2)"]
            if rng.random() < 0.4:
                L += [f"{bind}_mid = {fac}(5)"]
        else:
            L += [f"def {fac}(n):", f"    def {inner}(x):", "        return x + n", f"    return {inner}", f"{bind} = {fac}(2)"]
            if rng.random() < 0.3:
                L += [f"{bind}_again = {fac}(3)"]
        c = rng.random()
        if c < 0.2:
            L += [f"part{i} = functools.partial({bind}, 1)"]
        elif c < 0.35:
            L += [f"lam{i} = (lambda f: (lambda x: f(x)))({bind})"]
    if rng.random() < 0.25:
        L += ["from_helper_factory = hmake(1)"]
    # decorated functions
    if rng.random() < 0.45:
        dn = rng.choice(["deco", "_deco"])
        wn = rng.choice(["wrapper", "_wrapper"])
        wraps = rng.random() < 0.5
        L += [f"def {dn}(f):"] + (["    @functools.wraps(f)"] if wraps else []) + [
            f"    def {wn}(*a, **k):", "        return f(*a, **k)", f"    return {wn}"]
        for tn in rng.sample(["shown", "_shadow", "__deep", "visible2"], rng.choice([1, 2])):
            L += [f"@{dn}", f"def {tn}(a):", "    return a"]
        if rng.random() < 0.4:
            L += [f"wrapped_foreign = {dn}(hf_public)"]
    if rng.random() < 0.2:
        L += ["@hdeco", f"def {rng.choice(['via_helper', '_via_helper'])}(a):", "    return a"]
    cnames = rng.sample(CLASS_NAMES, rng.choice([1, 2, 3, 4]))
    prev = None
    for cn in cnames:
        c = rng.random()
        bases = ""
        kind = "plain"
        if c < 0.12:
            bases, kind = "(enum.Enum)", "enum"
        elif c < 0.22:
            bases, kind = "(abc.ABC)", "abstract"
        elif c < 0.36:
            bases = "(HelperBase)"
        elif c < 0.5 and prev:
            bases = f"({prev})"
        elif c < 0.55:
            bases = f"({helper}.HelperOther)"
        L.append(f"class {cn}{bases}:")
        if kind == "enum":
            if rng.random() < 0.85:
                L += ["    RED = 1", "    BLUE = 2"]
            else:
                L += ["    pass"]
            if rng.random() < 0.5:
                L += ["    def describe(self):", "        return self.name"]
            continue
        if rng.random() < 0.6:
            L += ["    def __init__(self, a=0):", "        self.a = a"]
        if kind == "abstract":
            L += ["    @abc.abstractmethod", "    def must(self):", "        ..."]
        for mn in rng.sample(METHOD_NAMES, rng.choice([1, 2, 3, 4])):
            d = rng.random()
            if d < 0.1:
                L += ["    @staticmethod", f"    def {mn}(a):", "        return a"]
            elif d < 0.2:
                L += ["    @classmethod", f"    def {mn}(cls):", "        return cls"]
            elif d < 0.28:
                L += ["    @property", f"    def {mn}(self):", "        return 1"]
            elif d < 0.34:
                L += [f"    async def {mn}(self):", "        return 1"]
            elif d < 0.40:
                L += [f"    {mn} = hf_public"]
            elif d < 0.45:
                L += [f"    {mn} = lambda self: 1"]
            else:
                L += [f"    def {mn}(self, x=0):", "        return x"]
        if rng.random() < 0.2:
            L += ["    class Inner:", "        def inner_m(self):", "            return 1"]
        prev = cn
    src = "\n".join(L + tail) + "\n"
    vis = rng.choice(["PUBLIC", "PUBLIC", "PROTECTED", "ALL"])
    ign = []
    c = rng.random()
    if c < 0.4:
        # also entries that are textual prefixes of other qualified names (matching must be exact)
        pool = [f"{sut}.{fn}" for fn in fnames] + [f"{helper}.hf_public", f"{sut}.nothing"] + [
            f"{sut}.{cn}.{m}" for cn in cnames for m in ("get", "put")] + [f"{sut}.{cnames[0]}", f"{sut}.{fnames[0]}"[:-1], sut]
        ign = rng.sample(pool, min(len(pool), rng.choice([1, 2])))
    ign_mod = [helper] if rng.random() < 0.1 else []
    return {"sut": src, "sut_path": sut_path, "extra_files": extra, "name": sut, "helper_name": helper,
            "visibility": vis, "ignore_methods": ign, "ignore_modules": ign_mod}


def fkey(f):
    """Qualified name used as key of a function; lambdas are told apart by the line of the lambda
    expression (they all share the name <lambda>)."""
    q = f.__qualname__
    return f"{q}@{f.__code__.co_firstlineno}" if q.endswith("<lambda>") else q


def case_files(case):
    if "sut_path" in case:
        return {case["sut_path"]: case["sut"], **case["extra_files"]}
    return {f"{case['name']}.py": case["sut"], f"{case['helper_name']}.py": case["helper"]}


# ---------------------------------------------------------------------------------------------
def run_impl(case, scratch: Path):
    """The real cluster: sorted canonical descriptions of accessible_objects_under_test."""
    import pynguin.configuration as config
    from pynguin.analyses.module import generate_test_cluster
    from pynguin.utils.generic.genericaccessibleobject import (
        GenericConstructor, GenericEnum, GenericFunction, GenericMethod)

    files = case_files(case)
    roots = {p.split("/")[0].removesuffix(".py") for p in files}
    import shutil
    for r in roots:      # a module and a package of the same name must not coexist from an earlier case
        shutil.rmtree(scratch / r, ignore_errors=True)
        (scratch / f"{r}.py").unlink(missing_ok=True)
    for rel, src in files.items():
        (scratch / rel).parent.mkdir(parents=True, exist_ok=True)
        (scratch / rel).write_text(src)

    def purge():
        for m in list(sys.modules):
            if m.split(".")[0] in roots:
                del sys.modules[m]
    purge()
    old_dwb = sys.dont_write_bytecode
    sys.dont_write_bytecode = True   # the same path may be rewritten within a second (shrinking)
    old = (config.configuration.element_visibility, config.configuration.ignore_methods,
           config.configuration.ignore_modules, config.configuration.module_name)
    sys.path.insert(0, str(scratch))
    importlib.invalidate_caches()
    try:
        config.configuration.element_visibility = config.ElementVisibility(case["visibility"])
        config.configuration.ignore_methods = list(case["ignore_methods"])
        config.configuration.ignore_modules = list(case["ignore_modules"])
        config.configuration.module_name = case["name"]
        cluster = generate_test_cluster(case["name"])
        members = abstract_members(sys.modules[case["name"]], case)
        rt = runtime_functions(sys.modules[case["name"]], case)
        out = []
        for o in cluster.accessible_objects_under_test:
            if isinstance(o, GenericEnum):
                t = o.owner.raw_type
                out.append(("enum", t.__module__, t.__qualname__, ""))
            elif isinstance(o, GenericConstructor):
                t = o.owner.raw_type
                out.append(("constructor", t.__module__, t.__qualname__, ""))
            elif isinstance(o, GenericMethod):
                t = o.owner.raw_type
                fn = inspect.unwrap(o.callable)
                out.append(("method", t.__module__, t.__qualname__, o.method_name, getattr(fn, "__module__", None)))
            elif isinstance(o, GenericFunction):
                fn = inspect.unwrap(o.callable)
                out.append(("function", fn.__module__, fkey(fn), ""))
            else:
                out.append(("other", type(o).__name__, repr(o), ""))
        return sorted(out, key=repr), members, rt
    finally:
        sys.path.remove(str(scratch))
        (config.configuration.element_visibility, config.configuration.ignore_methods,
         config.configuration.ignore_modules, config.configuration.module_name) = old
        sys.dont_write_bytecode = old_dwb
        purge()


def runtime_functions(mod, case):
    """Facts about the function objects bound in the module's namespace, read from the objects
    themselves (__name__, __module__, __wrapped__): input of the independent oracle."""
    import functools

    out = []
    ign = set(case["ignore_methods"])
    for bind, obj in list(vars(mod).items()):
        if inspect.isfunction(obj) or (isinstance(obj, functools._lru_cache_wrapper) and inspect.isfunction(inspect.unwrap(obj))):
            u = inspect.unwrap(obj)
            out.append({"bind": bind, "name": obj.__name__, "module": obj.__module__, "qual": fkey(u),
                        "umodule": u.__module__,
                        "async": inspect.iscoroutinefunction(obj) or inspect.isasyncgenfunction(obj),
                        "listed": f"{u.__module__}.{u.__qualname__}" in ign})
    return out


def abstract_members(mod, case):
    """The module's callables as the model sees them (C27.member), from the imported module with
    `inspect` only: list of dict(kind, name, own, reached, async, listed, main_test, key)."""
    import enum
    import functools

    from pynguin.utils.type_utils import get_class_that_defined_method

    sut = case["name"]
    ign = set(case["ignore_methods"])
    out, seen_f, seen_c = [], set(), set()
    assigned_lambda_lines = set()
    if "sut" in case:
        for node in ast.parse(case["sut"]).body:
            if (isinstance(node, ast.Assign) and len(node.targets) == 1 and isinstance(node.targets[0], ast.Name)
                    and isinstance(node.value, ast.Lambda)):
                assigned_lambda_lines.add(node.value.lineno)

    def is_async(f):
        return inspect.iscoroutinefunction(f) or inspect.isasyncgenfunction(f)

    def add_class(cls):
        if cls in seen_c or cls.__module__ == "builtins":
            return
        seen_c.add(cls)
        own = cls.__module__ == sut
        is_enum = issubclass(cls, enum.Enum)
        withheld = inspect.isabstract(cls) or cls in (list, set, tuple, dict) or cls in (int, str, bytes, bool, float, complex)
        reached = (len(cls.__members__) > 0 and not withheld) if is_enum else not withheld
        out.append({"kind": "Constructor", "name": cls.__name__, "own": own, "reached": reached, "async": False,
                    "listed": False, "main_test": False,
                    "key": ("enum" if is_enum else "constructor", cls.__module__, cls.__qualname__, "")})
        for mname, meth in inspect.getmembers(cls, inspect.isfunction):
            reached = (mname not in ("__init__", "__annotate_func__")
                       and get_class_that_defined_method(meth) == cls)
            out.append({"kind": "Method", "name": mname, "own": own, "reached": reached, "async": is_async(meth),
                        "listed": f"{cls.__module__}.{cls.__qualname__}.{mname}" in ign, "main_test": False,
                        "key": ("method", cls.__module__, cls.__qualname__, mname)})
        for b in cls.__bases__:
            add_class(b)

    for obj in list(vars(mod).values()):
        if inspect.isclass(obj):
            if obj.__module__ in case["ignore_modules"]:
                continue
            add_class(obj)
        elif inspect.isfunction(obj) or (isinstance(obj, functools._lru_cache_wrapper) and inspect.isfunction(inspect.unwrap(obj))):
            f = inspect.unwrap(obj)
            if obj in seen_f:
                continue
            seen_f.add(obj)
            reached = f.__module__ not in case["ignore_modules"]
            if obj.__qualname__.rpartition(".")[2] == "<lambda>":
                # lambda naming (outside the model): only `name = lambda ...` statements of the module
                # keep their lambda; the analysis finds them by line number
                reached = reached and obj.__code__.co_firstlineno in assigned_lambda_lines
            out.append({"kind": "Function", "name": obj.__qualname__.rpartition(".")[2], "own": obj.__module__ == sut,
                        "reached": reached, "async": is_async(obj),
                        "listed": f"{f.__module__}.{f.__qualname__}" in ign,
                        "main_test": f.__qualname__.startswith(("main", "test")),
                        "key": ("function", f.__module__, fkey(f), "")})
    return out


# ---------------------------------------------------------------------------------------------
# independent classification of names (property text: public / protected / private / mangled / dunder)
def name_class(n: str) -> str:
    if not n.startswith("_"):
        return "public"
    if n.startswith("__"):
        return "dunder" if n.endswith("__") else "private"
    # single leading underscore; Python mangles __x inside class K to _K__x
    import re
    if re.fullmatch(r"_[A-Za-z][A-Za-z0-9]*__\w+", n) and not n.endswith("__"):
        return "mangled"
    return "protected"


def eligible(n: str, vis: str) -> bool:
    c = name_class(n)
    if vis == "ALL":
        return True
    if vis == "PROTECTED":
        return c in ("public", "dunder", "protected")
    return c in ("public", "dunder")


def oracle(case):
    """Expected members from the source alone (ast) — returns dict(must=set, mustnot_pred=callable).

    Each entry: (kind, qualname, method).  Rules (property text):
      functions : module-level `def` (also inside a module-level if), defined in the SUT, not async,
                  name eligible, not listed in ignore_methods;
      constructors: module-level classes of the SUT that are not abstract (enums count as 'enum');
      methods   : plain `def` / staticmethod members written in the class body (not inherited,
                  not async, not `__init__`), name (as stored in the class, i.e. after mangling)
                  eligible.
    Unconstrained (neither required nor forbidden): lambdas, functions bound by assignment of a
    foreign function, classmethods/properties, methods of nested classes, generator functions'
    status is 'must' like any function."""
    tree = ast.parse(case["sut"])
    vis = case["visibility"]
    sut = case["name"]
    must, free = set(), set()
    why: dict = {}
    ign = set(case["ignore_methods"])

    def mangle(cname, n):
        return "_" + cname.lstrip("_") + n if n.startswith("__") and not n.endswith("__") else n

    def inner_classes(cnode, prefix):
        for x in cnode.body:
            if isinstance(x, ast.ClassDef):
                q = f"{prefix}.{x.name}"
                if eligible(x.name, vis):
                    must.add(("constructor", q, ""))
                    why[("constructor", q, "")] = "inner-class"
                    for y in x.body:
                        if isinstance(y, ast.FunctionDef) and y.name != "__init__" and eligible(mangle(x.name, y.name), vis):
                            must.add(("method", q, mangle(x.name, y.name)))
                            why[("method", q, mangle(x.name, y.name))] = "inner-class"
                inner_classes(x, q)

    abstract_names: dict = {}

    def top_level(body):
        for st in body:
            if isinstance(st, ast.If):
                yield from top_level(st.body)
            else:
                yield st

    for st in top_level(tree.body):
        if (isinstance(st, ast.Assign) and isinstance(st.value, ast.Call) and ast.unparse(st.value.func) == "namedtuple"
                and len(st.targets) == 1 and isinstance(st.targets[0], ast.Name)):
            if eligible(st.targets[0].id, vis):      # X = namedtuple('X', ...): a class of the module
                must.add(("constructor", st.targets[0].id, ""))
            continue
        if (isinstance(st, ast.Assign) and len(st.targets) == 1 and isinstance(st.targets[0], ast.Name)
                and isinstance(st.value, ast.Lambda)):
            # `name = lambda ...` is a function of the module called `name`, wherever the lambda
            # expression starts (same line, parenthesised on a later line, after a backslash)
            if eligible(st.targets[0].id, vis):
                must.add(("function", f"<lambda>@{st.value.lineno}", ""))
            continue
        if isinstance(st, ast.ClassDef):
            bases = [ast.unparse(b) for b in st.bases]
            is_enum = any(b.startswith("enum.") for b in bases)
            own_abs = {x.name for x in st.body if isinstance(x, ast.FunctionDef)
                       and any(ast.unparse(d) == "abc.abstractmethod" for d in x.decorator_list)}
            defined = {x.name for x in st.body if isinstance(x, (ast.FunctionDef, ast.AsyncFunctionDef))} | {
                getattr(t, "id", None) for x in st.body if isinstance(x, ast.Assign) for t in x.targets}
            inherited = set().union(*[abstract_names.get(b, set()) for b in bases]) if bases else set()
            abstract_names[st.name] = own_abs | (inherited - defined)
            is_abs = bool(abstract_names[st.name])
            cls_ok = eligible(st.name, vis)  # a constructor is called by the class name
            if is_enum:
                has_fields = any(isinstance(x, ast.Assign) for x in st.body)
                if has_fields and cls_ok:
                    must.add(("enum", st.name, ""))
            elif not is_abs and cls_ok:
                must.add(("constructor", st.name, ""))
            inner_classes(st, st.name)
            for x in st.body:
                if isinstance(x, ast.FunctionDef):
                    decs = [ast.unparse(d) for d in x.decorator_list]
                    stored = mangle(st.name, x.name)  # Python's name mangling
                    key = ("method", st.name, stored)
                    if "property" in decs:
                        free.add(key)
                        continue
                    if stored == "__init__":
                        continue
                    if f"{sut}.{st.name}.{stored}" in ign:
                        continue
                    if eligible(stored, vis):
                        # methods of a class whose own name is not eligible: unconstrained
                        (must if cls_ok else free).add(key)
                        if "classmethod" in decs:
                            why[key] = "method:classmethod"
                        elif is_enum:
                            why[key] = "method:enum-class"
                elif isinstance(x, ast.Assign) and isinstance(x.value, ast.Lambda):
                    for t in x.targets:
                        free.add(("method", st.name, mangle(st.name, getattr(t, "id", ""))))
    return {"must": must, "free": free, "why": why}


def judge(case, observed, rt):
    """Compare the real cluster with the oracle: list of (signature, message).

    Functions: decided from the function objects bound at module level (`rt`): a function is expected
    under test iff its own __module__ is the SUT, its own __name__ (= last __qualname__ component) is
    eligible, it is not a coroutine and its qualified name is not listed in ignore_methods.  Lambdas
    are unconstrained."""
    o = oracle(case)
    sut = case["name"]
    for f in rt:
        key = ("function", f["qual"], "")
        if f["name"] == "<lambda>" or "<lambda>" in f["qual"]:
            o["free"].add(key)
        elif (f["module"] == sut and f["umodule"] == sut and eligible(f["name"], case["visibility"])
              and not f["async"] and not f["listed"]):
            o["must"].add(key)
    out = []
    seen = set()
    for ent in observed:
        kind, mod, qual, meth = ent[0], ent[1], ent[2], ent[3]
        if kind == "other":
            continue
        if mod != sut or (kind == "method" and ent[4] not in (sut, None)):
            out.append(("foreign-under-test", f"{ent} is defined in another module but marked as under test"))
            continue
        key = (kind, qual, meth)
        seen.add(key)
        if key in o["must"] or key in o["free"]:
            continue
        # why is it not expected?
        last = meth if kind == "method" else qual.rpartition(".")[2]
        if kind in ("constructor", "enum") and not eligible(qual.rpartition(".")[2], case["visibility"]):
            out.append(("unexpected:class-name-not-eligible", f"{ent}: the class name is not eligible under {case['visibility']}"))
        elif not eligible(last, case["visibility"]):
            out.append(("unexpected:name-not-eligible", f"{ent} is under test but its name is not eligible under {case['visibility']}"))
        elif f"{sut}.{qual}" in case["ignore_methods"] or f"{sut}.{qual}.{meth}" in case["ignore_methods"]:
            out.append(("unexpected:ignored", f"{ent} is listed in ignore_methods"))
        else:
            out.append(("unexpected:other", f"{ent} is under test but not an eligible callable of the module"))
    for key in sorted(o["must"] - seen):
        kind, qual, meth = key
        if kind == "function" and qual.startswith(("main", "test")):
            out.append(("missing:main-test-prefix", f"function {qual} is dropped by the hard-coded main/test rule"))
        elif key in o["why"]:
            out.append(("missing:" + o["why"][key], f"{key} is an eligible callable of the module but not under test"))
        else:
            out.append((f"missing:{kind}", f"{key} is an eligible callable of the module but not under test"))
    return out
