"""C28 helpers: generated modules for all mutation operators, AST -> rose tree abstraction, diffs."""
from __future__ import annotations

import ast

STDLIB = ["bisect", "heapq", "keyword", "colorsys", "fnmatch", "shlex", "string", "stat", "glob", "reprlib", "copy",
          "graphlib", "numbers", "json.decoder", "json.encoder", "json.scanner", "html", "getopt", "quopri", "sched",
          "queue", "netrc", "tabnanny"]   # pure, import without side effects, < 2000 AST nodes


def gen_module(rng, size: int = 3, classes: bool = True) -> str:
    """A small executable module that offers sites to every mutation operator."""
    out = ["import functools", ""]
    nums = lambda: rng.choice(["0", "1", "2", "3", "10", "-1", "2.5"])  # noqa: E731
    var = lambda: rng.choice(["a", "b", "c"])  # noqa: E731

    def expr(d=0):
        c = rng.random()
        if d > 2 or c < 0.25:
            return rng.choice([var(), nums(), var()])
        if c < 0.5:
            return f"({expr(d + 1)} {rng.choice(['+', '-', '*', '/', '//', '%', '**', '&', '|', '^', '<<', '>>'])} {expr(d + 1)})"
        if c < 0.6:
            op1 = rng.choice(['-', '+', '~', 'not '])
            if rng.random() < 0.35:      # the same unary operator nested in itself, separated by another node
                return f"({op1}({expr(d + 1)} {rng.choice(['+', '*', 'and', '|'])} ({op1}{var()})))"
            return f"({op1}{expr(d + 1)})"
        if c < 0.64:
            return f"len(name[xs[{rng.choice(['1:2', ':2', '0:3:1'])}][0]:{rng.choice(['5', '4:2', ''])}])"
        if c < 0.67:
            return f"len({{**opts, 'k': {expr(d + 1)}, {nums()}: {expr(d + 1)}, **opts}})"
        if c < 0.7:
            return f"len({rng.choice(['xs', 'name'])}[{rng.choice(['1:', ':2', '1:3', '::2', '0:4:2'])}])"
        if c < 0.8:
            return rng.choice(["True", "False", "None", "'text'", "''", "f'{a}-{b}'", "f'v={name}'"])
        if c < 0.9:
            return f"({expr(d + 1)} if {cond(d + 1)} else {expr(d + 1)})"
        return f"max({expr(d + 1)}, {expr(d + 1)})"

    def cond(d=0):
        c = rng.random()
        if d > 2 or c < 0.5:
            return f"{expr(d + 1)} {rng.choice(['<', '>', '<=', '>=', '==', '!=', 'is', 'is not', 'in', 'not in'])} " + (
                "xs" if c < 0.12 else expr(d + 1))
        if c < 0.8:
            return f"({cond(d + 1)} {rng.choice(['and', 'or'])} {cond(d + 1)})"
        if c < 0.9:
            return f"not ({cond(d + 1)} {rng.choice(['and', 'or'])} not ({cond(d + 1)}))"
        return f"not ({cond(d + 1)})"

    def block(ind, d=0, in_loop=False):
        lines = []
        for _ in range(rng.choice([1, 2, 2, 3])):
            c = rng.random()
            p = " " * ind
            if c < 0.25:
                lines.append(f"{p}{var()} = {expr()}")
            elif c < 0.35:
                lines.append(f"{p}{var()} {rng.choice(['+=', '-=', '*=', '//='])} {expr()}")
            elif c < 0.5 and d < 2:
                lines.append(f"{p}if {cond()}:")
                lines += block(ind + 4, d + 1, in_loop)
                if rng.random() < 0.5:
                    lines.append(f"{p}else:")
                    lines += block(ind + 4, d + 1, in_loop)
            elif c < 0.6 and d < 2:
                lines.append(f"{p}for i in {rng.choice(['range(3)', 'xs', 'range(a)'])}:")
                lines += block(ind + 4, d + 1, True)
            elif c < 0.66 and d < 2:
                lines.append(f"{p}while {cond()}:")
                lines += block(ind + 4, d + 1, True)
                lines.append(f"{p}    break")
            elif c < 0.74 and in_loop:
                lines.append(f"{p}{rng.choice(['break', 'continue'])}")
            elif c < 0.82 and d < 2:
                lines.append(f"{p}try:")
                lines += block(ind + 4, d + 1, in_loop)
                lines.append(f"{p}except {rng.choice(['ValueError', 'KeyError', '(TypeError, ValueError)', 'Exception'])}:")
                lines.append(f"{p}    {rng.choice(['pass', 'raise', 'a = 0', 'raise KeyError(a)'])}")
                if rng.random() < 0.3:
                    lines.append(f"{p}except ZeroDivisionError as err:")
                    lines.append(f"{p}    raise ValueError(str(err))")
            elif c < 0.87 and d < 2:
                lines.append(f"{p}match {var()}:")
                for pat in rng.sample(["0", "1", "'x'", "[1, 2]", "None"], rng.choice([1, 2, 3])) + ["_"]:
                    lines.append(f"{p}    case {pat}:")
                    lines.append(f"{p}        {var()} = {expr()}")
            elif c < 0.93:
                lines.append(f"{p}return {rng.choice([expr(), 'None', ''])}".rstrip())
            else:
                lines.append(f"{p}g = lambda q: {expr()}")
        return lines

    for k in range(size):
        if rng.random() < 0.4:
            out.append(rng.choice(["@functools.lru_cache", "@functools.wraps(len)", "@staticmethod"]) if False else "@functools.wraps(len)")
        kwonly = rng.choice(["", ", *, key, reverse=False, limit=10", ", *, strict, pad=0", ", *, lo=1, hi, step=2"])
        out.append(f"def f{k}(a, b=1, c=2, xs=(1, 2, 3), name='abc', opts={{}}{kwonly}):")
        out += block(4)
        out.append(f"    return {expr()}")
        out.append("")
    # module-level loop: `break` -> `return` (BreakContinueReplacement) is rejected by the compiler there
    if rng.random() < 0.6:
        out += [f"for _i in range({rng.choice([2, 3])}):", f"    if _i == {rng.choice([0, 1])}:", f"        {rng.choice(['break', 'continue', 'break'])}",
                f"    LEVEL = _i + {nums()}", ""]
    if not classes:
        return "\n".join(out) + "\n"
    # classes for the inheritance operators
    out += ["class Base:", "    kind = 1", "    tag, mark = 'b', 0", "", "    def __init__(self, x=1):", "        self.x = x", "",
            "    def value(self, a=1, b=2, c=3):", f"        return {expr()}", "",
            "    def other(self):", "        return self.x", ""]
    for k in range(rng.choice([1, 2])):
        loop = ["    for _j in (1, 2):", "        if _j > 1:", f"            {rng.choice(['break', 'continue'])}", "        rank = _j", ""] if rng.random() < 0.5 else []
        out += [f"class Child{k}(Base):", f"    kind = {nums()}", "    tag, mark = 'c', 1", ""] + loop + [
                "    def __init__(self, x=2):"]
        body = ["        super().__init__(x)", f"        self.y = {nums()}", "        self.z = self.y"]
        if rng.random() < 0.4:
            body = body[1:] + body[:1]
        out += body + ["", "    def value(self, a=1, b=2, c=3):"]
        if rng.random() < 0.5:
            out += ["        base = super().value(a, b, c)", f"        return {expr()}", ""]
        else:
            out += block(8) + [f"        return {expr()}", ""]
        if rng.random() < 0.5:
            out += ["    @property", "    def prop(self):", "        return self.x", ""]
    return "\n".join(out) + "\n"


# ---------------------------------------------------------------------------------------------
class Abstraction:
    """AST -> rose tree (label, [children]); labels are integers from a per-module table of
    (class name, scalar fields, field shapes)."""

    def __init__(self):
        self.table: dict = {}

    def label(self, key):
        return self.table.setdefault(key, len(self.table))

    def tree(self, node, paths=None, path=()):
        shape, kids = [], []
        if paths is not None:
            paths[id(node)] = path
        for name, val in ast.iter_fields(node):
            if isinstance(val, list):
                n = 0
                for v in val:
                    if isinstance(v, ast.AST):
                        kids.append(self.tree(v, paths, path + (len(kids),)))
                        n += 1
                    elif v is None:
                        # a None placeholder (arguments.kw_defaults, Dict.keys) occupies a real list slot
                        kids.append((self.label(("<placeholder>",)), []))
                        n += 1
                    else:
                        shape.append((name, "s", repr(v)))
                shape.append((name, "L", n))
            elif isinstance(val, ast.AST):
                kids.append(self.tree(val, paths, path + (len(kids),)))
                shape.append((name, "N"))
            else:
                shape.append((name, "S", repr(val)))
        return (self.label((type(node).__name__, tuple(shape))), kids)


def size(t):
    return 1 + sum(size(c) for c in t[1])


def diff_sites(a, b, path=()):
    """Minimal positions at which two rose trees differ."""
    if a[0] != b[0] or len(a[1]) != len(b[1]):
        return [path]
    res = []
    for i, (x, y) in enumerate(zip(a[1], b[1])):
        if x is not y:
            res += diff_sites(x, y, path + (i,))
    return res


def subtree(t, path):
    for i in path:
        t = t[1][i]
    return t


def write(t, path, r):
    """t with the subtree at path replaced by r (fresh spine, shared siblings)."""
    if not path:
        return r
    kids = list(t[1])
    kids[path[0]] = write(kids[path[0]], path[1:], r)
    return (t[0], kids)


def freeze(t):
    return (t[0], tuple(freeze(c) for c in t[1]))


def c_tree(t):
    return "(C28.Node %d [%s])" % (t[0], "; ".join(c_tree(c) for c in t[1]))


def c_path(p):
    return "[" + "; ".join("%d" % i for i in p) + "]"
