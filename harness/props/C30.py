"""C30 — test executions restore process state and are order independent: T (static proofs), K2 (random
sequences of test cases over corpus/sut/procstate_c30.py executed by the real TestCaseExecutor; outcomes
and the sampled process state after every execution replayed by the Coq model), S (direct oracle:
Pynguin's stream objects, descriptors 0..2, logging level and random stream before == after every
execution; result of every test == result of the same test executed first in a fresh executor)."""
from __future__ import annotations

import json

import vlib
from vlib import cZ, cbool, clist, cnat, cpair

from props import _c30_proc as P

SRC = ["src/pynguin/testcase/execution.py", "src/pynguin/testcase/execution_isolation.py", "src/pynguin/generator.py"]
IMPORTS = "From Verif Require Import Models.C30.\nOpen Scope Z_scope."
CFG_SEED = 1234


def c_act(a):
    if a[0] in ("OsClose", "OsFstat"):
        return f"(C30.{a[0]} {cnat(a[1])})"
    if a[0] in ("LogDisable", "Seed"):
        return f"(C30.{a[0]} {cZ(a[1])})"
    return "C30." + a[0]


def c_item(it):
    if it[0] == "PynDraw":
        return "C30.PynDraw"
    if it[0] == "ExecTimeout":
        _code, t1, t2 = P.timeout_call(*it[1])
        return f"(C30.ExecTimeout {clist(c_act(a) for a in t1)} {clist(c_act(a) for a in t2)})"
    return f"(C30.Exec {clist(c_act(a) for a in it[1])})"


def c_sref(r):
    return f"(C30.Other {cbool(r[1])})" if r[0] == "Other" else "C30." + r[0]


def c_rng(r):
    return cpair(cZ(r[0]), cnat(r[1]))


def c_proc(o):
    return ("{| C30.s_out := %s; C30.s_err := %s; C30.s_in := %s; C30.nullw_closed := %s; C30.nullr_closed := %s; "
            "C30.fd0 := %s; C30.fd1 := %s; C30.fd2 := %s; C30.logd := %s; C30.mod_rng := %s; C30.inst_rng := %s; "
            "C30.pyn_rng := %s; C30.counter := %s; C30.log_cache := %s |}") % (
        c_sref(o["s_out"]), c_sref(o["s_err"]), c_sref(o["s_in"]), cbool(o["nullw_closed"]), cbool(o["nullr_closed"]),
        cbool(o["fds"][0]), cbool(o["fds"][1]), cbool(o["fds"][2]), cZ(o["logd"]), c_rng(o["mod_rng"]),
        c_rng(o["inst_rng"]), c_rng(o["pyn_rng"]), cZ(o["counter"]),
        "None" if o["log_cache"] is None else f"(Some {cbool(o['log_cache'])})")


def c_out(o):
    return "C30.Done" if o[0] == "Done" else f"(C30.Exc C30.{o[1]})"


def c_env(low):
    tbl = clist(cpair(cZ(x), clist(cbool(b) for b in low[x])) for x in sorted(low))
    return "{| C30.cfg_seed := %s; C30.table := %s |}" % (cZ(CFG_SEED), tbl)


def modelable(rec) -> bool:
    for _it, outs, _o in rec["steps"]:
        if any(o[0] == "Exc" and o[1].startswith("E_") for o in outs):
            return False
    return True


def c_case(env, rec):
    steps = clist(cpair(c_item(it), cpair(clist(c_out(o) for o in outs), c_proc(obs))) for it, outs, obs in rec["steps"])
    return cpair(env, cpair(c_proc(rec["init"]), steps))


def _norm(seq):
    items = []
    for it in seq["items"]:
        if it[0] == "PynDraw":
            items.append(("PynDraw",))
        elif it[0] == "ExecTimeout":
            items.append(("ExecTimeout", list(it[1])))
        else:
            items.append(("Exec", [tuple(a) for a in it[1]]))
    return {**seq, "items": items}


def _json(seq):
    return {**seq, "items": [[it[0]] if it[0] == "PynDraw" else ["ExecTimeout", list(it[1])] if it[0] == "ExecTimeout"
                             else ["Exec", [list(a) for a in it[1]]] for it in seq["items"]]}


def shrink(sess, seq, fails):
    items = list(seq["items"])
    changed = True
    while changed:
        changed = False
        for i in range(len(items)):
            cand = items[:i] + items[i + 1:]
            if fails({**seq, "items": cand}):
                items, changed = cand, True
                break
        if changed:
            continue
        for i, it in enumerate(items):
            if it[0] != "Exec":
                continue
            for j in range(len(it[1])):
                cand = items[:i] + [("Exec", it[1][:j] + it[1][j + 1:])] + items[i + 1:]
                if cand[i][1] and fails({**seq, "items": cand}):
                    items, changed = cand, True
                    break
            if changed:
                break
    return {**seq, "items": items}


def run(ctx: vlib.Ctx):
    vlib.setup_impl_path()
    ctx.digest_sources(SRC)
    ctx.coq_static()
    if not ctx.quick:
        ctx.coqchk()
    n_seq = 250 if ctx.quick else 3000
    corpus = json.loads((vlib.VERIF / "corpus" / "C30.json").read_text())
    seqs = [_norm(c) for c in corpus]
    for _ in range(n_seq):
        s = P.gen_sequence(ctx.rng)
        if ctx.rng.random() < 0.12:
            s["custom_out"] = True
        if ctx.rng.random() < 0.08:
            s["custom_err"] = True
        seqs.append(s)
    # real executions that run into the executor's time-out (about 2.5 s each)
    for k in range(len(P.TIMEOUT_KINDS) * (1 if ctx.quick else 3)):
        seqs.append(P.gen_timeout_sequence(ctx.rng, P.TIMEOUT_KINDS[k % len(P.TIMEOUT_KINDS)]))
    recs = []
    fails = []  # (signature, message, shrunk sequence)
    with P.Session(ctx.mkscratch(), CFG_SEED) as sess:
        env = c_env(sess.low)
        for seq in seqs:
            rec = sess.run_sequence(seq)
            if rec is None:  # a time-out under load: try once more, otherwise inconclusive
                rec = sess.run_sequence(seq)
            recs.append(rec)
        # S part 2: order independence against a reference execution in a fresh executor
        refs = {}

        def reference(acts, logd, fsiso=False):
            key = (tuple(acts), logd, fsiso)
            if key not in refs:
                sess.new_executor()
                sess.reset({"logd": logd, "fsiso": fsiso, "items": []})  # cold logger cache
                refs[key] = sess.execute(list(acts))
            return refs[key]

        order_viol = []
        for si, (seq, rec) in enumerate(zip(seqs, recs)):
            if rec is None:
                continue
            for k, (it, outs, _obs) in enumerate(rec["steps"]):
                if it[0] != "Exec" or P.reads_hidden(it[1]):
                    continue
                ref = reference(it[1], seq.get("logd", 0), seq.get("fsiso", False))
                if ref is not None and ref != outs and outs != [("Exc", "E_no_result")]:
                    j = next((i for i in range(min(len(ref), len(outs))) if ref[i] != outs[i]), min(len(ref), len(outs)) - 1)
                    order_viol.append((si, k, f"order:{it[1][j][0]}",
                                       f"test {[P.code_of(a) for a in it[1]]} gives {outs} after {k} earlier items but {ref} when executed first"))
                    break
        sess.new_executor()
        # report + shrink
        seen = set()
        n_or = 0
        for si, (seq, rec) in enumerate(zip(seqs, recs)):
            cands = [] if rec is None else [(s, m, k) for s, m, k in rec["oracle"]]
            cands += [(s, m, k) for (i, k, s, m) in order_viol if i == si]
            for sig, msg, k in cands:
                n_or += 1
                if sig in seen:
                    continue
                seen.add(sig)

                def still(s2, sig=sig):
                    r2 = sess.run_sequence(s2)
                    if r2 is None:
                        return False
                    if sig.startswith("order:"):
                        for it, outs, _o in r2["steps"]:
                            if it[0] == "Exec" and not P.reads_hidden(it[1]):
                                ref = reference(it[1], s2.get("logd", 0), s2.get("fsiso", False))
                                if ref is not None and ref != outs:
                                    return True
                        return False
                    return any(s == sig for s, _m, _k in r2["oracle"])
                small = shrink(sess, {**seq, "items": seq["items"][:k + 1]}, still)
                fails.append((sig, msg, small))
        timeouts = sess.timeouts
    for sig, msg, small in fails:
        ctx.fail(sig, msg, _json(small))
    ctx.leg("S", oracle_failures=n_or, sequences=len(seqs), inconclusive_timeouts=timeouts)
    for seq, rec in zip(seqs, recs):
        if rec is None:
            ctx.count("inconclusive:timeout")
            continue
        ctx.case_seen(_json(seq), nontrivial=any(it[0] == "Exec" for it in seq["items"]))
        ctx.count("streams:" + ("custom" if seq.get("custom_out") or seq.get("custom_err") else "std"))
        ctx.count("filesystem_isolation:" + ("on" if seq.get("fsiso") else "off"))
        for it, outs, _o in rec["steps"]:
            if it[0] == "PynDraw":
                ctx.count("item:PynDraw")
                continue
            if it[0] == "ExecTimeout":
                ctx.count("item:ExecTimeout:" + it[1][0])
                continue
            ctx.count("item:Exec")
            for a in it[1][:len(outs)]:
                ctx.count("act:" + a[0])
            ctx.count("outcome:" + (outs[-1][1] if outs and outs[-1][0] == "Exc" else "all-done"))
    k0 = len(corpus)
    if recs[k0] is not None:
        ctx.sample({"sequence": _json(seqs[k0]), "outcomes": [o for _i, o, _s in recs[k0]["steps"]], "state_after": recs[k0]["steps"][-1][2]})
    ctx.cov["rule"] = ("random sequences of 2..8 items (test cases of 1..5 calls that print, close/replace sys.stdout/stderr/stdin, "
                       "close descriptors 0..2, call logging.disable, reseed/consume the module-level and an instance generator, "
                       "raise, mutate/read a module global; or a draw from Pynguin's own generator) from initial states with "
                       "standard or replaced streams and logging levels 0/10/30/50, plus the minimised-failure corpus; "
                       "non-trivial = at least one executed test; distinct = distinct sequences")
    if len([r for r in recs if r is None]) > len(recs) // 4:
        ctx.broken("harness:timeouts", "more than a quarter of the sequences timed out (machine overloaded?)", {"timeouts": timeouts})
    # K2
    usable = [i for i, r in enumerate(recs) if r is not None and modelable(r)]
    unmod = [i for i, r in enumerate(recs) if r is not None and not modelable(r)]
    bad = ctx.run_cases("C30_cases", IMPORTS, "C30.case", "C30.check_case", [c_case(env, recs[i]) for i in usable], shard=80)
    if bad is None:
        pass
    elif bad or unmod:
        ctx.leg("K2", ok=False, mismatches=len(bad), unmodelable=len(unmod))
        if not [f for f in ctx.failures if f.kind == "input" and vlib.match_finding(vlib.load_findings("C30"), f.signature) is None]:
            i = usable[bad[0]] if bad else unmod[0]
            ctx.broken("correspondence:C30-model-vs-executor",
                       "the process-state model (about which the theorems are proved) no longer reproduces the executor's bracket",
                       {"sequence": _json(seqs[i]), "implementation": [[repr(it), o, obs] for it, o, obs in recs[i]["steps"]],
                        "mismatching_sequences": len(bad)})
    else:
        ctx.leg("K2", ok=True, sequences=len(usable))
    ctx.assumptions += [
        "the code under test reaches the process only through the modelled actions (no threads surviving a time-out, no descriptors other than 0..2, no access to sys.__stdout__/__stderr__/__stdin__, no C-level state)",
        "random generators are abstracted to (seed, number of draws); the draw table is measured from CPython's random",
        "module globals of the module under test are hidden state: order independence is claimed only for tests that do not read them",
    ]
    ctx.cov["trusted_base"] += ["hand-written model Models/C30.v tied by step-wise correspondence (this run)",
                                "harness/props/C30.py, _c30_proc.py (generator, state sampling, canonicalisation, oracle), corpus/sut/procstate_c30.py"]


def replay(ctx, path):
    vlib.setup_impl_path()
    d = json.loads(open(path).read())["replay"]
    if "sequence" in d:
        d = d["sequence"]
    seq = _norm(d)
    with P.Session(ctx.mkscratch(), CFG_SEED) as sess:
        env = c_env(sess.low)
        rec = sess.run_sequence(seq)
    if rec is None:
        print("timed out")
        import shutil

        shutil.rmtree(ctx.scratch, ignore_errors=True)
        return 1
    print("initial state:", rec["init"])
    for it, outs, obs in rec["steps"]:
        print(" ", it, "->", outs, "|", obs)
    print("oracle:", rec["oracle"])
    print("model agrees:", ctx.coq_eval(IMPORTS, "C30.check_case " + c_case(env, rec)))
    import shutil

    shutil.rmtree(ctx.scratch, ignore_errors=True)
    return 0
