"""C31 — in-process vs. subprocess execution of the same test cases, in a process of its own.

usage: _c31_diff.py '<json>'  with {"dir", "module", "seed", "n", "len"}    prints RESULT <json>

For a small deterministic module: test cases are produced by the real TestFactory; each is executed by
a TestCaseExecutor and by a SubprocessTestCaseExecutor sharing the same SubjectProperties, first with a
RemoteAssertionTraceObserver attached (pass 1), then — after the assertions of the in-process trace were
added to the statements — with a RemoteAssertionVerificationObserver (pass 2).  Additionally, batches
(execute_multiple) containing test cases that kill or hang their subprocess are run to observe the
orchestration (result shape, order, fallback).
"""
from __future__ import annotations

import importlib
import json
import os
import re
import sys
import time
from pathlib import Path

MODULES = {
    "numeric": '''
def sign(x: int) -> int:
    if x < 0:
        return -1
    if x == 0:
        return 0
    return 1

def clamp(x: int, lo: int, hi: int) -> int:
    if lo > hi:
        raise ValueError("empty range")
    if x < lo:
        return lo
    if x > hi:
        return hi
    return x

def ratio(a: int, b: int) -> float:
    return a / b
''',
    "strings": '''
def shout(s: str) -> str:
    if not s:
        return "!"
    if s.isupper():
        return s
    return s.upper() + "!"

def pick(s: str, i: int) -> str:
    return s[i]

def words(s: str) -> list[str]:
    out = []
    for w in s.split():
        if len(w) > 2:
            out.append(w)
    return out
''',
    "stateful": '''
class Counter:
    def __init__(self, start: int = 0):
        self.value = start
        self.history = []

    def bump(self, by: int) -> int:
        if by < 0:
            raise ValueError("negative")
        self.value += by
        self.history.append(by)
        return self.value

    def reset(self) -> None:
        if self.history:
            self.history.clear()
        self.value = 0

    def total(self) -> int:
        t = 0
        for h in self.history:
            t += h
        return t

def make(n: int) -> Counter:
    c = Counter()
    if n > 0:
        c.bump(n)
    return c
''',
    "containers": '''
def pairs(n: int) -> dict[int, str]:
    d = {}
    i = 0
    while i < n and i < 5:
        d[i] = str(i)
        i += 1
    return d

def uniq(xs: list[int]) -> set[int]:
    s = set()
    for x in xs:
        if x not in s:
            s.add(x)
    return s

def first(xs: list[int]) -> int:
    if not xs:
        raise IndexError("empty")
    return xs[0]

def maker(k: int):
    if k > 2:
        return lambda y: y + k
    return None
''',
}

# module for the orchestration batches: a function that kills its process, one that hangs, one fine
CRASH_MODULE = '''
import os

def fine(x: int) -> int:
    if x > 2:
        return x * 2
    return x

def die(x: int) -> int:
    os._exit(11)

def hang(x: int) -> int:
    while True:
        x += 1
        if x < 0:
            break
    return x
'''


# module for the time-limit tie: a call that is slow but well inside its budget
SLOW_MODULE = '''
import time

def fast(x: int) -> int:
    if x > 2:
        return x + 1
    return x

def slow(t: float) -> int:
    time.sleep(t)
    if t > 1:
        return 1
    return 0
'''


# results whose pickling runs instrumented code of the module under test, and results larger than a pipe buffer
PICKLING_MODULE = '''
class Boom(Exception):
    def __init__(self, code):
        super().__init__(code)
        self.code = code

    def __reduce__(self):
        if self.code > 1:
            return (Boom, (self.code,))
        return (Boom, (0,))

def fine(x: int) -> int:
    if x > 2:
        return x + 1
    return x

def explode(x: int) -> int:
    if x > 0:
        raise Boom(x)
    return x

def big_error(n: int) -> int:
    if n > 10:
        raise ValueError("x" * n)
    return n

def nan_val(x: float) -> float:
    big = x * 1e308 * 10.0
    return big - big

def inf_val(x: float) -> float:
    if x > 0:
        return x * 1e308 * 10.0
    return -(1e308 * 10.0)

def negzero(x: int) -> float:
    return -0.0 * x

def nan_list(x: float) -> list:
    n = nan_val(x)
    return [n, 1.5, n]

def nan_dict(x: float) -> dict:
    return {"a": nan_val(x), "b": -0.0}

def nan_tuple(x: float) -> tuple:
    return (nan_val(x), inf_val(x))

def big_value(n: int) -> str:
    if n > 10:
        return "y" * n
    return ""
'''

# module with a mutated version that is registered through ModuleProvider.add_mutated_version
MUTANT_ORIGINAL = '''
def scale(x: int) -> int:
    if x > 2:
        return x * 2
    return x

def label(x: int) -> str:
    if x % 2 == 0:
        return "even"
    return "odd"
'''
MUTANT_MUTATED = '''
def scale(x: int) -> int:
    if x > 2:
        raise ValueError("mutant")
    return x + 1

def label(x: int) -> str:
    if x % 2 == 0:
        return "EVEN"
    return "odd"
'''


def canon_assertion(a) -> str:
    d = {k: v for k, v in vars(a).items()}
    txt = type(a).__name__ + ":" + ";".join(f"{k}={d[k]!r}" for k in sorted(d))
    return re.sub(r"0x[0-9a-fA-F]+", "0x", txt)


def canon(result, sp) -> dict:
    tr = result.execution_trace
    at = result.assertion_trace.trace
    vt = result.assertion_verification_trace
    return {
        "timeout": bool(result.timeout),
        "exceptions": sorted([int(k), type(v).__name__] for k, v in result.exceptions.items()),
        "lines": sorted(int(x) for x in tr.covered_line_ids),
        "code_objects": sorted(int(x) for x in tr.executed_code_objects),
        "true_zero": sorted(int(k) for k, v in tr.true_distances.items() if v == 0.0),
        "false_zero": sorted(int(k) for k, v in tr.false_distances.items() if v == 0.0),
        "predicates": sorted(int(k) for k in tr.executed_predicates),
        "assertions": sorted([int(p), sorted(canon_assertion(a) for a in s)] for p, s in at.items() if s),
        "verification": {"failed": sorted([int(p), sorted(int(i) for i in s)] for p, s in vt.failed.items() if s),
                         "error": sorted([int(p), sorted(int(i) for i in s)] for p, s in vt.error.items() if s)},
    }


def main() -> None:  # noqa: PLR0915
    sc = json.loads(sys.argv[1])
    base = Path(sc["dir"])
    base.mkdir(parents=True, exist_ok=True)
    name = "c31sut_" + sc["module"]
    src = {"crash": CRASH_MODULE, "slow": SLOW_MODULE, "mutant": MUTANT_ORIGINAL,
           "pickling": PICKLING_MODULE}.get(sc["module"]) or MODULES[sc["module"]]
    (base / f"{name}.py").write_text(src)
    os.environ["PYNGUIN_DANGER_AWARE"] = "1"
    import logging

    logging.disable(logging.CRITICAL)
    import libcst as cst

    import pynguin.assertion.assertiontraceobserver as ato
    import pynguin.configuration as config
    from pynguin.analyses.module import generate_test_cluster
    from pynguin.instrumentation.machinery import install_import_hook
    from pynguin.instrumentation.tracer import SubjectProperties
    from pynguin.testcase.execution import TestCaseExecutor
    from pynguin.testcase.subprocess_executor import SubprocessTestCaseExecutor
    from pynguin.testcase.testcase import Statement, TestCase
    from pynguin.testcase.testfactory import TestFactory
    from pynguin.utils import randomness

    config.configuration.module_name = name
    config.configuration.project_path = str(base)
    config.configuration.statistics_output.coverage_metrics = [config.CoverageMetric.BRANCH,
                                                               config.CoverageMetric.LINE]
    sys.path.insert(0, str(base))
    sp = SubjectProperties()
    install_import_hook(name, sp)
    with sp.instrumentation_tracer:
        importlib.import_module(name)
    max_t = sc.get("max_timeout", 5)
    per_t = sc.get("per_stmt", max_t)

    # record the two limits of every TestCaseExecutor that is built in a CHILD process (fork keeps the wrapper)
    parent_pid = os.getpid()
    limits_file = base / "child_limits.jsonl"
    real_init = TestCaseExecutor.__init__

    def recording_init(self, *a, **k):
        real_init(self, *a, **k)
        if os.getpid() != parent_pid:
            with limits_file.open("a") as f:
                f.write(json.dumps([self._maximum_test_execution_timeout,
                                    self._test_execution_time_per_statement]) + "\n")

    TestCaseExecutor.__init__ = recording_init
    inproc = TestCaseExecutor(sp, maximum_test_execution_timeout=max_t, test_execution_time_per_statement=per_t)
    sub = SubprocessTestCaseExecutor(sp, maximum_test_execution_timeout=max_t,
                                     test_execution_time_per_statement=per_t)
    out: dict = {"module": sc["module"], "cases": [], "batches": []}

    def tc(lines):
        t = TestCase()
        for i, ln in enumerate(lines):
            t.add_statement(Statement(node=cst.parse_statement(ln), bound_variable=f"var_{i}"))
        return t

    if sc["module"] == "pickling":
        progs = [["var_0 = 1", "var_1 = fine(var_0)", "var_2 = explode(3)"],       # SUT __reduce__ runs while pickling
                 ["var_0 = explode(1)"],
                 ["var_0 = fine(5)", "var_1 = big_error(2000000)"],                  # 2 MB exception message
                 ["var_0 = big_value(1500000)", "var_1 = fine(1)"],                  # 1.5 MB value for the assertion observer
                 # float corner values observed by the assertion observer: NaN (!= itself), inf, -0.0, containers
                 ["var_0 = nan_val(2.0)", "var_1 = fine(1)"],
                 ["var_0 = inf_val(1.0)", "var_1 = inf_val(-1.0)", "var_2 = negzero(3)"],
                 ["var_0 = nan_list(2.0)", "var_1 = nan_dict(2.0)", "var_2 = nan_tuple(2.0)"]]
        for p in progs:
            t = tc(p)
            for exr in (inproc, sub):
                exr.add_remote_observer(ato.RemoteAssertionTraceObserver())
            t0 = time.monotonic()
            r_in = inproc.execute(t)
            t1 = time.monotonic()
            r_sub = sub.execute(t)
            wall = [round(t1 - t0, 2), round(time.monotonic() - t1, 2)]
            for exr in (inproc, sub):
                exr.clear_remote_observers()
            a, b = canon(r_in, sp), canon(r_sub, sp)
            for c in (a, b):       # huge values: keep the comparison, not the megabytes
                c["assertions"] = [[pos, [x if len(x) < 300 else f"{x[:80]}...len={len(x)}" for x in xs]]
                                   for pos, xs in c["assertions"]]
            out["cases"].append({"code": t.to_code()[:300], "size": t.size(), "n_assertions": 0, "wall": wall,
                                 "pass1": {"inproc": a, "subproc": b}})
        print("RESULT " + json.dumps(out), flush=True)
        os._exit(0)

    if sc["module"] == "mutant":
        import types

        def fresh(cls):
            exr = cls(sp, maximum_test_execution_timeout=max_t, test_execution_time_per_statement=per_t)
            mutated = types.ModuleType(name)
            exec(compile(MUTANT_MUTATED, name + "_mutant.py", "exec"), mutated.__dict__)  # noqa: S102
            exr.module_provider.add_mutated_version(name, mutated)
            exr.add_remote_observer(ato.RemoteAssertionTraceObserver())
            return exr

        progs = [["var_0 = scale(5)"], ["var_0 = scale(1)", "var_1 = scale(var_0)", "var_2 = label(var_1)"],
                 ["var_0 = label(4)", "var_1 = scale(2)", "var_2 = scale(var_1)"]]
        # (a) a fresh executor per call, the test case handed over as a one-shot iterator
        for p in progs:
            t = tc(p)
            r_in = list(fresh(TestCaseExecutor).execute_multiple(iter([t])))[0]
            r_sub = list(fresh(SubprocessTestCaseExecutor).execute_multiple(iter([t])))[0]
            out["cases"].append({"code": t.to_code(), "size": t.size(), "n_assertions": 0, "mutant": True,
                                 "pass1": {"inproc": canon(r_in, sp), "subproc": canon(r_sub, sp)}})
        # (b) the mutated version is registered once, the same executor is used three times
        rep = {}
        for key, cls in (("inproc", TestCaseExecutor), ("subproc", SubprocessTestCaseExecutor)):
            exr = fresh(cls)
            rep[key] = [canon(list(exr.execute_multiple([tc(progs[0])]))[0], sp) for _ in range(3)]
        out["repeat"] = rep
        print("RESULT " + json.dumps(out), flush=True)
        os._exit(0)

    if sc["module"] == "slow":
        nap = sc["nap"]
        # only test cases of >= 4 statements: with per_stmt = 5 s a shorter one would have a budget that a
        # loaded machine can exhaust by process start-up alone
        progs = [["var_0 = 5", "var_1 = fast(var_0)", "var_2 = 1", "var_3 = fast(var_2)"],
                 ["var_0 = 4", "var_1 = fast(var_0)", "var_2 = 2", "var_3 = fast(var_2)", f"var_4 = slow({nap})",
                  "var_5 = fast(var_4)"]]
        tests = [tc(p) for p in progs]
        for t in tests:
            rec = {"code": t.to_code(), "size": t.size(), "n_assertions": 0}
            for exr in (inproc, sub):
                exr.add_remote_observer(ato.RemoteAssertionTraceObserver())
            t0 = time.monotonic()
            r_in = inproc.execute(t)
            t1 = time.monotonic()
            r_sub = sub.execute(t)
            rec["wall"] = [round(t1 - t0, 2), round(time.monotonic() - t1, 2)]
            for exr in (inproc, sub):
                exr.clear_remote_observers()
            rec["pass1"] = {"inproc": canon(r_in, sp), "subproc": canon(r_sub, sp)}
            out["cases"].append(rec)
        child = []
        if limits_file.exists():
            child = [json.loads(ln) for ln in limits_file.read_text().splitlines() if ln]
        out["limits"] = {"parent": [sub._maximum_test_execution_timeout, sub._test_execution_time_per_statement],
                         "child": child, "sizes": [t.size() for t in tests],
                         "budgets": [sub._calculate_timeout(t) for t in tests],
                         "batch_budget": sub._calculate_timeout_for_multiple(tuple(tests))}
        print("RESULT " + json.dumps(out), flush=True)
        os._exit(0)

    if sc["module"] != "crash":
        with sp.instrumentation_tracer.temporarily_disable():
            cluster = generate_test_cluster(name)
        factory = TestFactory(cluster)
        randomness.RNG.seed(sc["seed"])
        tests = []
        for _ in range(sc["n"]):
            t = TestCase()
            for _ in range(sc["len"]):
                try:
                    factory.insert_random_statement(t, t.size())
                except Exception:  # noqa: BLE001 - construction failures are not the subject here
                    break
            if t.size() > 0:
                tests.append(t)
        for t in tests:
            rec = {"code": t.to_code(), "size": t.size()}
            # pass 1: assertion traces
            for exr in (inproc, sub):
                exr.add_remote_observer(ato.RemoteAssertionTraceObserver())
            r_in = inproc.execute(t)
            r_sub = sub.execute(t)
            for exr in (inproc, sub):
                exr.clear_remote_observers()
            rec["pass1"] = {"inproc": canon(r_in, sp), "subproc": canon(r_sub, sp)}
            # add the in-process assertions, as AssertionGenerator._add_assertions_for does
            for pos, st in enumerate(t.statements()):
                for a in r_in.assertion_trace.get_assertions(pos):
                    st.assertions.append(a)
            rec["n_assertions"] = sum(len(st.assertions) for st in t.statements())
            # make one assertion wrong so that the verification traces are not trivially empty
            rec["falsified"] = None
            for pos, st in enumerate(t.statements()):
                for i, a in enumerate(st.assertions):
                    val = getattr(a, "_object", None)
                    if type(a).__name__ == "ObjectAssertion" and type(val) in (int, str):
                        wrong = val + 1 if type(val) is int else val + "?"
                        st.assertions[i] = type(a)(a._source, wrong)
                        rec["falsified"] = [pos, i]
                        break
                if rec["falsified"]:
                    break
            # pass 2: assertion verification
            for exr in (inproc, sub):
                exr.add_remote_observer(ato.RemoteAssertionVerificationObserver())
            r_in2 = inproc.execute(t)
            r_sub2 = sub.execute(t)
            for exr in (inproc, sub):
                exr.clear_remote_observers()
            rec["pass2"] = {"inproc": canon(r_in2, sp), "subproc": canon(r_sub2, sp)}
            out["cases"].append(rec)
        # one batch through execute_multiple (no crash): must equal the single in-process results
        if tests:
            sub.add_remote_observer(ato.RemoteAssertionVerificationObserver())
            inproc.add_remote_observer(ato.RemoteAssertionVerificationObserver())
            rs = list(sub.execute_multiple(tests))
            ri = [inproc.execute(t) for t in tests]
            out["batch_all"] = {"subproc": [canon(r, sp) for r in rs], "inproc": [canon(r, sp) for r in ri]}
            # the search hands execute_multiple one-shot iterators (generator expressions): 1, 2 and all tests
            out["iter_batches"] = []
            for k in sorted({1, min(2, len(tests)), len(tests)}):
                rk = list(sub.execute_multiple(t for t in tests[:k]))
                out["iter_batches"].append({"k": k, "subproc": [canon(r, sp) for r in rk],
                                            "inproc": [canon(r, sp) for r in ri[:k]]})
    else:
        kinds = {"fine": ["var_0 = fine(%d)"], "fine2": ["var_0 = fine(%d)", "var_1 = fine(var_0)"],
                 "die": ["var_0 = die(%d)"], "hang": ["var_0 = hang(%d)"]}
        # observers attached: a failed batch is re-run test by test, and those runs must observe as well
        inproc.add_remote_observer(ato.RemoteAssertionTraceObserver())
        sub.add_remote_observer(ato.RemoteAssertionTraceObserver())
        for pattern in sc["patterns"]:
            tests, refs = [], []
            for i, k in enumerate(pattern):
                t = tc([ln % (i + 1) if "%d" in ln else ln for ln in kinds[k]])
                tests.append(t)
                refs.append(canon(inproc.execute(t), sp) if k.startswith("fine") else None)
            t0 = time.monotonic()
            rs = list(sub.execute_multiple(tests))
            out["batches"].append({"pattern": pattern, "wall": round(time.monotonic() - t0, 2),
                                   "subproc": [canon(r, sp) for r in rs], "inproc": refs})
    if sc["module"] != "crash":     # killed children may not have reached the executor's construction
        child = []
        if limits_file.exists():
            child = [json.loads(ln) for ln in limits_file.read_text().splitlines() if ln]
        out["limits"] = {"parent": [sub._maximum_test_execution_timeout, sub._test_execution_time_per_statement],
                         "child": child, "sizes": [t.size() for t in tests],
                         "budgets": [sub._calculate_timeout(t) for t in tests]}
    print("RESULT " + json.dumps(out), flush=True)
    os._exit(0)


if __name__ == "__main__":
    main()
