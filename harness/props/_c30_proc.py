"""C30 helper: drives the real TestCaseExecutor over the purpose-built module corpus/sut/procstate_c30.py
and samples the process-global state around every execution.

The harness never lets the code under test near the real streams of the check process: for the whole
session sys.stdout/stderr/stdin AND sys.__stdout__/__stderr__/__stdin__ are replaced by dummy objects,
descriptors 0..2 are saved with os.dup, and everything (streams, descriptors, logging level, both
random generators, the random.Random.seed patch, the configuration) is put back in a `finally`.
"""
from __future__ import annotations

import contextlib
import importlib
import io
import logging
import os
import random
import shutil
import sys
import threading
import time
from pathlib import Path

CODE = {
    "Print": "do_print()", "PrintErr": "do_print_err()", "CloseOut": "close_out()", "CloseErr": "close_err()",
    "CloseIn": "close_in()", "SetOut": "set_out()", "ReadIn": "read_in()", "LogCheck": "log_check()",
    "LogEmit": "log_emit()",
    "SeedNone": "seed_none()", "Draw": "draw()", "DrawInst": "draw_inst()", "Raise": "do_raise()", "Bump": "bump()",
    "ReadCounter": "read_counter()",
}
EXN = {"ValueError": "EValue", "OSError": "EOS", "RuntimeError": "ERuntime", "KeyError": "EKey"}
SEEDS = [1, 2, 3]
NDRAWS = 40
PYN_SEED = 99
MODULE = "procstate_c30"
# Time-out executions: one statement => the first join expires after 1 s, the grace join 5 s later; the
# code under test acts at 0 s and/or after DELAY = 2.5 s (1.5 s after the first expiry, 3.5 s before the
# end of the grace join).
T_PER_STATEMENT, T_MAX, DELAY = 1, 5, 2.5


def timeout_call(kind, *a):
    """(source of the single statement, actions before the first join expires, actions during the grace join)"""
    d = DELAY
    table = {
        "log_late": (f"t_log_late({d}, {a[0] if a else 50})", [], [("LogDisable", a[0] if a else 50)]),
        "log_early": (f"t_log_early({a[0] if a else 50}, {d})", [("LogDisable", a[0] if a else 50)], []),
        "log_both": (f"t_log_both({a[0] if a else 20}, {d}, {a[1] if len(a) > 1 else 50})",
                     [("LogDisable", a[0] if a else 20)], [("LogDisable", a[1] if len(a) > 1 else 50)]),
        "log_emit_late": (f"t_log_emit_late({d}, {a[0] if a else 50})", [], [("LogDisable", a[0] if a else 50), ("LogEmit",)]),
        "close_out_late": (f"t_close_out_late({d})", [], [("CloseOut",)]),
        "close_err_early": (f"t_close_err_early({d})", [("CloseErr",)], []),
        "set_out_late": (f"t_set_out_late({d})", [], [("SetOut",)]),
        "close_in_late": (f"t_close_in_late({d})", [], [("CloseIn",)]),
        "os_close_late": (f"t_os_close_late({d}, {a[0] if a else 1})", [], [("OsClose", a[0] if a else 1)]),
        "os_close_early": (f"t_os_close_early({a[0] if a else 2}, {d})", [("OsClose", a[0] if a else 2)], []),
        "seed_late": (f"t_seed_late({d}, {a[0] if a else 3})", [], [("Seed", a[0] if a else 3)]),
        "mixed": (f"t_mixed(40, 2, {d}, 1, 50)", [("LogDisable", 40), ("Seed", 2)],
                  [("OsClose", 1), ("CloseOut",), ("LogDisable", 50)]),
    }
    return table[kind]


TIMEOUT_KINDS = ["log_late", "log_early", "log_both", "log_emit_late", "close_out_late", "close_err_early", "set_out_late",
                 "close_in_late", "os_close_late", "os_close_early", "seed_late", "mixed"]


def code_of(a) -> str:
    if a[0] in ("OsClose", "OsFstat"):
        return f"{'os_close' if a[0] == 'OsClose' else 'os_fstat'}({int(a[1])})"
    if a[0] == "LogDisable":
        return f"log_disable({int(a[1])})"
    if a[0] == "Seed":
        return f"seed({int(a[1])})"
    return CODE[a[0]]


class Session:
    """Owns the executor and the saved process state.  Use as a context manager."""

    def __init__(self, scratch: Path, cfg_seed: int):
        self.scratch = Path(scratch)
        self.cfg_seed = cfg_seed
        self.timeouts = 0

    # -- set-up / tear-down -----------------------------------------------------------------
    def __enter__(self):
        import vlib

        self._stack = contextlib.ExitStack()
        self._saved_fds = [os.dup(i) for i in range(3)]
        self._saved_streams = (sys.stdout, sys.stderr, sys.stdin, sys.__stdout__, sys.__stderr__, sys.__stdin__)
        self._saved_logd = logging.root.manager.disable
        self._saved_random = random.getstate()
        self._saved_seed_fn = random.Random.seed
        try:
            # tables first: instances created after _patch_random would be tracked and reseeded
            self.states, self.low = {}, {}
            for x in [self.cfg_seed, PYN_SEED] + SEEDS:
                r = random.Random(x)
                lows = []
                for k in range(NDRAWS + 1):
                    self.states[r.getstate()] = (x, k)
                    lows.append(r.random() < 0.5)
                self.low[x] = lows
                del r
            sut_dir = self.scratch / "sut"
            sut_dir.mkdir(parents=True, exist_ok=True)
            shutil.copy(vlib.VERIF / "corpus" / "sut" / "procstate_c30.py", sut_dir / f"{MODULE}.py")
            sys.path.insert(0, str(sut_dir))
            import pynguin.configuration as config
            from pynguin.generator import _patch_random
            from pynguin.instrumentation.machinery import install_import_hook
            from pynguin.instrumentation.tracer import SubjectProperties
            from pynguin.testcase.execution import TestCaseExecutor
            from pynguin.testcase.execution_isolation import OutputSuppressionContext
            from pynguin.utils import randomness

            self.config, self.OSC, self.randomness = config, OutputSuppressionContext, randomness
            self._saved_cfg = (config.configuration.module_name, config.configuration.seeding.seed)
            self._saved_fsiso = config.configuration.filesystem_isolation
            self._saved_pyn = randomness.RNG.getstate()
            config.configuration.module_name = MODULE
            config.configuration.seeding.seed = self.cfg_seed
            _patch_random()
            self.sp = SubjectProperties()
            self._stack.enter_context(install_import_hook(MODULE, self.sp))
            sys.modules.pop(MODULE, None)
            with self.sp.instrumentation_tracer:
                self.module = importlib.import_module(MODULE)
            self._Executor = TestCaseExecutor
            self.new_executor()
            # dummies for the interpreter's streams
            self.d_out, self.d_err, self.d_in = io.StringIO(), io.StringIO(), io.StringIO("")
            sys.__stdout__, sys.__stderr__, sys.__stdin__ = self.d_out, self.d_err, self.d_in
            sys.stdout, sys.stderr, sys.stdin = self.d_out, self.d_err, self.d_in
        except BaseException:
            self.__exit__(None, None, None)
            raise
        return self

    def new_executor(self):
        self.executor = self._Executor(self.sp, maximum_test_execution_timeout=120, test_execution_time_per_statement=60)
        self.timeout_executor = self._Executor(self.sp, maximum_test_execution_timeout=T_MAX,
                                               test_execution_time_per_statement=T_PER_STATEMENT)

    def __exit__(self, *exc):
        (sys.stdout, sys.stderr, sys.stdin, sys.__stdout__, sys.__stderr__, sys.__stdin__) = self._saved_streams
        for i, s in enumerate(self._saved_fds):
            with contextlib.suppress(OSError):
                os.dup2(s, i)
            with contextlib.suppress(OSError):
                os.close(s)
        logging.disable(self._saved_logd)
        random.Random.seed = self._saved_seed_fn
        random.setstate(self._saved_random)
        with contextlib.suppress(Exception):
            self.randomness.RNG.setstate(self._saved_pyn)
            self.config.configuration.module_name, self.config.configuration.seeding.seed = self._saved_cfg
            self.config.configuration.filesystem_isolation = self._saved_fsiso
        with contextlib.suppress(Exception):
            self._stack.close()
        sys.modules.pop(MODULE, None)
        with contextlib.suppress(ValueError):
            sys.path.remove(str(self.scratch / "sut"))
        return False

    # -- one sequence -----------------------------------------------------------------------
    def reset(self, seq):
        """Bring the process into the sequence's initial state."""
        OSC = self.OSC
        for i, s in enumerate(self._saved_fds):  # in case a broken bracket left a descriptor closed
            try:
                os.fstat(i)
            except OSError:
                os.dup2(s, i)
        if OSC._null_file.closed:
            OSC._null_file = open(os.devnull, "w")  # noqa: SIM115
        if getattr(OSC, "_null_input", None) is not None and OSC._null_input.closed:
            OSC._null_input = open(os.devnull)  # noqa: SIM115
        self.d_out, self.d_err, self.d_in = io.StringIO(), io.StringIO(), io.StringIO("")
        sys.__stdout__, sys.__stderr__, sys.__stdin__ = self.d_out, self.d_err, self.d_in
        sys.stdout = io.StringIO() if seq.get("custom_out") else self.d_out
        sys.stderr = io.StringIO() if seq.get("custom_err") else self.d_err
        sys.stdin = io.StringIO("") if seq.get("custom_in") else self.d_in
        logging.disable(int(seq.get("logd", 0)))
        # TestCaseExecutor wraps the execution in FilesystemIsolation() when this is set
        self.config.configuration.filesystem_isolation = bool(seq.get("fsiso", False))
        self.module.COUNTER = 0
        # (logging.disable above cleared every logger's cache); optionally start with a warm, consistent cache
        if seq.get("warm_log"):
            self.module.LOG.isEnabledFor(logging.ERROR)
        self.randomness.RNG.seed(PYN_SEED)  # also registers RNG with the tracked instances
        random.seed(2)
        self.module.R.seed(3)

    def _sref(self, obj, std, null):
        if obj is std:
            return ("Std",)
        if null is not None and obj is null:
            return ("Null",)
        return ("Other", bool(getattr(obj, "closed", False)))

    def _rng(self, state):
        return self.states.get(state, (-1, 0))

    def observe(self):
        OSC = self.OSC
        nin = getattr(OSC, "_null_input", None)
        fds = []
        for i in range(3):
            try:
                os.fstat(i)
                fds.append(True)
            except OSError:
                fds.append(False)
        return {
            "s_out": self._sref(sys.stdout, sys.__stdout__, OSC._null_file),
            "s_err": self._sref(sys.stderr, sys.__stderr__, OSC._null_file),
            "s_in": self._sref(sys.stdin, sys.__stdin__, nin),
            "nullw_closed": bool(OSC._null_file.closed),
            "nullr_closed": bool(nin.closed) if nin is not None else False,
            "fds": fds,
            "logd": int(logging.root.manager.disable),
            "mod_rng": self._rng(random.getstate()),
            "inst_rng": self._rng(self.module.R.getstate()),
            "pyn_rng": self._rng(self.randomness.RNG.getstate()),
            "counter": int(self.module.COUNTER),
            "log_cache": self.module.LOG._cache.get(logging.ERROR),  # peeked, not computed
        }

    def _pyn_snapshot(self):
        """What the property calls Pynguin's state, as real objects / values (for the oracle)."""
        fds = []
        for i in range(3):
            try:
                st = os.fstat(i)
                fds.append((st.st_dev, st.st_ino))
            except OSError:
                fds.append(None)
        return {"out": sys.stdout, "err": sys.stderr, "in": sys.stdin, "fds": fds,
                "logd": logging.root.manager.disable, "rng": self.randomness.RNG.getstate(),
                "loggers": logger_behaviour()}

    def execute(self, acts):
        import libcst as cst

        import pynguin.testcase.testcase as tc

        t = tc.TestCase()
        for a in acts:
            t.add_statement(tc.Statement(node=cst.parse_module(code_of(a) + "\n").body[0], bound_variable=None, bound_type=None))
        t0 = time.time()
        res = self.executor.execute(t)
        if res.timeout:
            if time.time() - t0 < 60:
                # not a time-out (the budget is 60 s per statement): the execution thread died without
                # delivering a result ("Finished thread did not return a result")
                return [("Exc", "E_no_result")]
            return None
        outs = []
        exc = dict(res.exceptions)
        for i in range(len(acts)):
            if i in exc:
                outs.append(("Exc", EXN.get(type(exc[i]).__name__, "E_" + type(exc[i]).__name__)))
                break
            outs.append(("Done",))
        return outs

    def execute_timeout(self, code):
        """Run a single statement that sleeps past the 1 s budget.  Returns 'timeout' (as expected),
        'no-timeout', or None when the condemned thread outlived even the grace join (overload)."""
        import libcst as cst

        import pynguin.testcase.testcase as tc

        t = tc.TestCase()
        t.add_statement(tc.Statement(node=cst.parse_module(code + "\n").body[0], bound_variable=None, bound_type=None))
        known = set(threading.enumerate())
        t0 = time.time()
        res = self.timeout_executor.execute(t)
        took = time.time() - t0
        stragglers = [th for th in threading.enumerate() if th not in known and th.is_alive()]
        if stragglers or took > T_PER_STATEMENT + T_MAX - 0.5:
            for th in stragglers:
                th.join(30)
            return None
        return "timeout" if res.timeout else "no-timeout"

    def run_sequence(self, seq):
        """Returns dict(init, steps=[(item, outcomes, observed)], oracle=[(signature, message, step)])
        or None when an execution timed out (machine overloaded): inconclusive."""
        self.reset(seq)
        init = self.observe()
        steps, viol = [], []
        for k, item in enumerate(seq["items"]):
            if item[0] == "PynDraw":
                self.randomness.RNG.random()
                steps.append((item, [], self.observe()))
                continue
            if item[0] == "ExecTimeout":
                code, _t1, _t2 = timeout_call(*item[1])
                before = self._pyn_snapshot()
                r = self.execute_timeout(code)
                if r is None:
                    self.timeouts += 1
                    self.new_executor()
                    return None
                after = self._pyn_snapshot()
                steps.append((item, [] if r == "timeout" else [("Exc", "E_no_timeout")], self.observe()))
                viol += [(s + ":after-timeout", m + " (execution that timed out)", k) for s, m in compare_snapshots(before, after)]
                continue
            before = self._pyn_snapshot()
            outs = self.execute(item[1])
            if outs is None:
                self.timeouts += 1
                self.new_executor()
                return None
            after = self._pyn_snapshot()
            steps.append((item, outs, self.observe()))
            if outs == [("Exc", "E_no_result")]:
                viol.append(("executor:no-result", f"the execution thread of {[code_of(a) for a in item[1]]} died without a result "
                             "(reported as ExecutionResult(timeout=True) although nothing timed out)", k))
            viol += [(s, m, k) for s, m in compare_snapshots(before, after)]
        return {"init": init, "steps": steps, "oracle": viol}


LEVELS = (logging.DEBUG, logging.INFO, logging.WARNING, logging.ERROR, logging.CRITICAL)


def _would_log(lg, level) -> bool:
    """What lg.isEnabledFor(level) answers, computed WITHOUT filling the logger's cache."""
    if lg.disabled:
        return False
    cached = lg._cache.get(level)
    if cached is not None:
        return cached
    if lg.manager.disable >= level:
        return False
    return level >= lg.getEffectiveLevel()


def logger_behaviour():
    """Effective behaviour of every logger that exists (root, Pynguin's, the module's, ...)."""
    res = {"root": tuple(_would_log(logging.root, lv) for lv in LEVELS)}
    for name, lg in list(logging.root.manager.loggerDict.items()):
        if isinstance(lg, logging.Logger):
            res[name] = tuple(_would_log(lg, lv) for lv in LEVELS)
    return res


def compare_snapshots(b, a):
    """S, part 1: Pynguin's streams, descriptors, logging state and random stream are as before."""
    out = []
    for key, name, dunder in (("out", "stdout", "__stdout__"), ("err", "stderr", "__stderr__"), ("in", "stdin", "__stdin__")):
        if a[key] is not b[key]:
            if a[key] is getattr(sys, dunder):
                out.append((f"streams:{name}-reset-to-dunder", f"sys.{name} was replaced by sys.{dunder} instead of the object installed before the execution"))
            else:
                out.append((f"streams:{name}-not-restored", f"sys.{name} is {type(a[key]).__name__} (not the object from before) after the execution"))
        elif getattr(a[key], "closed", False):
            out.append((f"streams:{name}-closed", f"Pynguin's sys.{name} object is closed after the execution"))
    for i in range(3):
        if b["fds"][i] is not None and a["fds"][i] is None:
            out.append((f"fds:fd{i}-closed", f"file descriptor {i} is closed after the execution"))
        elif b["fds"][i] != a["fds"][i]:
            out.append((f"fds:fd{i}-changed", f"file descriptor {i} refers to another file after the execution"))
    if a["logd"] != b["logd"]:
        out.append(("logging:disable-level-leaked", f"logging.root.manager.disable is {a['logd']} after the execution, was {b['logd']}"))
    changed = sorted(n for n in b["loggers"] if n in a["loggers"] and a["loggers"][n] != b["loggers"][n])
    if changed and a["logd"] == b["logd"]:
        kind = "pynguin" if any(n.startswith("pynguin") for n in changed) else "sut"
        out.append((f"logging:logger-behaviour-changed:{kind}",
                    f"isEnabledFor of existing logger(s) {changed[:4]} answers differently after the execution "
                    f"(e.g. {changed[0]}: {b['loggers'][changed[0]]} -> {a['loggers'][changed[0]]} for DEBUG..CRITICAL) "
                    "although logging.root.manager.disable is as before"))
    if a["rng"] != b["rng"]:
        out.append(("rng:pynguin-stream-changed", "the state of pynguin.utils.randomness.RNG changed during the execution"))
    return out


# ------------------------------------------------------------------------------------------------
def gen_act(rng):
    c = rng.random()
    if c < 0.16:
        return (rng.choice(["Print", "PrintErr", "ReadIn"]),)
    if c < 0.32:
        return (rng.choice(["CloseOut", "CloseErr", "CloseIn", "SetOut"]),)
    if c < 0.44:
        return (rng.choice(["OsClose", "OsFstat"]), rng.randrange(3))
    if c < 0.56:
        return rng.choice([("LogDisable", rng.choice([0, 20, 40, 50])), ("LogCheck",), ("LogEmit",), ("LogEmit",)])
    if c < 0.80:
        return rng.choice([("Seed", rng.choice(SEEDS)), ("SeedNone",), ("Draw",), ("Draw",), ("DrawInst",)])
    if c < 0.86:
        return ("Raise",)
    return (rng.choice(["Bump", "Bump", "ReadCounter"]),)


def gen_sequence(rng):
    items = []
    for _ in range(rng.choice([2, 3, 4, 6, 8])):
        if rng.random() < 0.15:
            items.append(("PynDraw",))
        else:
            items.append(("Exec", [gen_act(rng) for _ in range(rng.choice([1, 2, 3, 4, 5]))]))
    return {"custom_out": False, "custom_err": False, "custom_in": rng.random() < 0.3,
            "logd": rng.choice([0, 0, 10, 30, 50]), "fsiso": rng.random() < 0.3, "warm_log": rng.random() < 0.3,
            "items": items}


def gen_timeout_sequence(rng, kind=None):
    """A sequence around one execution that runs into the time-out (about 2.5 s each)."""
    pre = [("Exec", [gen_act(rng) for _ in range(rng.choice([1, 2, 3]))]) for _ in range(rng.choice([0, 1, 2]))]
    kind = kind or rng.choice(TIMEOUT_KINDS)
    post = [("Exec", [("LogCheck",), ("Print",), ("PrintErr",), ("OsFstat", 1), ("ReadIn",)]),
            ("Exec", [gen_act(rng) for _ in range(rng.choice([1, 2, 3]))])]
    return {"custom_out": False, "custom_err": False, "custom_in": rng.random() < 0.3,
            "logd": rng.choice([0, 10, 30]), "fsiso": rng.random() < 0.3, "items": pre + [("ExecTimeout", [kind])] + post}


def reads_hidden(acts) -> bool:
    return any(a[0] == "ReadCounter" for a in acts)
