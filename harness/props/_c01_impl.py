"""Shared implementation drivers for C01/C02/C03: real instrumentation of generated modules,
harvesting of the emitted snippets, extraction of raw/instrumented basic blocks, differential
execution and sys.monitoring ground truth.  Nothing here knows the Coq models."""
from __future__ import annotations

import contextlib
import io
import itertools
import json
import os
import signal
import sys
import types

import vlib

_READY = False
RECORDS: list = []          # snippets emitted by the real generator since the last reset
_INSTR2REC: dict = {}       # id(ArtificialInstr) -> (record index, position in snippet)


def setup():
    """Import pynguin from $VERIF_REPO and wrap the instruction generator so that every snippet
    the adapters request is recorded (action, method call, emitted instructions)."""
    global _READY
    if _READY:
        return
    vlib.setup_impl_path()
    import logging

    logging.disable(logging.CRITICAL)
    from pynguin.instrumentation.version import common

    base = common.InstrumentationInstructionsGenerator
    orig_gi = base.__dict__["generate_instructions"].__func__
    orig_go = base.__dict__["generate_overriding_instructions"].__func__

    def gi(cls, setup_action, call, lineno):
        res = orig_gi(cls, setup_action, call, lineno)
        _record("plain", setup_action, call, None, res)
        return res

    def go(cls, setup_action, instr, call, lineno):
        res = orig_go(cls, setup_action, instr, call, lineno)
        _record("override", setup_action, call, instr, res)
        return res

    base.generate_instructions = classmethod(gi)
    base.generate_overriding_instructions = classmethod(go)
    _READY = True


def _record(kind, action, call, instr, res):
    idx = len(RECORDS)
    RECORDS.append({"kind": kind, "action": action.name, "method": call.method_name, "self": call.self,
                    "args": call.args, "orig": instr, "instrs": res})
    for k, i in enumerate(res):
        _INSTR2REC[id(i)] = (idx, k)


def reset_records():
    RECORDS.clear()
    _INSTR2REC.clear()


METRICS = ("BRANCH", "LINE", "CHECKED")
SUBSETS = [tuple(m for m, b in zip(METRICS, bits) if b) for bits in itertools.product([0, 1], repeat=3)]


def reinstrument_after_reset(src_before: str, src_after: str, path: str, metrics, seeding=False):
    """What a reload of the module under test does: the module was instrumented once (src_before), then the
    SAME SubjectProperties are reset and the changed file (src_after) is instrumented by the same transformer.
    Returns (sp, code of the second instrumentation)."""
    setup()
    import pynguin.configuration as config
    from pynguin.analyses.constants import ConstantPool, DynamicConstantProvider, EmptyConstantProvider
    from pynguin.instrumentation.machinery import build_transformer
    from pynguin.instrumentation.tracer import SubjectProperties

    sp = SubjectProperties()
    dp = DynamicConstantProvider(ConstantPool(), EmptyConstantProvider(), 0.5, 10) if seeding else None
    tr = build_transformer(sp, {config.CoverageMetric[m] for m in metrics}, config.ToCoverConfiguration(), dp)
    with open(path, "w") as f:
        f.write(src_before)
    tr.instrument_code(compile(src_before, path, "exec"))
    sp.reset()
    with open(path, "w") as f:
        f.write(src_after)
    reset_records()
    code = tr.instrument_code(compile(src_after, path, "exec"))
    return sp, code


def instrument(src: str, path: str, metrics, seeding=True):
    """Instrument like install_import_hook does (build_transformer).  Returns (sp, code, pool)."""
    setup()
    import pynguin.configuration as config
    from pynguin.analyses.constants import ConstantPool, DynamicConstantProvider, EmptyConstantProvider
    from pynguin.instrumentation.machinery import build_transformer
    from pynguin.instrumentation.tracer import SubjectProperties

    sp = SubjectProperties()
    pool = ConstantPool()
    dp = DynamicConstantProvider(pool, EmptyConstantProvider(), 0.5, 10) if seeding else None
    tr = build_transformer(sp, {config.CoverageMetric[m] for m in metrics}, config.ToCoverConfiguration(), dp)
    code = tr.instrument_code(compile(src, path, "exec"))
    return sp, code, pool


# ---------------------------------------------------------------------------------------------
# snippet abstraction (for Model A)
def _arg_desc(a):
    from pynguin.instrumentation.version import common as c

    if isinstance(a, c.InstrumentationStackValue):
        return ("stack", int(a.value))
    if isinstance(a, c.InstrumentationConstantLoad):
        return ("const",)
    if isinstance(a, c.InstrumentationFastLoad):
        return ("fast",)
    if isinstance(a, c.InstrumentationFastLoadTuple):
        return ("fasttuple",)
    if isinstance(a, c.InstrumentationNameLoad):
        return ("name",)
    if isinstance(a, c.InstrumentationGlobalLoad):
        return ("global",)
    if isinstance(a, c.InstrumentationDeref):
        return ("deref",)
    if isinstance(a, c.InstrumentationClassDeref):
        return ("classderef",)
    raise ValueError(f"unknown instrumentation argument {a!r}")


def _orig_effect(instr):
    """(pops, pushes) of an overridden original instruction, as CPython declares them."""
    import dis

    from bytecode.instr import Instr

    assert isinstance(instr, Instr)
    table = {"STORE_ATTR": (2, 0), "STORE_SUBSCR": (3, 0), "DELETE_SUBSCR": (2, 0), "STORE_SLICE": (4, 0),
             "BINARY_SLICE": (3, 1)}
    if instr.name not in table:
        raise ValueError(f"overridden instruction {instr.name} not known to the extractor")
    pops, pushes = table[instr.name]
    arg = 0 if instr.name in ("STORE_ATTR",) else None
    assert dis.stack_effect(instr.opcode, arg) == pushes - pops, instr.name
    return pops, pushes


def snippet_shape(rec) -> tuple:
    """Abstract one recorded snippet: which opcodes, with which stack-relevant operands.
    Constants/variable names are numbered by order of occurrence (their identity is irrelevant for
    the stack discipline; which constant goes to which parameter is checked through `args`)."""
    code = []
    consts = 0
    for i in rec["instrs"]:
        n, a = i.name, i.arg
        if rec["orig"] is not None and i is rec["orig"]:
            code.append(("ORIG",) + _orig_effect(i))
        elif n in ("COPY", "SWAP", "BUILD_TUPLE", "CALL"):
            code.append((n, int(a)))
        elif n == "POP_TOP":
            code.append((n,))
        elif n == "LOAD_CONST":
            code.append((n, consts))
            consts += 1
        elif n == "LOAD_ATTR":
            if not (isinstance(a, tuple) and a[0] is True and a[1] == rec["method"]):
                raise ValueError(f"unexpected LOAD_ATTR operand {a!r}")
            code.append(("LOAD_METHOD",))
        elif n in ("LOAD_FAST", "LOAD_FAST_CHECK", "LOAD_NAME", "LOAD_DEREF", "LOAD_FROM_DICT_OR_DEREF"):
            code.append((n,))
        elif n == "LOAD_GLOBAL":
            if not (isinstance(a, tuple) and a[0] is False):
                raise ValueError(f"LOAD_GLOBAL pushing NULL in a snippet: {a!r}")
            code.append((n,))
        elif n == "LOAD_LOCALS":
            code.append((n,))
        elif n == "BINARY_OP":
            code.append((n, int(a)))
        else:
            raise ValueError(f"opcode {n} emitted by the generator is outside the stack-machine model")
    orig = _orig_effect(rec["orig"]) if rec["orig"] is not None else None
    return (rec["kind"], rec["action"], tuple(_arg_desc(a) for a in rec["args"]), orig, tuple(code))


# ---------------------------------------------------------------------------------------------
# block extraction (for Model A', C02, C03)
def _elem_kind(e):
    from bytecode.instr import Instr, SetLineno, TryBegin, TryEnd

    if isinstance(e, Instr):
        return "I"
    if isinstance(e, TryBegin):
        return "TB"
    if isinstance(e, TryEnd):
        return "TE"
    if isinstance(e, SetLineno):
        return "SL"
    raise ValueError(type(e))


def code_objects(sp):
    return sorted(sp.existing_code_objects.items())


def code_tree(code):
    """Code objects of a module in pre-order (the same order for the plain and the instrumented tree)."""
    out = [code]
    for k in code.co_consts:
        if isinstance(k, types.CodeType):
            out += code_tree(k)
    return out


def extract_blocks(sp, orig_code, inst_code):
    """For every instrumented code object: per basic block (in bytecode_cfg order) the raw
    element list [("TE"|"TB"|"SL") | ("O", name, lineno, k) | ("A", rec, pos)] where k numbers the
    original instructions of the block, plus the independently recomputed original block."""
    from bytecode import Bytecode

    from pynguin.instrumentation import controlflow as cf
    from pynguin.instrumentation import version
    from pynguin.instrumentation.controlflow import ArtificialInstr

    index_of = {id(c): k for k, c in enumerate(code_tree(orig_code))}
    orig_of = {}

    def pair(o, i):
        """Re-assembly reorders co_consts; children are matched by (name, first line) and, among equal
        keys (two lambdas on one line), by their order of appearance."""
        orig_of[id(i)] = (index_of[id(o)], o)
        groups = {}
        for k in o.co_consts:
            if isinstance(k, types.CodeType):
                groups.setdefault((k.co_name, k.co_firstlineno), []).append(k)
        for k in i.co_consts:
            if isinstance(k, types.CodeType):
                pair(groups[(k.co_name, k.co_firstlineno)].pop(0), k)
    pair(orig_code, inst_code)
    out = {}
    for coid, meta in code_objects(sp):
        c = meta.code_object
        tree_index, oc = orig_of[id(c)]
        assert (oc.co_name, oc.co_firstlineno) == (c.co_name, c.co_firstlineno)
        ocfg = cf.CFG.from_bytecode(version.add_for_loop_no_yield_nodes(Bytecode.from_code(oc)))
        live = {n.index for n in meta.cfg.basic_block_nodes}
        blocks = []
        for bi, (blk, oblk) in enumerate(zip(meta.cfg.bytecode_cfg, ocfg.bytecode_cfg, strict=True)):
            els, k = [], 0
            for e in blk:
                kind = _elem_kind(e)
                if kind != "I":
                    els.append((kind,))
                elif isinstance(e, ArtificialInstr):
                    els.append(("A",) + _INSTR2REC[id(e)])
                else:
                    els.append(("O", e.name, e.lineno if isinstance(e.lineno, int) else None, k))
                    k += 1
            oels = []
            for e in oblk:
                kind = _elem_kind(e)
                oels.append((kind,) if kind != "I" else ("O", e.name, e.lineno if isinstance(e.lineno, int) else None))
            blocks.append({"index": bi, "live": bi in live, "inst": els, "orig": oels,
                           "next": (meta.cfg.bytecode_cfg.get_block_index(blk.next_block)
                                    if blk.next_block is not None else None)})
        out[coid] = {"name": c.co_name, "first": c.co_firstlineno, "blocks": blocks, "meta": meta, "ocfg": ocfg,
                     "tree_index": tree_index, "orig_code": oc}
    return out


# ---------------------------------------------------------------------------------------------
# execution: plain vs instrumented, canonical observations
def canon(v, depth=0):
    """Canonical, NaN-safe, address-free description of a returned value."""
    import math

    from props._c01_gen import Adv

    if depth > 4:
        return "..."
    if v is None or isinstance(v, (bool, str, bytes)):
        return [type(v).__name__, repr(v)]
    if isinstance(v, int):
        return ["int", str(v) if abs(v) < 10**30 else f"{v % 10**9}~{v.bit_length()}"]
    if isinstance(v, float):
        return ["float", "nan" if math.isnan(v) else v.hex()]
    if isinstance(v, complex):
        return ["complex", repr(v)]
    if isinstance(v, (tuple, list)):
        return [type(v).__name__, [canon(x, depth + 1) for x in v]]
    if isinstance(v, (set, frozenset)):
        return [type(v).__name__, sorted(json.dumps(canon(x, depth + 1)) for x in v)]
    if isinstance(v, dict):
        return ["dict", sorted(json.dumps([canon(k, depth + 1), canon(x, depth + 1)]) for k, x in v.items())]
    if type(v).__name__ == "VivNS":
        return ["vivns", sorted(v.children)]
    if isinstance(v, Adv):
        return ["adv", type(v).__name__, v.mode, v.val]
    return ["obj", type(v).__name__]


def call_once(code, path, spec, tracer=None):
    """Exec the module code in a fresh namespace and call f on fresh arguments.
    Returns the observation dict (and leaves the trace in `tracer`)."""
    from props import _c01_gen as G

    args, iters = G.materialise(spec)
    ns = {"__name__": "gm", "__file__": path}
    out = io.StringIO()
    obs = {}
    G.Adv.LOG.clear()
    cm = tracer if tracer is not None else contextlib.nullcontext()
    with contextlib.redirect_stdout(out), cm:
        try:
            exec(code, ns)  # noqa: S102
            if tracer is not None:
                tracer.init_trace()
            G.Adv.LOG.clear()
            r = ns["f"](*args)
            obs["ret"], obs["exc"] = canon(r), None
        except BaseException as e:  # noqa: BLE001
            if isinstance(e, (KeyboardInterrupt, SystemExit, MemoryError)):
                raise
            obs["ret"], obs["exc"] = None, type(e).__name__
            obs["msg"] = str(e)[:200]
    obs["stdout"] = out.getvalue()
    obs["dunder"] = sorted(set(G.Adv.LOG))
    obs["iters"] = [canon(list(it)) for it in iters]
    obs["state"] = [canon(ns.get("G")), canon(args[3]) if isinstance(args[3], list) else None,
                    canon(args[4]) if isinstance(args[4], (list, set)) or type(args[4]).__name__ == "VivNS" else None]
    return obs


def diff_obs(plain, inst):
    """None, or (kind, detail) describing how the instrumented run differs from the plain one."""
    if plain["exc"] != inst["exc"]:
        if plain["exc"] is None:
            return ("raises", inst["exc"])
        if inst["exc"] is None:
            return ("swallows", plain["exc"])
        return ("exctype", f"{plain['exc']}->{inst['exc']}")
    if plain["ret"] != inst["ret"]:
        return ("value", "")
    if plain["stdout"] != inst["stdout"]:
        return ("stdout", "")
    extra = sorted(set(inst["dunder"]) - set(plain["dunder"]))
    if extra:
        return ("dunder", ",".join(extra))
    if plain["iters"] != inst["iters"]:
        return ("iterator", "")
    if plain["state"] != inst["state"]:
        return ("state", "")
    return None


CRASH_SIGNALS = ("SIGSEGV", "SIGABRT", "SIGBUS", "SIGFPE", "SIGILL")   # raised by the interpreter itself


def isolated(fn, *args, timeout=900):
    """Run fn(*args) in a forked child.  Returns its JSON-able result, or {"crash": signal} when the
    interpreter itself died (SIGSEGV/SIGABRT/...), or {"inconclusive": why} when the child was stopped
    from outside (the watchdog's SIGALRM, SIGKILL/SIGTERM from the system) or vanished without a result:
    that says nothing about the property."""
    r, w = os.pipe()
    pid = os.fork()
    if pid == 0:
        os.close(r)
        try:
            signal.alarm(timeout)
            res = fn(*args)
            data = json.dumps(res).encode()
        except BaseException as e:  # noqa: BLE001
            import traceback

            data = json.dumps({"harness_error": f"{type(e).__name__}: {e}", "tb": traceback.format_exc()[-1500:]}).encode()
        with os.fdopen(w, "wb") as f:
            f.write(data)
        os._exit(0)
    os.close(w)
    with os.fdopen(r, "rb") as f:
        data = f.read()
    _, status = os.waitpid(pid, 0)
    if os.WIFSIGNALED(status):
        name = signal.Signals(os.WTERMSIG(status)).name
        return {"crash": name} if name in CRASH_SIGNALS else {"inconclusive": name}
    try:
        return json.loads(data)
    except Exception:  # noqa: BLE001
        return {"inconclusive": f"exit{os.WEXITSTATUS(status)}"}


def _plain_only(src, path, spec):
    code = compile(src, path, "exec")
    return {"exc": call_once(code, path, spec)["exc"]}


def _roundtrip_only(src, path, spec):
    """Run the module after nothing but `Bytecode.from_code(c).to_code()` on every code object: no Pynguin code."""
    from bytecode import Bytecode

    def conv(c):
        new = Bytecode.from_code(c).to_code()
        return new.replace(co_consts=tuple(conv(k) if isinstance(k, types.CodeType) else k for k in new.co_consts))
    return {"exc": call_once(conv(compile(src, path, "exec")), path, spec)["exc"]}


def crash_cause(src, path, spec):
    """Suffix for a crash signature: ':bytecode-roundtrip' when the interpreter also dies on the code that merely went
    through the third-party `bytecode` library's disassemble/assemble round trip (wrong exception-table stack depths,
    e.g. for try/except-as/finally-continue inside a loop), '' otherwise."""
    with open(path, "w") as f:
        f.write(src)
    r = isolated(_roundtrip_only, src, path, spec, timeout=60)
    return ":bytecode-roundtrip" if "crash" in r else ""


def usable_specs(src, path, specs, limit=4):
    """Pre-run the PLAIN program on every input in its own child under a short watchdog; keep only the
    inputs on which it terminates quickly and does not itself kill the interpreter.  Returns
    (kept specs, {reason: count} of dropped ones)."""
    with open(path, "w") as f:
        f.write(src)
    kept, dropped = [], {}
    for s in specs:
        r = isolated(_plain_only, src, path, s, timeout=limit)
        if "exc" in r:
            kept.append(s)
        else:
            why = "plain-slow" if r.get("inconclusive") == "SIGALRM" else "plain-" + str(r.get("crash") or r.get("inconclusive") or "error")
            dropped[why] = dropped.get(why, 0) + 1
    return kept, dropped


def differential(src, path, specs, subsets):
    """C01 oracle for one program: list of failures [(metrics, spec index, kind, detail, msg)]."""
    setup()
    with open(path, "w") as f:
        f.write(src)
    plain_code = compile(src, path, "exec")
    plains = [call_once(plain_code, path, s) for s in specs]
    fails = []
    for ms in subsets:
        try:
            sp, code, _pool = instrument(src, path, ms)
        except Exception as e:  # noqa: BLE001
            fails.append([list(ms), -1, "instrument", type(e).__name__, str(e)[:200]])
            continue
        for k, s in enumerate(specs):
            sp.instrumentation_tracer.reset()
            obs = call_once(code, path, s, sp.instrumentation_tracer)
            d = diff_obs(plains[k], obs)
            if d:
                fails.append([list(ms), k, d[0], d[1], f"plain={plains[k]['exc'] or plains[k]['ret']} "
                              f"instrumented={obs['exc'] or obs['ret']} {obs.get('msg', '')}"[:300]])
    return {"fails": fails, "plain_exc": [p["exc"] for p in plains]}


def differential_isolated(src, path, specs, subsets):
    """Like `differential`, but every metric subset runs in its own forked child so that an
    interpreter crash caused by the instrumented code is observed instead of killing the check.
    Inputs on which the plain program is slow or crashes are dropped first; a child stopped from outside
    is inconclusive."""
    specs, dropped = usable_specs(src, path, specs)
    fails, plain_exc, inconclusive = [], [], dict(dropped)
    for ms in subsets:
        if not specs:
            break
        r = isolated(differential, src, path, specs, [ms])
        if "crash" in r:
            # find the input that crashes
            hit = None
            for k, s in enumerate(specs):
                r1 = isolated(differential, src, path, [s], [ms])
                if "crash" in r1:
                    hit = k
                    break
            if hit is None:
                inconclusive["crash-not-reproduced"] = inconclusive.get("crash-not-reproduced", 0) + 1
            else:
                cause = crash_cause(src, path, specs[hit])
                fails.append([list(ms), hit, "crash", r["crash"] + cause, "interpreter died (the plain program runs normally on this input)"
                              + ("; it also dies on the code that only went through bytecode's from_code/to_code round trip" if cause else "")])
        elif "inconclusive" in r:
            inconclusive[r["inconclusive"]] = inconclusive.get(r["inconclusive"], 0) + 1
        elif "harness_error" in r:
            fails.append([list(ms), -1, "harness", r["harness_error"], r.get("tb", "")])
        else:
            fails += r["fails"]
            plain_exc = r["plain_exc"]
    return {"fails": fails, "plain_exc": plain_exc, "inconclusive": inconclusive, "specs": specs}


# ---------------------------------------------------------------------------------------------
# sys.monitoring ground truth on the UNINSTRUMENTED code (C02: LINE, C03: BRANCH)
TOOL = 4


def monitored_call(code, path, spec, events=("LINE", "BRANCH")):
    """Run the plain module code, then call f under sys.monitoring restricted to code objects of
    `path`.  Returns {"lines": [...], "branches": [(name, firstlineno, offset, dest)], "exc": ..}."""
    from props import _c01_gen as G

    mon = sys.monitoring
    args, _iters = G.materialise(spec)
    ns = {"__name__": "gm", "__file__": path}
    lines, branches = set(), []
    out = io.StringIO()
    index_of = {id(c): k for k, c in enumerate(code_tree(code))}

    def on_line(c, line):
        if c.co_filename == path:
            lines.add(line)
        else:
            return mon.DISABLE
        return None

    def on_branch(c, off, dest):
        if c.co_filename == path:
            branches.append((index_of.get(id(c), -1), off, dest))
        else:
            return mon.DISABLE
        return None

    starts = set()

    def on_start(c, off):
        if c.co_filename == path:
            starts.add(index_of.get(id(c), -1))
        else:
            return mon.DISABLE
        return None

    exc = None
    with contextlib.redirect_stdout(out):
        exec(code, ns)  # noqa: S102
        mon.use_tool_id(TOOL, "c02")
        try:
            ev = 0
            if "LINE" in events:
                mon.register_callback(TOOL, mon.events.LINE, on_line)
                ev |= mon.events.LINE
            if "BRANCH" in events:
                mon.register_callback(TOOL, mon.events.BRANCH, on_branch)
                ev |= mon.events.BRANCH
            if "PY_START" in events:
                mon.register_callback(TOOL, mon.events.PY_START, on_start)
                ev |= mon.events.PY_START
            mon.set_events(TOOL, ev)
            try:
                ns["f"](*args)
            except BaseException as e:  # noqa: BLE001
                if isinstance(e, (KeyboardInterrupt, SystemExit, MemoryError)):
                    raise
                exc = type(e).__name__
        finally:
            mon.set_events(TOOL, 0)
            mon.register_callback(TOOL, mon.events.LINE, None)
            mon.register_callback(TOOL, mon.events.BRANCH, None)
            mon.register_callback(TOOL, mon.events.PY_START, None)
            mon.free_tool_id(TOOL)
    return {"lines": sorted(lines), "branches": branches, "starts": sorted(starts), "exc": exc}


def sequence_of(specs):
    """Executions on one executor come in sequences: every input, then the first one twice more (same
    function, same first line as the previous execution's last), then the others in reverse order."""
    if not specs:
        return []
    return list(specs) + [specs[0], specs[0]] + list(reversed(specs))[:2]


def monitored_sequence(code, path, specs, events=("LINE", "BRANCH", "PY_START")):
    """Like monitored_call, but the module is executed once and f is called for every input in turn (state of
    the module persists, as for the test cases of one run); one observation per call."""
    from props import _c01_gen as G

    mon = sys.monitoring
    ns = {"__name__": "gm", "__file__": path}
    out = io.StringIO()
    index_of = {id(c): k for k, c in enumerate(code_tree(code))}
    cur = {"lines": set(), "branches": [], "starts": set()}

    def on_line(c, line):
        if c.co_filename == path:
            cur["lines"].add(line)
            return None
        return mon.DISABLE

    def on_branch(c, off, dest):
        if c.co_filename == path:
            cur["branches"].append((index_of.get(id(c), -1), off, dest))
            return None
        return mon.DISABLE

    def on_start(c, off):
        if c.co_filename == path:
            cur["starts"].add(index_of.get(id(c), -1))
            return None
        return mon.DISABLE

    res = []
    with contextlib.redirect_stdout(out):
        exec(code, ns)  # noqa: S102
        mon.use_tool_id(TOOL, "c02")
        try:
            ev = 0
            for name, cb in (("LINE", on_line), ("BRANCH", on_branch), ("PY_START", on_start)):
                if name in events:
                    mon.register_callback(TOOL, getattr(mon.events, name), cb)
                    ev |= getattr(mon.events, name)
            for spec in specs:
                args, _iters = G.materialise(spec)
                cur["lines"], cur["branches"], cur["starts"] = set(), [], set()
                exc = None
                mon.set_events(TOOL, ev)
                try:
                    ns["f"](*args)
                except BaseException as e:  # noqa: BLE001
                    if isinstance(e, (KeyboardInterrupt, SystemExit, MemoryError)):
                        raise
                    exc = type(e).__name__
                finally:
                    mon.set_events(TOOL, 0)
                    mon.restart_events()
                res.append({"lines": sorted(cur["lines"]), "branches": list(cur["branches"]),
                            "starts": sorted(cur["starts"]), "exc": exc})
        finally:
            mon.set_events(TOOL, 0)
            for name in ("LINE", "BRANCH", "PY_START"):
                mon.register_callback(TOOL, getattr(mon.events, name), None)
            mon.free_tool_id(TOOL)
    return res


def traced_sequence(sp, code, path, specs):
    """The instrumented module is executed once; then, as the executor does for consecutive test cases, a
    fresh trace is started (init_trace) before every call of f.  Returns [(exception type, trace)]."""
    from props import _c01_gen as G

    tr = sp.instrumentation_tracer
    tr.reset()
    ns = {"__name__": "gm", "__file__": path}
    out = io.StringIO()
    res = []
    with contextlib.redirect_stdout(out), tr:
        exec(code, ns)  # noqa: S102
        for spec in specs:
            args, _iters = G.materialise(spec)
            tr.init_trace()
            exc = None
            try:
                ns["f"](*args)
            except BaseException as e:  # noqa: BLE001
                if isinstance(e, (KeyboardInterrupt, SystemExit, MemoryError)):
                    raise
                exc = type(e).__name__
            res.append((exc, tr.get_trace()))
    return res


def traced_call(sp, code, path, spec):
    """Run the instrumented module, then f, with a trace that holds the call phase only."""
    tr = sp.instrumentation_tracer
    tr.reset()
    obs = call_once(code, path, spec, tr)
    return obs, tr.get_trace()


def excluded_lines(path, code_obj):
    """Lines of this code object that AstInfo.should_cover_line rejects (as the transformer asks)."""
    import pynguin.configuration as config
    from pynguin.instrumentation.transformer import ModuleAstInfo

    mai = ModuleAstInfo.from_path(path, config.ToCoverConfiguration())
    if mai is None:
        return None
    info = mai.get_scope(0 if code_obj.co_name == "<module>" else code_obj.co_firstlineno)
    if info is None:
        return []
    ls = {ln for (_s, _e, ln) in code_obj.co_lines() if ln is not None}
    return sorted(ln for ln in ls if not info.should_cover_line(ln))
