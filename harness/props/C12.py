"""C12 — cached fitness / coverage values are never stale.

T  static proofs (Properties/C12.v): for every history of chromosome operations that respects the
   flag discipline, every query answers the value recomputed from scratch and never fails for a
   registered function (test-case and test-suite chromosomes, members queried inside suites).
K2 random operation histories on the REAL ComputationCache / TestCaseChromosome /
   TestSuiteChromosome / _run_test_*_chromosome with table-driven stub functions; the complete state
   (flags, last results, caches, registered functions) after every step is replayed by the Coq
   model.  Real operators (mutation, crossover, suite edits) enter the model as the observed Edit.
S  direct oracle: (a) every query answer is compared with the answer of a brand-new chromosome that
   holds the same tests and functions; (b) discipline monitor: a real operator that changed the
   content digest must leave `changed` set (on the chromosome, and on the suite that holds it).
"""
from __future__ import annotations

import json

import vlib
from vlib import cZ, cbool, clist, cnat, copt, cpair

from props import _c12_impl as I

SRC = [
    "src/pynguin/ga/computation_cache.py",
    "src/pynguin/ga/computations.py",
    "src/pynguin/ga/chromosome.py",
    "src/pynguin/ga/testsuitechromosome.py",
    "src/pynguin/ga/testcasechromosome.py",
    "src/pynguin/ga/operators/mutation.py",
    "src/pynguin/ga/operators/crossover.py",
]
NF, NC = I.NF, I.NC
REAL_TC_OPS = ("Mutate", "MutateChange", "CrossOver", "XOverOp")
REAL_SUITE_OPS = ("Add", "AddFactory", "AddMany", "AddAlias", "AddTwice", "MemberMutateChange", "Delete", "Set", "Mutate", "MemberMutate", "CrossOver", "XOverOp")


# ------------------------------------------------------------------------------------------------
# generators.  mode "real": only operations of the property's quantifier (real operators, cloning,
# adding functions, queries for registered functions) -> the direct oracle applies.
# mode "model": additionally synthetic edits with arbitrary flag handling, unregistered queries,
# set_*_values, invalidate, dropped results -> ties the model also outside the discipline.
def gen_query(rng, nf_reg, nc_reg, model_mode):
    c = rng.random()
    if c < 0.15:
        return ("GetFitness",)
    if c < 0.45:
        return ("GetFitnessFor", pick_fn(rng, nf_reg, NF, model_mode))
    if c < 0.65:
        return ("GetIsCovered", pick_fn(rng, nf_reg, NF, model_mode))
    if c < 0.80 and (model_mode or nc_reg):
        return ("GetCoverage",)
    return ("GetCoverageFor", pick_fn(rng, nc_reg, NC, model_mode))


def pick_fn(rng, reg, n, model_mode):
    if model_mode and rng.random() < 0.12:
        return rng.randrange(n + 1)          # possibly unregistered (id n is never registered)
    if reg:
        return rng.choice(sorted(reg))
    return None


def gen_tc_history(rng, n_ops, model_mode):
    ops, freg, creg = [], set(), set()
    init = rng.choice([0, 0, 1, 2, 5, -1, -1, -1])      # -1: built by the real test case factory
    if rng.random() < 0.2:
        # change mutations on a factory-built test (literals, calls, parameterless calls that cannot be mutated),
        # cached values queried after every mutate()
        init, f = -1, rng.randrange(NF)
        ops += [("AddFit", f), ("GetFitnessFor", f)]
        freg.add(f)
        for _ in range(rng.choice([2, 4, 6])):
            ops += [rng.choice([("MutateChange",), ("MutateChange",), ("Mutate",)]), rng.choice([("GetFitnessFor", f), ("GetIsCovered", f), ("GetFitness",)])]
    for _ in range(max(0, n_ops - len(ops))):
        c = rng.random()
        op = None
        if c < 0.40:
            op = gen_query(rng, freg, creg, model_mode)
            if op[0] != "GetFitness" and op[0] != "GetCoverage" and op[1] is None:
                op = None
        elif c < 0.52:
            f = rng.randrange(NF)
            if model_mode or f not in freg or rng.random() < 0.1:
                op = ("AddFit", f)
                freg.add(f)
        elif c < 0.60:
            f = rng.randrange(NC)
            if model_mode or f not in creg or rng.random() < 0.1:
                op = ("AddCov", f)
                creg.add(f)
        elif c < 0.72:
            op = ("Mutate",) if rng.random() < 0.5 else ("MutateChange",)
        elif c < 0.78:
            op = ("CrossOver", rng.randrange(1, 9), rng.randrange(0, 4), rng.randrange(0, 3))
        elif c < 0.82:
            op = ("XOverOp", rng.randrange(1, 9), rng.randrange(0, 3))
        elif c < 0.88:
            op = rng.choice([("Clone",), ("ClonePoke", rng.randrange(1000))])
        elif model_mode:
            d = rng.random()
            if d < 0.45:
                op = ("SynEdit", rng.randrange(0, 9), rng.choice(["set", "set", "keep", "keep", "clear"]))
            elif d < 0.6:
                op = ("Invalidate",)
            elif d < 0.7:
                op = ("DropResult",)
            elif d < 0.87:
                op = ("SetFit", rng.randrange(NF + 1), rng.randrange(5))
            else:
                op = ("SetCov", rng.randrange(NC + 1), rng.randrange(5))
        if op is None:
            op = rng.choice([("Mutate",), ("MutateChange",)]) if rng.random() < 0.5 else ("GetFitness",)
        ops.append(op)
    return init, ops


def gen_member_op(rng, model_mode):
    c = rng.random()
    if c < 0.25:
        return ("AddFit", rng.randrange(NF))
    if c < 0.35:
        return ("AddCov", rng.randrange(NC))
    if c < 0.55:
        return ("GetFitnessFor", rng.randrange(NF))       # may be unregistered on that member: see run
    if c < 0.65:
        return ("GetIsCovered", rng.randrange(NF))
    if c < 0.72:
        return ("GetFitness",)
    if c < 0.80:
        return ("GetCoverageFor", rng.randrange(NC))
    if model_mode:
        return ("SynEdit", rng.randrange(0, 9), rng.choice(["set", "set", "keep", "clear"]))
    return ("GetFitness",)


def regify(top, rng):
    """real mode: a member query names 'the k-th registered function of that member' (resolved when
    the history runs), so that it is a query for a registered function."""
    if top[0] in ("GetFitnessFor", "GetIsCovered", "GetCoverageFor"):
        return (top[0], ["reg", rng.randrange(8)])
    return top


def valid_real(ops):
    """Histories of the property's quantifier: queries only for functions registered before."""
    freg, creg = set(), set()
    for op in ops:
        n = op[0]
        if n == "AddFit":
            freg.add(op[1])
        elif n == "AddCov":
            creg.add(op[1])
        elif n in ("GetFitnessFor", "GetIsCovered") and op[1] not in freg:
            return False
        elif n == "GetCoverageFor" and op[1] not in creg:
            return False
        elif n == "GetCoverage" and not creg:
            return False
        elif n == "Member" and op[2][0] in ("GetFitnessFor", "GetIsCovered", "GetCoverageFor") and not isinstance(op[2][1], list):
            return False
    return True


def gen_suite_history(rng, n_ops, model_mode):
    ops, freg, creg = [], set(), set()
    if rng.random() < 0.3:
        # suite / member interplay: members with their own functions are queried, mutated, executed by
        # a suite query and queried again
        sf, i = rng.randrange(NF), rng.randrange(3)
        ops += [("AddMany", [rng.randrange(1, 9) for _ in range(rng.choice([1, 2, 3]))]), ("AddFit", sf)]
        freg.add(sf)
        ops += [("Member", i, ("AddFit", rng.randrange(NF)), False) for _ in range(rng.choice([1, 2]))]
        if rng.random() < 0.5:
            ops.append(("Member", i, ("AddCov", rng.randrange(NC)), False))
        q = lambda: ("Member", i, regify(rng.choice([("GetFitnessFor", 0), ("GetIsCovered", 0), ("GetFitness",)]), rng), False)  # noqa: E731
        ops.append(q())
        ops += [("MemberMutate", i) for _ in range(rng.choice([1, 2, 3]))]
        ops += [rng.choice([("GetFitnessFor", sf), ("GetIsCovered", sf), ("GetFitness",)]), q()]
    elif rng.random() < 0.2:
        # aliasing: the same chromosome object twice in the suite, followed by further tests that need execution
        sf = rng.randrange(NF)
        ops += [rng.choice([("AddTwice", rng.randrange(1, 9)), ("Add", rng.randrange(1, 9))])]
        if ops[0][0] == "Add":
            ops.append(("AddAlias", 0))
        ops += [("Add", rng.randrange(1, 9)) for _ in range(rng.choice([1, 2]))]
        ops += [("AddFit", sf), rng.choice([("GetFitnessFor", sf), ("GetFitness",), ("GetIsCovered", sf)])]
        freg.add(sf)
        ops += [("MemberMutate", rng.choice([0, 1])), ("MemberMutate", 2), rng.choice([("GetFitnessFor", sf), ("GetFitness",)]),
                ("Clone",), ("GetFitnessFor", sf)]
    for k in range(len(ops), max(n_ops, len(ops))):
        c = rng.random()
        op = None
        if k < 2 and rng.random() < 0.8:
            op = ("AddMany", [rng.randrange(0, 9) for _ in range(rng.choice([1, 2, 3]))]) if k == 0 else ("AddFit", rng.randrange(NF))
            if op[0] == "AddFit":
                freg.add(op[1])
        elif c < 0.34:
            op = gen_query(rng, freg, creg, model_mode)
            if op[0] not in ("GetFitness", "GetCoverage") and op[1] is None:
                op = None
        elif c < 0.42:
            f = rng.randrange(NF)
            if model_mode or f not in freg or rng.random() < 0.1:
                op = ("AddFit", f)
                freg.add(f)
        elif c < 0.48:
            f = rng.randrange(NC)
            if model_mode or f not in creg or rng.random() < 0.1:
                op = ("AddCov", f)
                creg.add(f)
        elif c < 0.58:
            op = ("Mutate",)
        elif c < 0.64:
            op = rng.choice([("MemberMutate", rng.randrange(8)), ("MemberMutateChange", rng.randrange(8)), ("AddFactory",)])
        elif c < 0.70:
            op = rng.choice([("Add", rng.randrange(0, 9)), ("Delete", rng.randrange(8)),
                             ("AddAlias", rng.randrange(8)), ("AddAlias", rng.randrange(8)), ("AddTwice", rng.randrange(0, 9)),
                             ("Set", rng.randrange(8), rng.randrange(0, 9)),
                             ("AddMany", [rng.randrange(0, 9) for _ in range(rng.choice([0, 1, 2]))])])
        elif c < 0.76:
            others = [rng.randrange(0, 9) for _ in range(rng.choice([1, 2, 3]))]
            op = rng.choice([("CrossOver", others, rng.randrange(0, 4), rng.randrange(0, 3)), ("XOverOp", others)])
        elif c < 0.80:
            op = rng.choice([("Clone",), ("ClonePoke", rng.randrange(1000))])
        elif c < 0.94:
            top = gen_member_op(rng, model_mode)
            op = ("Member", rng.randrange(8), top if model_mode else regify(top, rng), model_mode and rng.random() < 0.6)
        elif model_mode:
            d = rng.random()
            if d < 0.4:
                op = ("Invalidate",)
            elif d < 0.75:
                op = ("SetFit", rng.randrange(NF + 1), rng.randrange(5))
            else:
                op = ("SetCov", rng.randrange(NC + 1), rng.randrange(5))
        if op is None:
            op = ("Mutate",) if rng.random() < 0.5 else ("GetFitness",)
        ops.append(op)
    return ops


# ------------------------------------------------------------------------------------------------
# Coq printers
def c_assoc(l, val):
    return clist(cpair(cZ(k), val(v)) for k, v in l)


def c_tc(o):
    return "(C12.mk %s %s %s %s %s %s %s)" % (
        cpair(cZ(o["content"]), copt(None if o["last"] is None else cZ(o["last"]))), cbool(o["changed"]),
        clist(cZ(f) for f in o["funcs"]), clist(cZ(f) for f in o["cfuncs"]),
        c_assoc(o["fit"], cZ), c_assoc(o["isc"], cbool), c_assoc(o["cov"], cZ))


def c_suite(o):
    return "(C12.mk %s %s %s %s %s %s %s)" % (
        clist(c_tc(m) for m in o["members"]), cbool(o["changed"]),
        clist(cZ(f) for f in o["funcs"]), clist(cZ(f) for f in o["cfuncs"]),
        c_assoc(o["fit"], cZ), c_assoc(o["isc"], cbool), c_assoc(o["cov"], cZ))


def c_gop(m, body):
    n = m[0]
    if n == "Edit":
        return f"(C12.Edit {body(m)} {cbool(m[-1])})"
    if n in ("Clone", "GetFitness", "GetCoverage", "Invalidate"):
        return f"C12.{n}"
    if n in ("AddFit", "AddCov", "GetFitnessFor", "GetIsCovered", "GetCoverageFor"):
        return f"(C12.{n} {cZ(m[1])})"
    if n in ("SetFit", "SetCov"):
        return f"(C12.{n} {cZ(m[1])} {cZ(m[2])})"
    raise ValueError(m)


def c_top(m):
    return c_gop(m, lambda e: cpair(cZ(e[1]), copt(None if e[2] is None else cZ(e[2]))))


def c_sop(m):
    if m[0] == "Member":
        return f"(C12.SMember {cnat(m[1])} {c_top(m[2])} {cbool(m[3])})"
    return "(C12.SG %s)" % c_gop(m, lambda e: clist(c_tc(t) for t in e[1]))


def c_out(o):
    if o[0] == "OUnit":
        return "C12.OUnit"
    if o[0] == "OVal":
        return f"(C12.OVal {cZ(o[1])})"
    if o[0] == "OBool":
        return f"(C12.OBool {cbool(o[1])})"
    if o[0] == "OMean":
        return f"(C12.OMean {cZ(o[1])} {cZ(o[2])})"
    return f"(C12.OErr C12.{o[1]})"


def c_tables(world):
    n = max(len(world.codes), 1)

    def tab(fn, nf):
        return clist(clist(cZ(fn(f, c)) for c in range(n)) for f in range(nf + 1))
    return "(C12.Build_tables %s %s %s %s)" % (tab(world.tabF, NF), tab(world.tabK, NF), tab(world.tabC, NC),
                                               cbool(world.cons))


def c_tcase(world, init_code, steps):
    h = clist(cpair(c_top(s["modelop"]), cpair(c_tc(s["after"]), c_out(s["out"]))) for s in steps)
    return cpair(c_tables(world), cpair(cZ(init_code), h))


def c_step_sop(s):
    m = s["modelop"]
    if m[0] == "Member" and m[-1] == "aliased":     # several positions changed at once: observed Edit
        return c_sop(("Edit", s["after"]["members"], s["after"]["changed"]))
    return c_sop(m)


def c_scase(world, steps):
    h = clist(cpair(c_step_sop(s), cpair(c_suite(s["after"]), c_out(s["out"]))) for s in steps)
    return cpair(c_tables(world), h)


# ------------------------------------------------------------------------------------------------
# S: direct oracle
def registered_for(op, st):
    n = op[0]
    if n in ("GetFitnessFor", "GetIsCovered"):
        return op[1] in st["funcs"]
    if n == "GetCoverageFor":
        return op[1] in st["cfuncs"]
    if n == "GetCoverage":
        return len(st["cfuncs"]) > 0
    return True


def oracle_steps(level, steps):
    """First violation in a disciplined history: (signature, message, index) or None."""
    for k, s in enumerate(steps):
        op, b, a = s["op"], s["before"], s["after"]
        name = op[0]
        # (b) discipline monitor on real operators
        if level == "testcase" and name in REAL_TC_OPS:
            if b["content"] != a["content"] and not a["changed"]:
                return (f"discipline:testcase:{name}", f"{name} changed the test case (code {b['content']} -> "
                        f"{a['content']}) but `changed` is still False", k)
        if level == "suite" and name in REAL_SUITE_OPS:
            bc = [m["content"] for m in b["members"]]
            ac = [m["content"] for m in a["members"]]
            if bc != ac and not a["changed"]:
                kind = "drop-empty" if [c for c in bc if c != 0] == [c for c in ac if c != 0] else "content"
                return (f"discipline:suite:{name}:{kind}", f"{name} changed the suite's tests {bc} -> {ac} but the "
                        "suite's `changed` is still False", k)
            if name in ("Mutate", "MemberMutate", "MemberMutateChange"):
                # a member whose content changed must be flagged itself (it is re-executed only then)
                for m in a["members"]:
                    if not m["changed"] and m["last"] is not None and m["last"] != m["content"]:
                        return (f"discipline:suite-member:{name}", f"a member has content {m['content']}, last "
                                f"executed content {m['last']} and `changed` False after {name}", k)
        if level == "suite":
            # result streams, per test: a member that counts as executed must hold the result of executing ITS OWN
            # current content (a suite run hands each test the result that belongs to it)
            for pos, m in enumerate(a["members"]):
                if not m["changed"] and m["last"] is not None and m["last"] != m["content"]:
                    return (f"stale-result:suite-member:{name}", f"after {name}: member {pos} has content {m['content']} but holds the "
                            f"execution result of content {m['last']} and `changed` is False", k)
        # (a) query answers equal the value recomputed from scratch
        q, st = (op, a) if name in I.QUERIES else (None, None)
        mop = s["modelop"]
        if name == "Member" and mop[2][0] in I.QUERIES and a["members"]:
            q, st = mop[2], a["members"][mop[1]]
        if q is not None:
            if not registered_for(q, st):
                continue
            out, exp = s["out"], s["scratch"]
            lvl = level if name != "Member" else "suite-member"
            if out[0] == "OErr":
                return (f"query-fails:{lvl}:{q[0]}:{out[1]}", f"{q} raised {out[1:]} for a registered function "
                        f"(state before: {b})", k)
            if tuple(out) != tuple(exp):
                return (f"stale:{lvl}:{q[0]}", f"{q} returned {out}, recomputed from scratch: {exp}", k)
    return None


def shrink_ops(ops, still_fails):
    changed = True
    while changed:
        changed = False
        for i in range(len(ops)):
            cand = ops[:i] + ops[i + 1:]
            if still_fails(cand):
                ops, changed = cand, True
                break
    return ops


def _tup(o):
    return tuple(_tup(x) for x in o) if isinstance(o, (list, tuple)) and o and isinstance(o[0], str) else (
        [(_tup(x) if isinstance(x, (list, tuple)) else x) for x in o] if isinstance(o, list) else o)


def load_ops(lst):
    """JSON -> op tuples (nested member ops too)."""
    res = []
    for o in lst:
        o = list(o)
        if o[0] == "Member":
            o[2] = tuple(o[2])
        res.append(tuple(o))
    return res


def run_one(level, case, scratch):
    ops = case["ops"]
    if level == "testcase":
        world, init_code, steps = I.run_tc_history(case["seed"], case["salt"], case["cons"], case["init"], ops, scratch,
                                                   case.get("exc", False), case.get("chop"), case.get("maxlen"), case.get("uexp", 0))
        return world, steps, c_tcase(world, init_code, steps)
    world, steps = I.run_suite_history(case["seed"], case["salt"], case["cons"], ops, scratch,
                                       case.get("exc", False), case.get("chop"), case.get("maxlen"), case.get("eager", False), case.get("uexp", 0))
    return world, steps, c_scase(world, steps)


def run(ctx: vlib.Ctx):
    vlib.setup_impl_path()
    ctx.digest_sources(SRC)
    ctx.coq_static()
    if not ctx.quick:
        ctx.coqchk()
    scratch = ctx.mkscratch()
    n_t, n_s = (400, 280) if ctx.quick else (3000, 2000)
    corpus = json.loads((vlib.VERIF / "corpus" / "C12.json").read_text())
    cases = []
    for c in corpus:
        cases.append({**c, "ops": load_ops(c["ops"]), "corpus": True})
    for level, n, gen in (("testcase", n_t, gen_tc_history), ("suite", n_s, gen_suite_history)):
        for k in range(n):
            mode = "real" if k % 2 == 0 else "model"
            n_ops = ctx.rng.choice([3, 6, 10, 16, 24])
            seed, salt = ctx.rng.randrange(10**9), ctx.rng.randrange(10**6)
            # search configuration of the real operators: executions that raise at an early statement, chop of
            # over-long tests on/off, small chromosome_length (tests at/over the limit, insertion refused)
            cfg = {"exc": ctx.rng.random() < 0.6, "chop": ctx.rng.random() < 0.8, "maxlen": ctx.rng.choice([2, 3, 4, 6, 48])}
            # fitness unit: 1.0, or a tiny power of two (5e-324, 5.55e-17, 9.1e-13, 9.3e-10 < 1e-9 < 1.9e-9): every
            # non-zero fitness is then a near miss that must NOT count as covered
            cfg["uexp"] = ctx.rng.choice([0, 0, 0, -1074, -54, -40, -30, -29])
            if level == "suite":
                cfg["eager"] = ctx.rng.random() < 0.5      # execute_multiple returns a list (eager) or a generator (lazy)
            if level == "testcase":
                init, ops = gen(ctx.rng, n_ops, mode == "model")
                cases.append({"level": level, "mode": mode, "seed": seed, "salt": salt, "cons": mode == "real" or ctx.rng.random() < 0.5,
                              "init": init, "ops": ops, **cfg})
            else:
                ops = gen(ctx.rng, n_ops, mode == "model")
                cases.append({"level": level, "mode": mode, "seed": seed, "salt": salt, "cons": mode == "real" or ctx.rng.random() < 0.5,
                              "ops": ops, **cfg})
    terms = {"testcase": [], "suite": []}
    index = {"testcase": [], "suite": []}
    n_or = 0
    stale_seen = 0
    for ci, case in enumerate(cases):
        level = case["level"]
        world, steps, term = run_one(level, case, scratch)
        terms[level].append(term)
        index[level].append(ci)
        for e in world.operator_errors:
            ctx.count("operator-raised:" + e)
        ctx.case_seen((level, case["mode"], case.get("init"), case["ops"], case["salt"]), nontrivial=len(case["ops"]) > 1)
        ctx.count(f"history:{level}:{case['mode']}")
        ctx.count(f"config:exc={case.get('exc', False)},chop={case.get('chop')},maxlen={case.get('maxlen')}")
        for s in steps:
            nm = s["op"][0] if s["op"][0] != "Member" else "Member." + s["op"][2][0]
            ctx.count(f"op:{level}:{nm}")
            if s["out"][0] == "OErr":
                ctx.count(f"err:{level}:{s['out'][1]}")
            if s["scratch"] is not None and tuple(s["scratch"]) != tuple(s["out"]):
                stale_seen += 1
        if ci == len(corpus):
            ctx.sample({"level": level, "ops": [repr(o) for o in case["ops"]],
                        "observed": [repr((s["after"], s["out"])) for s in steps[:4]]})
        if case["mode"] == "real":
            r = oracle_steps(level, steps)
            if r:
                n_or += 1
                sig, msg, k = r

                def still(ops2, case=case, sig=sig, level=level):
                    if not valid_real(ops2):
                        return False
                    try:
                        _, st2, _ = run_one(level, {**case, "ops": ops2}, scratch)
                        rr = oracle_steps(level, st2)
                    except Exception:  # noqa: BLE001
                        return False
                    return rr is not None and rr[0] == sig
                ops2 = shrink_ops(list(case["ops"][:k + 1]), still)
                ctx.fail(sig, msg, {"level": level, "mode": "real", "seed": case["seed"], "salt": case["salt"],
                                    "cons": case["cons"], "init": case.get("init", 0), "exc": case.get("exc", False),
                                    "chop": case.get("chop"), "maxlen": case.get("maxlen"), "eager": case.get("eager", False), "uexp": case.get("uexp", 0),
                                    "ops": [list(o) for o in ops2]})
    ctx.count("answers-differing-from-scratch(all modes, incl. deliberately undisciplined)", stale_seen)
    ctx.leg("S", oracle_failures=n_or, histories=sum(1 for c in cases if c["mode"] == "real"))
    ctx.cov["rule"] = ("random operation histories (3..24 ops) over real TestCaseChromosome and TestSuiteChromosome objects: "
                       "real mutation/crossover/suite edits through the real TestFactory, cloning, adding functions, queries in "
                       "random order; 'model' histories add synthetic edits with arbitrary flag handling, unregistered queries, "
                       "set_*_values, invalidate; non-trivial = more than one operation; distinct = distinct (level, ops, tables)")
    # K2
    ok_all = True
    for level, ctype, chk in (("testcase", "C12.tcase", "C12.check_tcase"), ("suite", "C12.scase", "C12.check_scase")):
        bad = ctx.run_cases(f"C12_{level}", "From Verif Require Import Models.C12.", ctype, chk, terms[level], shard=120)
        if bad is None:
            ok_all = False
        elif bad:
            ok_all = False
            ctx.leg("K2-" + level, ok=False, mismatches=len(bad))
            if n_or == 0:
                case = cases[index[level][bad[0]]]
                ctx.broken(f"correspondence:C12-model-vs-{level}-chromosome",
                           "the cache/flag model (about which the theorems are proved) no longer reproduces the implementation",
                           {"level": level, "mode": case["mode"], "seed": case["seed"], "salt": case["salt"], "cons": case["cons"],
                            "exc": case.get("exc", False), "chop": case.get("chop"), "maxlen": case.get("maxlen"), "eager": case.get("eager", False), "uexp": case.get("uexp", 0),
                            "init": case.get("init", 0), "ops": [list(o) for o in case["ops"]],
                            "mismatching_histories": len(bad)})
        else:
            ctx.leg("K2-" + level, ok=True, histories=len(terms[level]))
    ctx.assumptions += [
        "fitness/coverage functions are deterministic functions of the execution results (stub functions, table driven); "
        "executing a test case is deterministic (stub executor returns the content code)",
        "the flag discipline (every content-changing operator sets `changed`) is a hypothesis of the theorems; it is monitored "
        "on the real operators by the content-digest monitor, not proved",
        "queries are for registered functions (an unregistered query stores a foreign key in the cache; excluded by the statement)",
        "covered verdict: the cache may derive it from the fitness value (isclose(v, 0)); equality with compute_is_covered needs "
        "covered <-> fitness 0 (property C10), stated as hypothesis `consistent`",
    ]
    ctx.cov["trusted_base"] += ["hand-written model Models/C12.v tied by state-by-state history correspondence (this run)",
                                "harness/props/C12.py, _c12_impl.py (stub executor/functions, abstraction to codes, oracle)"]


def replay(ctx, path):
    vlib.setup_impl_path()
    d = json.loads(open(path).read())["replay"]
    case = {**d, "ops": load_ops(d["ops"])}
    scratch = ctx.mkscratch()
    world, steps, term = run_one(case["level"], case, scratch)
    for s in steps:
        print(s["op"], "->", s["out"], "| from scratch:", s["scratch"], "| after:", s["after"])
    print("oracle:", oracle_steps(case["level"], steps))
    chk = "C12.check_tcase" if case["level"] == "testcase" else "C12.check_scase"
    print("model agrees:", ctx.coq_eval("From Verif Require Import Models.C12.", f"{chk} {term}"))
    import shutil
    shutil.rmtree(scratch, ignore_errors=True)
    return 0
