"""C21 — kept assertions hold on the original module and preserve mutant kills.

T  static proofs (Properties/C21.v).
K2 the Coq model replays (a) random kill maps through _select_minimal_assertions, (b) scripted runs of
   AssertionGenerator._add_assertions (removal of non-holding assertions), (c) scripted and real runs
   of MutationAnalysisAssertionGenerator._handle_add_assertions (summary, metrics, score, kill maps,
   kept assertions), (d) _abort_after_first_timeout.
S  direct oracles: set-cover facts on the real function's output; score recomputed from the table;
   real pynguin runs on small modules: every kept assertion is re-executed on the unmutated module and
   the kills of the reduced assertion sets are recomputed on the same mutants.
"""
from __future__ import annotations

import concurrent.futures as cf
import contextlib
import json
import os
import types

import vlib
from vlib import cZ, cbool, clist, cnat, cpair

from props import _c21_runs as R

SRC = ["src/pynguin/assertion/assertiongenerator.py", "src/pynguin/assertion/assertiontraceobserver.py",
       "src/pynguin/assertion/assertion_trace.py"]
IMPORTS = "From Verif Require Import Models.C21."


# ---------------------------------------------------------------------------------------------
# Coq printers
def c_key(k):
    return cpair(cZ(k[0]), cZ(k[1]))


def c_kmap(km):
    return clist(cpair(c_key(k), clist(cZ(m) for m in v)) for k, v in km)


def c_cell(c):
    if c is None:
        return "None"
    return "(Some {| C21.r_timeout := %s; C21.r_viol := %s; C21.r_exc := %s |})" % (
        cbool(c[0]), clist(c_key(k) for k in c[1]), cbool(c[2]))


def c_tests(ts):
    return clist(clist(clist(cZ(a) for a in s) for s in t) for t in ts)


def c_run(o):
    stream = clist("None" if col is None else "(Some %s)" % clist(c_cell(c) for c in col) for col in o["stream"])
    infos = clist(cpair(clist(cZ(x) for x in i[0]), clist(cZ(x) for x in i[1])) for i in o["infos"])
    return ("C21.CRun {| C21.rc_tests := %s; C21.rc_stream := %s; C21.rc_cut := %s; C21.rc_lazy := %s; "
            "C21.rc_minimize := %s; C21.o_infos := %s; C21.o_metrics := %s; C21.o_score := %s; "
            "C21.o_kmaps := %s; C21.o_final := %s |}") % (
        c_tests(o["tests"]), stream, cnat(o["cut"]), cbool(o["lazy"]), cbool(o["minimize"]), infos,
        cpair(*(cZ(x) for x in o["metrics"])), cpair(cZ(o["score"][0]), cZ(o["score"][1])),
        clist(c_kmap([(tuple(k), v) for k, v in km]) for km in o["kmaps"]), c_tests(o["final"]))


# ---------------------------------------------------------------------------------------------
# (a) _select_minimal_assertions on random kill maps
def gen_kill_map(rng):
    n_keys = rng.choice([0, 1, 2, 3, 4, 6, 8, 12])
    n_mut = rng.choice([0, 1, 2, 3, 5, 8, 16, 40])
    keys = []
    while len(keys) < n_keys:
        k = (rng.randrange(0, 5), rng.randrange(0, 4))
        if k not in keys:
            keys.append(k)
    style = rng.choice(["sparse", "dense", "nested", "dup", "random"])
    km = []
    pool: list = []
    for k in keys:
        if n_mut == 0 or rng.random() < 0.15:
            s = set()
        elif style == "dup" and pool and rng.random() < 0.6:
            s = set(rng.choice(pool))
        elif style == "nested" and pool and rng.random() < 0.6:
            base = sorted(rng.choice(pool))
            s = set(base[: rng.randrange(0, len(base) + 1)])
        else:
            p = {"sparse": 0.15, "dense": 0.6}.get(style, rng.random())
            s = {m for m in range(n_mut) if rng.random() < p}
        pool.append(s)
        km.append((k, s))
    rng.shuffle(km)
    return km


def gen_structured_kill_map(rng):
    """Kill maps built by construction, not drawn uniformly.
    interlock (70 %): p >= 2 "core" assertions without private mutants, every pair of cores shares a mutant that
    only the two of them kill, every core shares one mutant with each of q >= 2 "late" assertions, every late
    assertion has a private mutant.  Greedy picks all p + q, every core is covered by the rest of the selection, but
    only as long as the other cores stay: the pruning pass may drop all cores but one.
    edges (30 %): every mutant is killed by a random pair/triple of assertions, some assertions get private mutants."""
    if rng.random() < 0.7:
        p, q = rng.choice([2, 2, 2, 3]), rng.choice([2, 2, 3])
        n = p + q
        sets = [set() for _ in range(n)]
        m = 0
        for i in range(p):
            for j in range(i + 1, p):
                sets[i].add(m); sets[j].add(m); m += 1           # interlock mutants
        for i in range(p):
            for j in range(p, n):
                sets[i].add(m); sets[j].add(m); m += 1           # core x late
        for j in range(p, n):
            sets[j].add(m); m += 1                               # private mutants of the late assertions
        pool = [(a, b) for a in range(4) for b in range(4)]
        keys = sorted(rng.sample(pool, n))
        if rng.random() < 0.3:
            rng.shuffle(keys)                                     # cores not necessarily first in key order
        extra = []
        if rng.random() < 0.3:
            rest = [k for k in pool if k not in keys]
            extra.append((rng.choice(rest), set() if rng.random() < 0.5 else set(rng.choice(sets))))
    else:
        n = rng.choice([4, 4, 5, 6, 7])
        keys = rng.sample([(a, b) for a in range(4) for b in range(4)], n)
        sets = [set() for _ in range(n)]
        m = 0
        for _ in range(rng.randrange(n, 2 * n + 3)):
            for i in rng.sample(range(n), rng.choice([2, 2, 2, 3])):
                sets[i].add(m)
            m += 1
        for i in rng.sample(range(n), rng.randrange(0, n - 1)):
            sets[i].add(m)
            m += 1
        extra = []
    if rng.random() < 0.3:                                        # relabel mutants
        perm = list(range(m))
        rng.shuffle(perm)
        sets = [{perm[x] for x in st} for st in sets]
        extra = [(k, {perm[x] for x in st}) for k, st in extra]
    km = list(zip(keys, sets)) + extra
    rng.shuffle(km)
    return km


def mutual_redundancy(km):
    """Distribution statistic only (own greedy, ascending-key tie-break): does the greedy selection contain
    two assertions that are each covered by the rest of the selection, but not once the other is gone?"""
    d = {k: set(v) for k, v in km if v}
    unc = set().union(*d.values()) if d else set()
    keep = []
    cand = dict(d)
    while unc:
        best = max(sorted(cand), key=lambda k: (len(cand[k] & unc), ), default=None)
        best = next((k for k in sorted(cand) if len(cand[k] & unc) == len(cand[best] & unc)), None)
        if best is None or not cand[best] & unc:
            break
        keep.append(best)
        unc -= cand.pop(best)
    def red(k, ks):
        others = set().union(*[d[o] for o in ks if o != k]) if len(ks) > 1 else set()
        return d[k] <= others
    for a in keep:
        for b in keep:
            if a < b and red(a, keep) and red(b, keep) and not red(a, [k for k in keep if k != b]):
                return True
    return False


def oracle_select(km, keep):
    """What the property demands of the selection: a subset that keeps the kill union.  (That no kept
    key is empty or redundant is proved of the model and tied by K2; it is not demanded here.)"""
    d = dict(km)
    if not set(keep) <= set(d):
        return "select:not-subset", f"kept keys {sorted(keep)} are not all keys of the kill map"
    full = set().union(*d.values()) if d else set()
    got = set().union(*[d[k] for k in keep]) if keep else set()
    if got != full:
        return "select:cover-lost", f"kept assertions kill {sorted(got)}, the full set kills {sorted(full)}"
    return None


# ---------------------------------------------------------------------------------------------
# scripted executors
class _FakeMP:
    def __init__(self):
        self.current = None

    def add_mutated_version(self, module_name, mutated_module):  # noqa: ARG002
        self.current = mutated_module


def make_result(ex, cell, rng):
    r = ex.ExecutionResult(timeout=cell[0])
    for (pos, idx) in cell[1]:
        (r.assertion_verification_trace.failed if rng.random() < 0.6 else r.assertion_verification_trace.error)[pos].add(idx)
    if cell[2]:
        r.report_new_thrown_exception(0, ValueError("scripted"))
    return r


def build_tests(rng, ass, tc, cst):
    """Random test cases with real Statement/Assertion objects."""
    tests = []
    n_tests = rng.choice([1, 1, 2, 3])
    uid = 0
    for _ in range(n_tests):
        t = tc.TestCase()
        for s in range(rng.choice([1, 2, 3, 4])):
            node = cst.parse_module(f"v{s} = {s}\n").body[0]
            st = tc.Statement(node=node, bound_variable=f"v{s}", bound_type=int)
            c = rng.random()
            if c < 0.15:
                st.assertions.append(ass.ExceptionAssertion(module="builtins", exception_type_name="ValueError"))
            else:
                for _a in range(rng.choice([0, 1, 1, 2, 3, 4])):
                    uid += 1
                    st.assertions.append(ass.ObjectAssertion(f"v{s}", uid))
                if st.assertions and c > 0.93:       # duplicate (equal) assertion in one statement
                    st.assertions.append(st.assertions[rng.randrange(len(st.assertions))])
                if c > 0.97:                         # exception assertion next to value assertions
                    st.assertions.append(ass.ExceptionAssertion(module="builtins", exception_type_name="KeyError"))
            t.add_statement(st)
        tests.append(t)
    return tests


def gen_stream(rng, tests, lazy):
    keys_per_test = [[(si, ai) for si, st in enumerate(t.statements()) for ai in range(len(st.assertions))] for t in tests]
    n_mut = rng.choice([0, 1, 2, 3, 5, 8, 12])
    p_viol = rng.choice([0.0, 0.1, 0.3, 0.6])
    patterns = [[sorted(k for k in keys if rng.random() < p_viol) for keys in keys_per_test] for _ in range(3)]
    stream = []
    for _ in range(n_mut):
        if rng.random() < 0.1:
            stream.append(None)
            continue
        pat = rng.choice(patterns) if rng.random() < 0.5 else [sorted(k for k in keys if rng.random() < p_viol) for keys in keys_per_test]
        col = []
        for ti in range(len(tests)):
            if not lazy and rng.random() < 0.05:
                col.append(None)
            else:
                col.append([rng.random() < 0.07, list(pat[ti]) if rng.random() < 0.9 else [], rng.random() < 0.1])
        stream.append(col)
    return stream


def scripted_handle(ctx, ag, ex, ass, tc, cst, config):
    """One scripted run of _handle_add_assertions. Returns (observation, raw stream, lazy)."""
    rng = ctx.rng
    tests = build_tests(rng, ass, tc, cst)
    lazy = rng.random() < 0.6
    raw = gen_stream(rng, tests, lazy)
    budget = rng.random() < 0.25 and len(raw) > 0
    cut = rng.randrange(0, len(raw) + 1) if budget else len(raw)
    clock = types.SimpleNamespace(now=0.0)
    consumed = []

    class Controller:
        def mutant_count(self):
            return len(raw) + 3

        def create_mutants(self):
            for j, col in enumerate(raw):
                if budget and j == cut:
                    clock.now = 1e9
                yield (None if col is None else types.SimpleNamespace(col=col, j=j)), []

    mp_ = _FakeMP()

    def execute_multiple(test_cases):
        col = mp_.current.col

        def it():
            for ti, _t in enumerate(test_cases):
                consumed.append((mp_.current.j, ti))
                yield None if col[ti] is None else make_result(ex, col[ti], rng)
        return it() if lazy else list(it())

    if lazy:
        executor = types.SimpleNamespace(module_provider=mp_, execute_multiple=execute_multiple)
    else:
        cls = type("ScriptedSubprocessExecutor", (ex.SubprocessTestCaseExecutor,), {
            "__init__": lambda self: None, "module_provider": property(lambda self: mp_),
            "execute_multiple": lambda self, tcs: execute_multiple(tcs)})
        executor = cls()
    gen = ag.MutationAnalysisAssertionGenerator.__new__(ag.MutationAnalysisAssertionGenerator)
    gen._testing = True
    gen._testing_mutation_summary = ag._MutationSummary()
    gen._mutation_controller = Controller()
    gen._mutation_executor = executor
    out_cfg = config.configuration.test_case_output
    saved = (out_cfg.maximum_mutation_time, out_cfg.assertion_minimization, config.configuration.module_name, ag.time)
    out_cfg.maximum_mutation_time = 5 if budget else -1
    out_cfg.assertion_minimization = rng.random() < 0.75
    config.configuration.module_name = "scripted"
    ag.time = types.SimpleNamespace(monotonic=lambda: clock.now)
    try:
        obs, _ = R.observe_handle(ag, gen, tests, ag.MutationAnalysisAssertionGenerator._handle_add_assertions)
    finally:
        out_cfg.maximum_mutation_time, out_cfg.assertion_minimization, config.configuration.module_name, ag.time = saved
    return obs, raw, lazy, budget, cut


def oracle_run(obs):
    """Independent checks on one observed run of the mutation phase (scripted or real)."""
    cols = [c for c in obs["stream"] if c is not None]
    cls = [R.classify(c) for c in cols]
    killed, timeout, survived = cls.count("killed"), cls.count("timeout"), cls.count("survived")
    score = obs["score_float"]
    if not (0.0 <= score <= 1.0):
        return "score:range", f"mutation score {score!r} outside [0, 1]"
    exp = 1.0 if killed + survived == 0 else killed / (killed + survived)
    if score != exp:
        return ("score:depends-on-timeout-or-unchecked",
                f"score {score!r}, but killed/(killed+survived) = {killed}/{killed + survived} "
                f"({timeout} timed out, {len(obs['stream']) - len(cols)} invalid)")
    if obs["metrics"] != [len(cols), killed, timeout]:
        return "summary:partition", f"metrics {obs['metrics']} but the table has {len(cols)} checked, {killed} killed, {timeout} timed out"
    # subset and preserved kills, per test
    for ti, (before, after) in enumerate(zip(obs["tests"], obs["final"])):
        kept_keys = set()
        ambiguous = False
        for si, (sb, sa) in enumerate(zip(before, after)):
            it = iter(range(len(sb)))
            pos = []
            for x in sa:
                p = next((i for i in it if sb[i] == x), None)
                if p is None:
                    return "subset:kept-not-subsequence", f"test {ti} statement {si}: {sa} is not a subsequence of {sb}"
                pos.append(p)
            if len(set(sb)) != len(sb):
                ambiguous = True
            kept_keys |= {(si, p) for p in pos}
        if len(before) != len(after):
            return "subset:statement-count", f"test {ti}: statement count changed"
        if ambiguous:
            continue
        all_keys = {(si, p) for si, sb in enumerate(before) for p in range(len(sb))}
        for j, col in enumerate(cols):
            if cls[j] == "timeout" or col[ti] is None:
                continue
            viol = {tuple(k) for k in col[ti][1]} & all_keys
            if viol and not (viol & kept_keys):
                return ("kills:kept-assertions-miss-mutant",
                        f"test {ti}: mutant column {j} violates assertions {sorted(viol)} of the full set, none of them is kept "
                        f"({sorted(kept_keys)})")
    return None


# ---------------------------------------------------------------------------------------------
# (b) AssertionGenerator._add_assertions with scripted executors
def scripted_add(ctx, ag, ex, ass, tc, cst, at):
    rng = ctx.rng
    n_tests = rng.choice([1, 2, 3])
    tests, traces = [], []
    uid = 0
    for _ in range(n_tests):
        t = tc.TestCase()
        trace = at.AssertionTrace()
        for s in range(rng.choice([1, 2, 3])):
            node = cst.parse_module(f"v{s} = {s}\n").body[0]
            st = tc.Statement(node=node, bound_variable=f"v{s}", bound_type=int)
            t.add_statement(st)
            for _a in range(rng.choice([0, 1, 2, 3, 5])):
                uid += 1
                trace.add_entry(s, ass.ObjectAssertion(f"v{s}", uid))
            if rng.random() < 0.12:   # statement that already carries (now duplicated) assertions
                pre = [ass.ObjectAssertion(f"v{s}", uid + 1000 + i) for i in range(rng.choice([1, 2]))]
                st.assertions.extend(pre + pre[:1])
        tests.append(t)
        traces.append(trace)
    runs = rng.choice([1, 1, 2, 3])
    steps = []  # (list before, del, list after) per statement per run
    pending = []

    def plain_exec(tcs):
        for t in tcs:
            r = ex.ExecutionResult()
            r.assertion_trace = traces[_idx(tests, t)]
            yield r

    def filt_exec(tcs):
        flush()
        out = []
        for t in tcs:
            r = ex.ExecutionResult()
            seens = seen_tables[_idx(tests, t)]
            for si, st in enumerate(t.statements()):
                n = len(st.assertions)
                dels = sorted({rng.randrange(n) for _ in range(rng.choice([0, 0, 1, 2, 3]))}) if n else []
                for p in dels:
                    (r.assertion_verification_trace.failed if rng.random() < 0.5 else r.assertion_verification_trace.error)[si].add(p)
                pending.append((st, R.codes_of_test(_One(st), seens)[0], dels, seens))
            out.append(r)
        return out

    def flush():
        for st, before, dels, seens in pending:
            steps.append((before, dels, R.codes_of_test(_One(st), seens)[0]))
        pending.clear()

    seen_tables = [[] for _ in tests]
    fake_plain = types.SimpleNamespace(
        temporarily_add_remote_observer=lambda obs: contextlib.nullcontext(), execute_multiple=plain_exec)
    fake_filter = types.SimpleNamespace(
        temporarily_add_remote_observer=lambda obs: contextlib.nullcontext(), execute_multiple=filt_exec)
    gen = ag.AssertionGenerator(fake_plain, runs, filtering_executor=fake_filter)
    gen._add_assertions(tests)
    flush()
    return steps


def _idx(items, x):
    return next(i for i, y in enumerate(items) if y is x)


class _One:
    """A one-statement view so that codes_of_test can number a single statement."""

    def __init__(self, st):
        self._st = st

    def statements(self):
        return [self._st]


# ---------------------------------------------------------------------------------------------
def real_specs(ctx, n):
    rng = ctx.rng
    specs = []
    strategies = ["FIRST_ORDER_MUTANTS", "FIRST_TO_LAST", "EACH_CHOICE", "BETWEEN_OPERATORS", "RANDOM"]
    mods = sorted(R.SUTS)
    for i in range(n):
        strat = strategies[i % len(strategies)] if i < 2 * len(strategies) else rng.choice(strategies)
        first = strat == "FIRST_ORDER_MUTANTS"
        specs.append({
            "scratch": f"/var/tmp/verif-C21-{os.getpid()}-r{i}",
            "module": mods[(i + rng.randrange(len(mods))) % len(mods)] if i >= len(mods) else mods[i],
            "seed": rng.randrange(1, 10**6),
            "algorithm": rng.choice(["DYNAMOSA", "MOSA", "RANDOM", "WHOLE_SUITE"]) if i % 3 == 2 else "DYNAMOSA",
            "iterations": rng.choice([3, 5]),
            "assertion_generation": "SIMPLE" if (i % 7 == 6) else "MUTATION_ANALYSIS",
            "strategy": strat,
            "order": 1 if first else rng.choice([2, 2, 3]),
            "max_mutants": rng.choice([-1, -1, 15]) if first else -1,
            "minimization": rng.random() < 0.8,
            "subprocess_filter": rng.random() < 0.5,
        })
    return specs


def run(ctx: vlib.Ctx):
    vlib.setup_impl_path()
    ctx.digest_sources(SRC)
    ctx.coq_static()
    if not ctx.quick:
        ctx.coqchk()

    # real runs start first (separate processes), the scripted part runs meanwhile
    n_real = 4 if ctx.quick else 30
    specs = real_specs(ctx, n_real)
    corpus = json.loads((vlib.VERIF / "corpus" / "C21.json").read_text())
    pool = cf.ThreadPoolExecutor(max_workers=5 if ctx.quick else 10)
    futures = [pool.submit(R.launch, s) for s in specs]
    stateful_spec = {"kind": "stateful", "scratch": f"/var/tmp/verif-C21-{os.getpid()}-stateful", "seed": ctx.rng.randrange(10**6),
                     "rounds": 16 if ctx.quick else 64, "module": "c21_stateful_sut", "strategy": "-", "assertion_generation": "SIMPLE"}
    stateful_future = pool.submit(R.launch, stateful_spec)

    import libcst as cst

    import pynguin.assertion.assertion as ass
    import pynguin.assertion.assertion_trace as at
    import pynguin.assertion.assertiongenerator as ag
    import pynguin.configuration as config
    import pynguin.testcase.execution as ex
    import pynguin.testcase.testcase as tc

    cases, recs = [], []   # Coq terms / python records for diagnostics
    n_fail = 0

    def add_case(term, rec, canon, nontrivial=True):
        cases.append(term)
        recs.append(rec)
        ctx.case_seen(canon, nontrivial=nontrivial)

    # (a) kill maps: corpus first
    kms = [[(tuple(k), set(v)) for k, v in c["kill_map"]] for c in corpus if c["kind"] == "select"]
    n_sel = 400 if ctx.quick else 4000
    kms += [gen_kill_map(ctx.rng) for _ in range(n_sel)]
    kms += [gen_structured_kill_map(ctx.rng) for _ in range(n_sel)]
    for km in kms:
        keep = ag._select_minimal_assertions({k: set(v) for k, v in km})
        keep_sorted = sorted(keep)
        kml = [(k, sorted(v)) for k, v in km]
        add_case(f"C21.CSel {c_kmap(kml)} {clist(c_key(k) for k in keep_sorted)}",
                 {"kind": "select", "kill_map": [[list(k), v] for k, v in kml], "keep": [list(k) for k in keep_sorted]},
                 ("sel", kml), nontrivial=any(v for _, v in km))
        ctx.count("select:keys=%d" % min(len(km), 8))
        ctx.count("select:kept=%d" % min(len(keep), 6))
        if len(km) >= 4 and mutual_redundancy(km):
            ctx.count("select:mutual-redundancy")
        r = oracle_select(km, keep)
        if r:
            n_fail += 1
            ctx.fail(r[0], r[1], {"kind": "select", "kill_map": [[list(k), sorted(v)] for k, v in km], "keep": [list(k) for k in keep_sorted]})
    ctx.sample(recs[len(corpus)] if len(recs) > len(corpus) else recs[0])

    ctx.log(f"select cases done ({len(cases)})")
    # (b) removal of non-holding assertions
    n_add = 150 if ctx.quick else 800
    for _ in range(n_add):
        for before, dels, after in scripted_add(ctx, ag, ex, ass, tc, cst, at):
            add_case(f"C21.CFilt {clist(cZ(a) for a in before)} {clist(cnat(p) for p in dels)} {clist(cZ(a) for a in after)}",
                     {"kind": "filter", "before": before, "del": dels, "after": after}, ("filt", before, dels),
                     nontrivial=bool(dels))
            ctx.count("filter:del=%d" % len(dels))
            if len(set(before)) == len(before):
                exp = [a for p, a in enumerate(before) if p not in dels]
                if after != exp:
                    n_fail += 1
                    ctx.fail("filter:wrong-removal", f"assertions {before}, failing positions {dels}: left {after}, expected {exp}",
                             {"kind": "filter", "before": before, "del": dels, "after": after})
            else:
                ctx.count("filter:duplicates")

    ctx.log(f"filter cases done ({len(cases)})")
    # (c) scripted runs of the mutation phase
    rng_pad = ctx.rng
    n_run = 250 if ctx.quick else 2500
    for i in range(n_run):
        obs, raw, lazy, budget, cut = scripted_handle(ctx, ag, ex, ass, tc, cst, config)
        add_case(c_run(obs), {"kind": "scripted-run", **{k: obs[k] for k in ("tests", "stream", "minimize", "infos", "metrics", "score_float", "kmaps", "final")}},
                 ("run", obs["tests"], obs["stream"], obs["minimize"]), nontrivial=bool(obs["infos"]))
        ctx.count("run:lazy" if lazy else "run:subprocess")
        ctx.count("run:minimize" if obs["minimize"] else "run:relevant-only")
        if budget:
            ctx.count("run:budget-cut" if len(obs["stream"]) == cut else "run:budget-not-effective")
        for col_raw, col_obs in zip(raw, obs["stream"]):
            if col_raw is None or col_obs is None:
                if (col_raw is None) != (col_obs is None):
                    ctx.broken("correspondence:invalid-mutant-column", "an invalid mutant got a column (or a valid one none)",
                               {"raw": col_raw, "observed": col_obs})
                continue
            ctx.count("class:" + R.classify(col_obs))
            if lazy and (any(c and c[0] for c in col_raw) or rng_pad.random() < 0.25):
                add_case(f"C21.CPad {clist(c_cell(c) for c in col_raw)} {clist(c_cell(c) for c in col_obs)}",
                         {"kind": "pad", "raw": col_raw, "observed": col_obs}, ("pad", col_raw), nontrivial=any(c and c[0] for c in col_raw))
        r = oracle_run(obs)
        if r:
            n_fail += 1
            ctx.fail(r[0], r[1], {"kind": "scripted-run", "observation": obs})
        if i == 3:
            ctx.sample({k: obs[k] for k in ("tests", "stream", "minimize", "infos", "metrics", "score_float", "final")})

    ctx.log(f"scripted runs done ({len(cases)})")
    # (d) real runs
    real_stats: dict = {}
    n_real_ok = 0
    for fut, spec in zip(futures, specs):
        try:
            res = fut.result(timeout=1500)
        except Exception as e:  # noqa: BLE001
            ctx.notes.append(f"real run {spec['module']}/{spec['strategy']} did not finish: {type(e).__name__}: {e}")
            ctx.count("real:worker-lost")
            continue
        if res["error"]:
            ctx.notes.append(f"real run {spec['module']}/{spec['strategy']} error: {res['error'][:400]}")
            ctx.count("real:error")
            continue
        n_real_ok += 1
        ctx.count("real:" + spec["strategy"])
        ctx.count("real:" + spec["assertion_generation"])
        for k, v in res["stats"].items():
            real_stats[k] = real_stats.get(k, 0) + v
        for f in res["fails"]:
            n_fail += 1
            ctx.fail(f["signature"], f["what"], f["replay"])
        for obs in res["cases"]:
            add_case(c_run(obs), {"kind": "real-run", "spec": spec, **{k: obs[k] for k in ("tests", "minimize", "infos", "metrics", "score_float", "kmaps", "final")}},
                     ("real", spec["module"], spec["seed"], obs["tests"]), nontrivial=bool(obs["infos"]))
            r = oracle_run(obs)
            if r:
                n_fail += 1
                ctx.fail(r[0], r[1], {"kind": "real-run", "spec": spec, "observation": obs})
            for km in obs["kmaps"]:
                ctx.count("real:kill-map")
    try:
        sres = stateful_future.result(timeout=900)
    except Exception as e:  # noqa: BLE001
        sres = {"error": f"{type(e).__name__}: {e}", "fails": [], "stats": {}}
    if sres["error"]:
        ctx.broken("stateful-runs", "the stateful re-execution runs did not complete", {"error": sres["error"][:1500]})
    for f in sres["fails"]:
        n_fail += 1
        ctx.fail(f["signature"], f["what"], f["replay"])
    for k, v in sres["stats"].items():
        real_stats[k] = real_stats.get(k, 0) + v
    ctx.case_seen(("stateful", stateful_spec["seed"]), nontrivial=sres["stats"].get("stateful_raise_on_rerun", 0) > 0)
    pool.shutdown(wait=False, cancel_futures=True)
    ctx.leg("S", oracle_failures=n_fail, real_runs=n_real_ok, real=real_stats)
    if n_real_ok < max(1, n_real // 2):
        ctx.broken("real-runs", "fewer than half of the real assertion-generation runs completed", {"notes": ctx.notes[-5:]})
    ctx.cov["rule"] = ("random kill maps (0-12 keys, 0-40 mutants; empty/duplicate/nested sets, ties) through the real "
                       "_select_minimal_assertions; scripted AssertionGenerator._add_assertions runs (1-3 filtering runs); scripted "
                       "_handle_add_assertions runs (invalid mutants, timeouts, exceptions, budget cut, in-process and subprocess "
                       "executor shape, with and without minimisation); real pynguin runs on 4 small modules with first-order, "
                       "capped and four higher-order strategies. A case is non-trivial when it has a non-empty kill set / a failing "
                       "position / at least one checked mutant; distinct = distinct inputs")

    ctx.log(f"real runs done: {n_real_ok}/{n_real} {real_stats}")
    # K2
    bad = ctx.run_cases("C21_cases", IMPORTS, "C21.case", "C21.check_case", cases, shard=250)
    if bad is None:
        pass
    elif bad:
        ctx.leg("K2", ok=False, mismatches=len(bad))
        if n_fail == 0:
            ctx.broken("correspondence:C21-model-vs-assertiongenerator",
                       "the model of the assertion generator (about which the theorems are proved) no longer reproduces the implementation",
                       {"first": recs[bad[0]], "mismatching_cases": len(bad), "kinds": sorted({recs[b]["kind"] for b in bad})})
    else:
        ctx.leg("K2", ok=True, cases=len(cases))
    ctx.assumptions += [
        "assertion checks are side-effect free and deterministic on the corpus modules: removing an assertion does not change "
        "the outcome of the others (monitored by re-execution on real runs, not proved)",
        "mutant indices and assertion keys are abstracted to integers; equal assertions get equal codes",
        "the float returned by get_score is the correctly rounded quotient of the model's exact rational (checked per case to 2^-53)",
    ]
    ctx.cov["trusted_base"] += ["hand-written model Models/C21.v tied by correspondence on scripted and real runs (this run)",
                                "harness/props/C21.py, _c21_runs.py (scripted executors, abstraction to codes, oracles)",
                                "CPython int/int true division is correctly rounded"]


def replay(ctx, path):
    vlib.setup_impl_path()
    d = json.loads(open(path).read())["replay"]
    import pynguin.assertion.assertiongenerator as ag

    kind = d.get("kind")
    if kind == "select":
        km = {tuple(k): set(v) for k, v in d["kill_map"]}
        keep = ag._select_minimal_assertions(dict(km))
        print("implementation keeps:", sorted(keep))
        print("oracle:", oracle_select(list(km.items()), keep))
        kml = [(k, sorted(v)) for k, v in km.items()]
        print("model:", ctx.coq_eval(IMPORTS, f"C21.select {c_kmap(kml)}"))
    elif kind in ("scripted-run", "real-run") and "observation" in d:
        print("oracle:", oracle_run(d["observation"]))
        print("model agrees:", ctx.coq_eval(IMPORTS, "C21.check_case (%s)" % c_run(d["observation"])))
    elif "spec" in d:
        spec = dict(d["spec"], scratch=f"/var/tmp/verif-C21-replay-{os.getpid()}")   # kind "stateful" is dispatched by the worker
        res = R.launch(spec)
        print("failures:", json.dumps(res["fails"], indent=1, default=repr)[:4000])
        print("stats:", res["stats"], "error:", res["error"])
    else:
        print(json.dumps(d, indent=1)[:4000])
    return 0
