"""C13 helper: drives the REAL CoverageArchive / MIOPopulation / MIOArchive / _GoalsManager.update with
real TestCaseChromosome objects whose fitness is table driven, and observes real search runs."""
from __future__ import annotations

HMAX = 1000
# model fitness (integer) -> fitness float of the stub functions.  Model value 1 is a NEAR MISS: a tiny
# non-zero float (TINY is set per case: 5e-324, 5.55e-17, 1e-12, just below / above 1e-9); it is not 0,
# so it must never count as covered, and it is better than every other non-zero value.
TINY = 1e-12
_FLOATS = {0: 0.0, 2: 1.0, 4: 2.0, 6: 3.0, 10: 5.0}


def set_tiny(x):
    global TINY
    TINY = float(x) if x else 1e-12


def floatof(m):
    return TINY if m == 1 else _FLOATS[m]


class Res:
    """Stub ExecutionResult with a controllable status."""

    def __init__(self, st, pos):
        self.st, self.pos = st, pos
        self.timeout = st == "Timeout"
        self.execution_trace = ("trace", st, pos)

    def has_test_exceptions(self):
        return self.st == "Exc"

    def get_first_position_of_thrown_exception(self):
        return self.pos if self.st == "Exc" else None


def sid_of(ch) -> int:
    return int(ch.test_case.to_code().splitlines()[0].split("=")[1])


def status_of(ch) -> str:
    r = ch.get_last_execution_result()
    if r is None:
        return "NoRes"
    if r.timeout:
        return "Timeout"
    if r.has_test_exceptions():
        return "Exc"
    return "Clean"


class World:
    """Goals (stub fitness functions) and synthetic solutions of one history."""

    def __init__(self, n_goals, sols):
        import pynguin.ga.computations as ff

        self.sols = {s["sid"]: s for s in sols}
        world = self

        class Goal(ff.TestCaseFitnessFunction):
            def __init__(self, gid):
                super().__init__(None, gid)
                self.gid = gid

            def compute_fitness(self, individual):
                return floatof(world.sols[sid_of(individual)]["fit"].get(self.gid, 1))

            def compute_is_covered(self, individual):
                return world.sols[sid_of(individual)]["fit"].get(self.gid, 1) == 0

            def is_maximisation_function(self):
                return False

            def __repr__(self):
                return f"G{self.gid}"

        self.goals = [Goal(g) for g in range(n_goals)]

    def chrom(self, sid):
        import libcst as cst

        from pynguin.ga.testcasechromosome import TestCaseChromosome
        from pynguin.testcase.testcase import Statement, TestCase

        s = self.sols[sid]
        t = TestCase()
        for k in range(s["size"]):
            v = sid if k == 0 else k
            t.add_statement(Statement(node=cst.parse_statement(f"var_{k} = {v}"), bound_variable=f"var_{k}", bound_type=int))
        ch = TestCaseChromosome(t, None)
        for g in self.goals:
            ch.add_fitness_function(g)
        if s["st"] != "NoRes":
            ch.set_last_execution_result(Res(s["st"], s["pos"]))
        return ch

    def covers(self, sid, g):
        return self.sols[sid]["fit"].get(g, 1) == 0


def obs_sol(ch):
    return (sid_of(ch), ch.size(), status_of(ch))


class LogDict(dict):
    """dict that logs every assignment (key, old value, new value)."""

    def __init__(self, *a):
        super().__init__(*a)
        self.log = []

    def __setitem__(self, k, v):
        self.log.append((k, self.get(k), v))
        super().__setitem__(k, v)


def obs_arch(a, fired):
    return {"covered": [(g.gid, obs_sol(s)) for g, s in a._covered.items()],
            "uncovered": [g.gid for g in a._uncovered], "objectives": [g.gid for g in a._objectives],
            "fired": list(fired)}


def run_arch_history(n_goals, sols, init_objs, ops):
    """ops: ("Update", [sid...]) | ("AddGoals", [g...]).  Returns steps with before/after/out/assignments."""
    from pynguin.ga.algorithms.archive import CoverageArchive
    from pynguin.utils.orderedset import OrderedSet

    w = World(n_goals, sols)
    a = CoverageArchive(OrderedSet(w.goals[g] for g in init_objs))
    a._covered = LogDict(a._covered)
    fired = []
    a.add_on_target_covered(lambda t: fired.append(t.gid))
    steps = []
    for op in ops:
        before = obs_arch(a, fired)
        a._covered.log.clear()
        if op[0] == "Update":
            chroms = [w.chrom(s) for s in op[1]]
            if len(op) > 2 and op[2]:          # fitness is computed before the archive sees the tests
                for c in chroms:
                    c.get_fitness()
            out = ("ABool", bool(a.update(chroms)))
        else:
            a.add_goals(OrderedSet(w.goals[g] for g in op[1]))
            out = ("AUnit",)
        assigns = [(k.gid, None if o is None else obs_sol(o), obs_sol(n)) for k, o, n in a._covered.log]
        steps.append({"op": op, "before": before, "after": obs_arch(a, fired), "out": out, "assigns": assigns,
                      "offered": list(op[1]) if op[0] == "Update" else []})
    return w, steps


class Hang(Exception):
    pass


class watchdog:
    """Turns a non-terminating call into an exception (generous limit; model time is not compared)."""

    def __init__(self, seconds, what):
        self.seconds, self.what = seconds, what

    def __enter__(self):
        import signal

        def handler(signum, frame):
            raise Hang(self.what)
        self.old = signal.signal(signal.SIGALRM, handler)
        signal.alarm(self.seconds)

    def __exit__(self, *exc):
        import signal

        signal.alarm(0)
        signal.signal(signal.SIGALRM, self.old)
        return False


class StubGraph:
    def __init__(self, world, edges):
        self.world, self.edges = world, edges

    def get_structural_children(self, goal):
        from pynguin.utils.orderedset import OrderedSet

        return OrderedSet(self.world.goals[c] for c in self.edges.get(goal.gid, []))


def run_gm_case(n_goals, sols, edges, roots, pre_updates, update_sids, prefit=False):
    """The real _GoalsManager.update on a stub goal graph.  pre_updates: earlier update calls that bring
    the manager into a reachable state.  Returns (before, after) of the last call."""
    from pynguin.ga.algorithms.archive import CoverageArchive
    from pynguin.ga.algorithms.dynamosaalgorithm import _GoalsManager
    from pynguin.utils.orderedset import OrderedSet

    w = World(n_goals, sols)
    a = CoverageArchive(OrderedSet())
    fired = []
    a.add_on_target_covered(lambda t: fired.append(t.gid))
    m = object.__new__(_GoalsManager)
    m._archive = a
    m._graph = StubGraph(w, edges)
    m._current_goals = OrderedSet(w.goals[g] for g in roots)
    a.add_goals(m._current_goals)
    for sids in pre_updates:
        with watchdog(20, "_GoalsManager.update does not terminate"):
            m.update([w.chrom(s) for s in sids])

    def obs():
        return {"arch": obs_arch(a, fired), "current": [g.gid for g in m._current_goals]}
    before = obs()
    chroms = [w.chrom(s) for s in update_sids]
    if prefit:
        for c in chroms:
            c.get_fitness()
    with watchdog(20, "_GoalsManager.update does not terminate"):
        m.update(chroms)
    return w, before, obs()


# ------------------------------------------------------------------------------------------------
def hcode_of_float(h, table):
    return table.get(h, -1)


def h_table():
    from pynguin.ga.fitness_metrics import normalise

    import math

    tab = {}
    for m in (0, 1, 2, 4, 6, 10):
        h = 1.0 - normalise(floatof(m))
        if m > 0 and h >= 1.0:      # after fix C13-mio-tiny-fitness-covered: clamped below 1.0
            h = math.nextafter(1.0, 0.0)
        tab[h] = HMAX // (1 + m)
    return tab


def obs_pop(p, code):
    return {"capacity": p._capacity, "sols": [(code(x.h), obs_sol(x.test_case_chromosome)) for x in p._solutions],
            "covered": bool(p.is_covered)}


def run_pop_history(sols, capacity, ops):
    """ops: ("Add", hcode, sid) | ("Shrink", n) on a real MIOPopulation; h = hcode/1000."""
    from pynguin.ga.algorithms.archive import MIOPopulation

    w = World(1, sols)
    p = MIOPopulation(capacity)

    def code(h):
        return round(h * HMAX)
    steps = []
    for op in ops:
        before = obs_pop(p, code)
        if op[0] == "Add":
            out = ("ABool", bool(p.add_solution(op[1] / HMAX, w.chrom(op[2]))))
        else:
            p.shrink_population(op[1])
            out = ("AUnit",)
        steps.append({"op": op, "before": before, "after": obs_pop(p, code), "out": out})
    return w, steps


def obs_march(a, fired, code):
    return {"pops": [(t.gid, obs_pop(p, code)) for t, p in a._archive.items()], "fired": list(fired)}


def run_mio_history(n_goals, sols, capacity, ops):
    """ops: ("Update", [sid...]) | ("Shrink", n) on a real MIOArchive."""
    from pynguin.ga.algorithms.archive import MIOArchive
    from pynguin.utils.orderedset import OrderedSet

    w = World(n_goals, sols)
    a = MIOArchive(OrderedSet(w.goals), capacity)
    fired = []
    a.add_on_target_covered(lambda t: fired.append(t.gid))
    tab = h_table()

    def code(h):
        return tab.get(h, -1)
    steps = []
    for op in ops:
        before = obs_march(a, fired, code)
        if op[0] == "Update":
            out = ("ABool", bool(a.update([w.chrom(s) for s in op[1]])))
        else:
            a.shrink_solutions(op[1])
            out = ("AUnit",)
        after = obs_march(a, fired, code)
        sol_sets = [s for s in a.solutions]
        steps.append({"op": op, "before": before, "after": after, "out": out,
                      "solutions": sorted(obs_sol(s)[0] for s in sol_sets),
                      "num_covered": a.num_covered_targets})
    return w, steps


# ------------------------------------------------------------------------------------------------
# real search runs (executed in a forked child by harness/pipeline.py)
def install_observers(algorithm, executor, cluster, job):
    """pipeline `pre` hook: wrap the archive classes; records go to job['_rec']."""
    import pynguin.ga.algorithms.archive as arch
    import pynguin.ga.algorithms.dynamosaalgorithm as dyn

    rec = {"arch": [], "gm": [], "pop": [], "reexec": [], "reexec_checked": 0, "alive": []}
    job["_rec"] = rec
    gidx, sidx = {}, {}

    def gi(g):
        if g not in gidx:
            gidx[g] = len(gidx)
        return gidx[g]

    def si(s):
        k = id(s)
        if k not in sidx:
            sidx[k] = len(sidx)
            rec["alive"].append(s)
        return sidx[k]

    def osol(s, objs=None):
        cov = [] if objs is None else [gi(g) for g in objs if s.get_is_covered(g)]   # executes s if necessary
        st = status_of(s)
        r = s.get_last_execution_result()
        pos = (r.get_first_position_of_thrown_exception() or 0) if st == "Exc" else 0
        return {"sid": si(s), "size": s.size(), "st": st, "pos": pos, "cov": cov}

    fired = []

    def dig(s):
        import zlib

        return zlib.crc32(s.test_case.to_code().encode())

    def oarch(a):
        return {"covered": [(gi(g), {**osol(s), "dig": dig(s)}) for g, s in a._covered.items()],
                "uncovered": [gi(g) for g in a._uncovered], "objectives": [gi(g) for g in a._objectives],
                "fired": list(fired)}

    if job.get("near_miss"):
        # seed the search with a test that NEARLY takes a float-equality branch: check(0.3) against
        # x == 0.1 + 0.2, branch distance 5.55e-17 (not zero)
        try:
            from pynguin.testcase.localsearchstatement import set_literal_value

            real_factory = algorithm.chromosome_factory
            near = None
            for _ in range(400):
                cand = real_factory.get_chromosome()
                st = cand.test_case.statements()
                if (len(st) == 2 and st[0].bound_type is float and ".check(" in cand.test_case.to_code()
                        and set_literal_value(cand.test_case, 0, 0.3)):
                    near = cand
                    break
            if near is not None:
                near.changed = True

                class Seeded:
                    def __init__(self):
                        self.first = True

                    def get_chromosome(self):
                        if self.first:
                            self.first = False
                            return near
                        return real_factory.get_chromosome()

                algorithm.chromosome_factory = Seeded()
                rec["near_miss_injected"] = True
        except Exception as e:  # noqa: BLE001
            rec["near_miss_error"] = f"{type(e).__name__}: {e}"

    if job.get("twice_seed"):
        # seed the search with tests that call one bool-guarded function TWICE with the same variable (the
        # predicate is executed twice by one test): local search flips the literal, the trial ties and is rejected
        try:
            import libcst as cst

            from pynguin.testcase.localsearchstatement import set_literal_value
            from pynguin.testcase.testcase import Statement

            real_factory = algorithm.chromosome_factory
            seeded, seen = [], set()
            for _ in range(1500):
                cand = real_factory.get_chromosome()
                st = cand.test_case.statements()
                if len(st) != 2 or st[0].bound_type is not bool or st[1].accessible is None:
                    continue
                call = cst.Module([]).code_for_node(st[1].node).strip()
                fn = call.split("(")[0].split(".")[-1]
                if fn in seen or not call.startswith(st[1].bound_variable + " = ") or not set_literal_value(cand.test_case, 0, True):
                    continue
                second = call.replace(st[1].bound_variable + " = ", "var_9 = ", 1)
                cand.test_case.add_statement(Statement(node=cst.parse_statement(second), bound_variable="var_9",
                                                       bound_type=st[1].bound_type, accessible=st[1].accessible))
                cand.changed = True
                seen.add(fn)
                seeded.append(cand)
                if len(seeded) >= job.get("twice_seed"):
                    break

            class SeededMany:
                def get_chromosome(self):
                    return seeded.pop(0) if seeded else real_factory.get_chromosome()

            rec["twice_seeded"] = len(seeded)
            algorithm.chromosome_factory = SeededMany()
        except Exception as e:  # noqa: BLE001
            rec["near_miss_error"] = f"{type(e).__name__}: {e}"

    a = getattr(algorithm, "_archive", None)
    if isinstance(a, arch.CoverageArchive):
        a.add_on_target_covered(lambda t: fired.append(gi(t)))
    limit = job.get("max_records", 400)

    def covers_again(s, check):
        """Re-execute a fresh clone; a verdict counts only if the execution did not time out (timeouts
        depend on machine load).  Not covering must be reproduced three times to be reported."""
        misses = 0
        for _ in range(3):
            c = s.clone()
            c.changed = True
            ok = check(c)
            r = c.get_last_execution_result()
            if r is not None and r.timeout and not ok:
                rec["reexec_inconclusive"] = rec.get("reexec_inconclusive", 0) + 1
                return True
            if ok:
                return True
            misses += 1
        return misses < 3

    def reexecute(a):
        for g, s in list(a._covered.items()):
            rec["reexec_checked"] += 1
            if not covers_again(s, lambda c, g=g: c.get_is_covered(g)):
                rec["reexec"].append({"goal": gi(g), "code": s.test_case.to_code(), "sid": si(s)})

    orig_update = arch.CoverageArchive.update

    def update(self, solutions):
        solutions = list(solutions)
        if self is not a:
            return orig_update(self, solutions)
        if len(rec["arch"]) >= limit:          # no more records, but archived tests are still re-executed
            out = orig_update(self, solutions)
            if job.get("reexecute", True):
                reexecute(self)
            return out
        sols = [osol(s, self._objectives) for s in solutions]
        before = oarch(self)
        out = orig_update(self, solutions)
        rec["arch"].append({"op": ("Update", sols), "before": before, "after": oarch(self), "out": ("ABool", bool(out))})
        if job.get("reexecute", True):
            reexecute(self)
        return out

    orig_add = arch.CoverageArchive.add_goals

    def add_goals(self, new_goals):
        if self is not a or len(rec["arch"]) >= limit:
            return orig_add(self, new_goals)
        gs = [gi(g) for g in new_goals]
        before = oarch(self)
        orig_add(self, new_goals)
        rec["arch"].append({"op": ("AddGoals", gs), "before": before, "after": oarch(self), "out": ("AUnit",)})

    arch.CoverageArchive.update = update
    arch.CoverageArchive.add_goals = add_goals

    orig_gm = dyn._GoalsManager.update

    def gm_update(self, solutions):
        if len(rec["gm"]) >= 60:
            return orig_gm(self, solutions)
        solutions = list(solutions)
        nodes = list(self._graph._graph.nodes)
        sols = [osol(s, nodes) for s in solutions]
        graph = [(gi(n), [gi(c) for c in self._graph.get_structural_children(n)]) for n in nodes]
        before = {"arch": oarch(self._archive), "current": [gi(g) for g in self._current_goals]}
        orig_gm(self, solutions)
        rec["gm"].append({"graph": graph, "sols": sols, "before": before,
                          "after": {"arch": oarch(self._archive), "current": [gi(g) for g in self._current_goals]}})

    dyn._GoalsManager.update = gm_update

    # MIO populations
    def opop(p, code):
        return {"capacity": p._capacity, "sols": [(code(x.h), osol(x.test_case_chromosome)) for x in p._solutions],
                "covered": bool(p.is_covered)}

    orig_addsol = arch.MIOPopulation.add_solution

    def add_solution(self, h, chromosome):
        if len(rec["pop"]) >= limit:
            return orig_addsol(self, h, chromosome)
        hs = sorted({x.h for x in self._solutions} | {h})
        inner = [x for x in hs if 0.0 < x < 1.0]

        def code(x):
            if x == 0.0:
                return 0
            if x == 1.0:
                return HMAX
            return 1 + inner.index(x) if x in inner else -1
        before = opop(self, code)
        cand = osol(chromosome)
        out = orig_addsol(self, h, chromosome)
        rec["pop"].append({"op": ("Add", code(h), cand), "before": before, "after": opop(self, code), "out": ("ABool", bool(out)),
                           "h_in_range": 0.0 <= h <= 1.0})
        return out

    orig_shrink = arch.MIOPopulation.shrink_population

    def shrink_population(self, n):
        if len(rec["pop"]) >= limit:
            return orig_shrink(self, n)
        hs = sorted({x.h for x in self._solutions})
        inner = [x for x in hs if 0.0 < x < 1.0]

        def code(x):
            return 0 if x == 0.0 else HMAX if x == 1.0 else 1 + inner.index(x)
        before = opop(self, code)
        orig_shrink(self, n)
        rec["pop"].append({"op": ("Shrink", n), "before": before, "after": opop(self, code), "out": ("AUnit",), "h_in_range": True})

    arch.MIOPopulation.add_solution = add_solution
    arch.MIOPopulation.shrink_population = shrink_population

    if isinstance(a, arch.MIOArchive):
        orig_mupdate = arch.MIOArchive.update

        def mupdate(self, solutions):
            out = orig_mupdate(self, solutions)
            if job.get("reexecute", True):
                for t, p in self._archive.items():
                    s = p.get_best_solution_if_any()
                    if s is not None:
                        rec["reexec_checked"] += 1
                        if not covers_again(s, lambda c, t=t: c.get_fitness_for(t) == 0.0):
                            rec["reexec"].append({"goal": gi(t), "code": s.test_case.to_code(), "sid": si(s)})
            return out

        arch.MIOArchive.update = mupdate


def extract(algorithm, suite, executor, cluster, job):
    rec = job["_rec"]
    return {"job": {k: v for k, v in job.items() if k not in ("_rec", "pre")},
            "arch": rec["arch"], "gm": rec["gm"], "pop": rec["pop"], "reexec": rec["reexec"],
            "reexec_checked": rec["reexec_checked"], "reexec_inconclusive": rec.get("reexec_inconclusive", 0),
            "near_miss_injected": rec.get("near_miss_injected", False), "twice_seeded": rec.get("twice_seeded", 0), "near_miss_error": rec.get("near_miss_error")}
