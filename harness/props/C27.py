"""C27 — the test cluster holds exactly the module's eligible callables.

T   static proofs (Properties/C27.v) over names = arbitrary strings.
K1a the four visibility predicates are translated from module.py (props/_c27_py2v.py) on every run;
    the generated definitions are proved equal to the hand model (Gen_C27.v, compiled with coq_dyn).
K2  (a) the real predicates on ALL strings up to a length bound over {_, a, A, 1, é, -} plus random
        identifiers, compared inside Coq with the model;
    (b) generated modules: the callables of the imported module are abstracted with `inspect` into
        C27.member records, Coq decides under_test for each and compares with the real cluster.
S   independent oracles: name classes by regular expression; expected members from the `ast`.
"""
from __future__ import annotations

import itertools
import json
import logging
import warnings

import vlib
from vlib import cbool, clist

from props import _c27_lib as L
from props import _c27_py2v as T

SRC = ["src/pynguin/analyses/module.py"]
IMPORTS = "From Verif Require Import Models.C27.\nImport C27. Open Scope N_scope."
ALPHABET = ["_", "a", "A", "1", "é", "-"]
VIS = ["PUBLIC", "PROTECTED", "ALL"]


def cname(s: str) -> str:
    return "[" + "; ".join(str(ord(c)) for c in s) + "]"


def real_predicates(names):
    """Answers of the real module-private helpers for each name."""
    import pynguin.analyses.module as m
    import pynguin.configuration as config

    is_priv = getattr(m, "__is_private")
    is_prot = getattr(m, "__is_protected")
    is_mang = getattr(m, "__is_name_mangled")
    skip = getattr(m, "__should_skip_by_visibility")
    old = config.configuration.element_visibility
    res = []
    try:
        for n in names:
            row = []
            for att in (True, False):
                for v in VIS:
                    config.configuration.element_visibility = config.ElementVisibility(v)
                    row.append(bool(skip(n, add_to_test=att)))
            res.append((n, bool(is_priv(n)), bool(is_prot(n)), bool(is_mang(n)), row))
    finally:
        config.configuration.element_visibility = old
    return res


def c_name_obs(r):
    n, a, b, c, row = r
    return (f"{{| o_name := {cname(n)}; o_private := {cbool(a)}; o_protected := {cbool(b)}; "
            f"o_mangled := {cbool(c)}; o_skip := {clist(map(cbool, row))} |}}")


def c_member(mb, verdict):
    return (f"({{| m_kind := {mb['kind']}; m_name := {cname(mb['name'])}; m_own := {cbool(mb['own'])}; "
            f"m_reached := {cbool(mb['reached'])}; m_async := {cbool(mb['async'])}; m_listed := {cbool(mb['listed'])}; "
            f"m_main_test := {cbool(mb['main_test'])} |}}, {cbool(verdict)})")


def c_case(case, observed, members):
    obs_keys = {tuple(e[:4]) for e in observed if e[0] != "other"}
    rows = []
    mkeys = set()
    for mb in members:
        mkeys.add(mb["key"])
        rows.append(c_member(mb, mb["key"] in obs_keys))
    for k in sorted(obs_keys - mkeys):
        # an object under test that the abstraction does not know: force a mismatch
        rows.append(c_member({"kind": "Function", "name": "?", "own": False, "reached": False, "async": False,
                              "listed": False, "main_test": False}, True))
    return f"{{| c_vis := {case['visibility']}; c_members := {clist(rows)} |}}"


def shrink(case, sig, scratch, counter):
    """Drop top-level statements / class members while the signature persists."""
    import ast

    def fails(c):
        try:
            ast.parse(c["sut"])
            counter[0] += 1
            obs, _, rt = L.run_impl(c, scratch)
            return any(s == sig for s, _ in L.judge(c, obs, rt))
        except Exception:
            return False

    cur = dict(case)
    changed = True
    while changed:
        changed = False
        tree = ast.parse(cur["sut"])
        lines = cur["sut"].splitlines()
        cands = []
        for n in ast.walk(tree):
            body = getattr(n, "body", None)
            if isinstance(body, list) and len(body) > 1 and isinstance(n, (ast.Module, ast.ClassDef)):
                for st in body[(6 if isinstance(n, ast.Module) else 0):]:
                    lo = min([st.lineno] + [d.lineno for d in getattr(st, "decorator_list", [])])
                    cands.append((lo, st.end_lineno))
        for lo, hi in sorted(cands, key=lambda r: r[0] - r[1]):
            cand = dict(cur, sut="\n".join(lines[:lo - 1] + lines[hi:]) + "\n")
            if fails(cand):
                cur, changed = cand, True
                break
    return cur


def run(ctx: vlib.Ctx):
    vlib.setup_impl_path()
    warnings.simplefilter("ignore")
    logging.disable(logging.WARNING)
    ctx.digest_sources(SRC)
    ctx.coq_static()
    if not ctx.quick:
        ctx.coqchk()
    ctx.log("static development built")
    # ---- K1a: translator -------------------------------------------------------------------
    try:
        gen = T.translate(ctx.repo / SRC[0])
        p = ctx.work / "Gen_C27.v"
        p.write_text(gen)
        ctx.coq_dyn([p], "visibility predicates translated from module.py")
    except T.Untranslatable as e:
        ctx.leg("K1", ok=False, error=str(e))
        ctx.broken("translator:C27-visibility-predicates",
                   "the visibility predicates of module.py left the translatable fragment", {"error": str(e)})
    # ---- K2a / S: predicates on all short strings ------------------------------------------------
    maxlen = 4 if ctx.quick else 6
    names = ["".join(t) for k in range(maxlen + 1) for t in itertools.product(ALPHABET, repeat=k)]
    parts = ["_", "__", "a", "Ab", "x1", "Foo", "_Foo", "9", "é", "b_c", "___", "Z"]
    for _ in range(400 if ctx.quick else 4000):
        names.append("".join(ctx.rng.choice(parts) for _ in range(ctx.rng.choice([1, 2, 3, 4, 6]))))
    names += ["_Foo__bar", "_Foo__bar__", "__init__", "_", "__", "___", "____", "_a__b", "_1a__b", "_a__", "_a___", "_aB9__x_y",
              "_Foo__bé", "_Föo__bar", "_Foo__bar\n", "_Foo__b-r", "<lambda>", "__x", "x__", "_x_"]
    names = list(dict.fromkeys(names))
    rows = real_predicates(names)
    n_bad = 0
    for n, a, b, c, row in rows:
        ctx.case_seen(("name", n), nontrivial=len(n) > 0)
        ctx.count("nameclass:" + L.name_class(n))
        for i, v in enumerate(VIS):
            if row[i] != (not L.eligible(n, v)):
                n_bad += 1
                ctx.fail(f"visibility:skip-vs-eligible:{v}",
                         f"__should_skip_by_visibility({n!r}, add_to_test=True) under {v} is {row[i]}, "
                         f"name class is {L.name_class(n)}", {"name": n, "visibility": v})
                break
            if row[3 + i] != (L.name_class(n) in ("private", "protected", "mangled")):
                n_bad += 1
                ctx.fail("visibility:dependency-skip", f"__should_skip_by_visibility({n!r}, add_to_test=False) is {row[3 + i]}",
                         {"name": n, "visibility": v})
                break
    bad = ctx.run_cases("C27_names", IMPORTS, "name_obs", "check_name", [c_name_obs(r) for r in rows], shard=600)
    if bad:
        ctx.leg("K2a", ok=False, mismatches=len(bad))
        if n_bad == 0:
            ctx.broken("correspondence:C27-predicates", "the model of the visibility predicates no longer reproduces module.py",
                       {"names": [rows[i][0] for i in bad[:10]], "implementation": [rows[i][1:] for i in bad[:10]]})
    elif bad is not None:
        ctx.leg("K2a", ok=True, names=len(rows), exhaustive_up_to_length=maxlen, alphabet="".join(ALPHABET))
    ctx.log(f"{len(rows)} names compared")
    # ---- K2b / S: generated modules ----------------------------------------------------------------
    scratch = ctx.mkscratch()
    corpus = json.loads((vlib.VERIF / "corpus" / "C27.json").read_text())
    cases = [dict(c["case"]) for c in corpus]
    n_gen = 40 if ctx.quick else 250
    for k in range(n_gen):
        cases.append(L.gen_case(ctx.rng, k))
    coq_cases, recs, seen_sigs, n_fail = [], [], set(), 0
    counter = [0]
    known = vlib.load_findings("C27")
    for case in cases:
        try:
            observed, members, rt = L.run_impl(case, scratch)
        except Exception as e:
            ctx.fail(f"analysis-crash:{type(e).__name__}", f"generate_test_cluster failed: {type(e).__name__}: {e}", {"case": case})
            continue
        ctx.case_seen((case["sut"], case["visibility"], tuple(case["ignore_methods"]), tuple(case["ignore_modules"])))
        ctx.count("visibility:" + case["visibility"])
        ctx.count("ignore_methods:%d" % len(case["ignore_methods"]))
        for e in observed:
            ctx.count("under_test:" + e[0])
        for mb in members:
            ctx.count("member:" + mb["kind"] + (":own" if mb["own"] else ":foreign"))
        if len(ctx.cov["samples"]) < 2 and case not in [c["case"] for c in corpus]:
            ctx.sample({"sut": case["sut"], "visibility": case["visibility"], "ignore_methods": case["ignore_methods"],
                        "under_test": [list(e[:4]) for e in observed]})
        for sig, msg in L.judge(case, observed, rt):
            n_fail += 1
            if sig in seen_sigs:
                continue
            seen_sigs.add(sig)
            # recorded findings are reported with the unshrunk input (shrinking costs many analyses)
            small = case if vlib.match_finding(known, sig) else shrink(case, sig, scratch, counter)
            ctx.fail(sig, msg, {"case": small, "unshrunk": case})
        coq_cases.append(c_case(case, observed, members))
        recs.append((case, observed, members))
    ctx.log(f"{len(recs)} modules analysed, {n_fail} oracle failures")
    ctx.leg("S", oracle_failures=n_fail + n_bad, modules=len(recs), names=len(rows))
    bad = ctx.run_cases("C27_modules", IMPORTS, "case", "check_case", coq_cases, shard=100)
    if bad:
        ctx.leg("K2b", ok=False, mismatches=len(bad))
        if not any(f.kind == "input" and not vlib.match_finding(vlib.load_findings("C27"), f.signature) for f in ctx.failures):
            case, observed, members = recs[bad[0]]
            obs_keys = {tuple(e[:4]) for e in observed}
            ctx.broken("correspondence:C27-under-test-filter",
                       "the model of the under-test filter no longer reproduces the real cluster",
                       {"case": case, "under_test": [list(e[:4]) for e in observed],
                        "members": [{**{k: v for k, v in mb.items() if k != 'key'}, "key": list(mb["key"]),
                                     "observed": mb["key"] in obs_keys} for mb in members]})
    elif bad is not None:
        ctx.leg("K2b", ok=True, modules=len(coq_cases))
    ctx.cov["rule"] = ("(a) every string of length <= %d over {_, a, A, 1, e-acute, -} plus random identifier-like strings and "
                       "hand-picked edge names; (b) generated SUT modules (functions of every name class, async/cached/generator/"
                       "lambda/conditionally defined/re-exported functions, plain/abstract/enum/derived/inner classes with plain, "
                       "static, class, property, async, lambda and foreign-function members) importing a helper module, under "
                       "PUBLIC/PROTECTED/ALL and random ignore_methods/ignore_modules; distinct = distinct names / distinct "
                       "(source, settings)" % maxlen)
    ctx.assumptions += [
        "every non-ASCII character of an identifier is a word character for the regular expression (\\w)",
        "which objects the analysis reaches (vars(module), inspect.getmembers(cls, isfunction), get_class_that_defined_method, "
        "inspect.isabstract, Enum.__members__) is observed with `inspect` on the imported module, not modelled",
        "lambda naming, C modules and import side effects are outside the model",
    ]
    ctx.cov["trusted_base"] += [
        "props/_c27_py2v.py (translator; the regular expression text is pinned, its recogniser C27.re_mangled is tied by the exhaustive comparison)",
        "hand-written model Models/C27.v tied by K1a + K2 (this run); props/_c27_lib.py (member abstraction, ast oracle)",
    ]


def replay(ctx, path):
    vlib.setup_impl_path()
    warnings.simplefilter("ignore")
    logging.disable(logging.WARNING)
    d = json.loads(open(path).read())
    rp = d.get("replay") or d["no_longer_checks"][0]["detail"]
    if "name" in rp and "case" not in rp:
        print("implementation:", real_predicates([rp["name"]]))
        print("name class:", L.name_class(rp["name"]), {v: L.eligible(rp["name"], v) for v in VIS})
        print("model:", ctx.coq_eval(IMPORTS, f"(is_private {cname(rp['name'])}, is_protected {cname(rp['name'])}, "
                                              f"is_name_mangled {cname(rp['name'])}, map (should_skip {cname(rp['name'])} true) [PUBLIC; PROTECTED; ALL])"))
        return 0
    case = rp["case"]
    observed, members, rt = L.run_impl(case, ctx.mkscratch())
    print(case["sut"])
    print("visibility", case["visibility"], "ignore_methods", case["ignore_methods"])
    print("under test:", observed)
    print("oracle:", L.judge(case, observed, rt))
    print("model agrees:", ctx.coq_eval(IMPORTS, "check_case " + c_case(case, observed, members)))
    return 0
