"""C26 — generator selection offers only type-compatible generators.

T  static proofs (Properties/C26.v, on the C25 type model).
K  K2: (a) for every generated module the real generator table of the test cluster is loaded into a real
   GeneratorProvider and a real RandomGeneratorProvider; for every parameter type of the cluster (and
   random / related requests) the sets both offer are compared with the model's offered_h / offered_r
   evaluated in Coq; (b) histories of cached TypeSystem queries interleaved with add_subclass_edge /
   enable_numeric_tower on the real TypeSystem are replayed by the model's cache state machine.
S  direct oracle: every offered generator's type is_maybe_subtype of the request; both providers offer
   the same set; at the end of a history every cached answer equals the answer after cache_clear()."""
from __future__ import annotations

import concurrent.futures as cf
import json
import multiprocessing as mp
import random

import vlib
from vlib import cN, cbool, clist, cpair

from props import _c25_common as cm
from props.C25 import Oracle, narrow, shrink_candidates
from props._c25_history import (ask, clear_caches, plan_from_json, plan_to_json, rebuild_plan,  # noqa: F401
                                run_history, shrink_history)

SRC = ["src/pynguin/analyses/generator.py", "src/pynguin/analyses/typesystem.py", "src/pynguin/analyses/module.py"]


# ------------------------------------------------------------------------------------------------
def is_primitive(cl, t):
    from pynguin.analyses.typesystem import is_primitive_type

    return cl.to_real(t).accept(is_primitive_type)


def explain(cl, orc, T, S, top=True):
    """Why does the distance-based provider not serve request T with a generator of type S although
    S may be a subtype of T?  Leaves of the two recursions; {"other"} when no known reason applies."""
    if top and is_primitive(cl, T):
        return {"primitive-request"}
    kt, ks = T[0], S[0]
    if kt == "none":
        return {"none"}
    if kt == "tuple":
        if ks == "any":
            return {"tuple-any"}
        if ks == "union":
            return {"tuple-union"}
        if ks == "tuple" and len(T[1]) == len(S[1]):
            res = set()
            for a, b in zip(T[1], S[1]):
                if orc.q("dist", a, b) is None:
                    res |= explain(cl, orc, a, b, False) if orc.q("maybe", b, a) else {"other"}
            return res or {"other"}
        return {"other"}
    if kt == "union":
        for t in T[1]:
            if orc.q("maybe", S, t) and orc.q("dist", t, S) is None:
                return explain(cl, orc, t, S, False)
        return {"other"}
    if kt == "inst":
        if ks == "union":
            for s in S[1]:
                if orc.q("maybe", s, T) and orc.q("dist", T, s) is None:
                    return explain(cl, orc, T, s, False)
            return {"other"}
        if ks == "inst":
            if cl.ts.get_shortest_path_length(cl.info[T[1]], cl.info[S[1]]) is None:
                return {"other"}
            ht, hs = cl.hg_of(T[1]), cl.hg_of(S[1])
            bad = [(a, b) for a, b in zip(T[2], S[2]) if orc.q("dist", a, b) is None]
            if not (T[2] and S[2]) or not bad:
                return {"other"}
            if ht is not None and ht == hs:
                res = set()
                for a, b in bad:
                    res |= explain(cl, orc, a, b, False) if orc.q("maybe", b, a) else {"other"}
                return res
            return {"generic-args"}
    return {"other"}


class Providers:
    def __init__(self, cl: cm.Cluster):
        import pynguin.configuration as config
        from pynguin.analyses.generator import GeneratorProvider, RandomGeneratorProvider
        from pynguin.ga.operators.selection import RandomSelection, RankSelection

        self.cl = cl
        self.table = []   # (abstract type, real type, [generator ids])
        self.gen_ids = {}
        self.skipped = 0
        src = cl.cluster.generator_provider.get_all() if cl.cluster is not None else {}
        for real_t, gens in src.items():
            t = cl.from_real(real_t)
            if t is None or not cl.wf(t):
                self.skipped += 1
                continue
            ids = []
            for gobj in gens:
                ids.append(self.gen_ids.setdefault(id(gobj), len(self.gen_ids)))
            self.table.append((t, real_t, ids, list(gens)))
        self.h = GeneratorProvider(cl.ts, RankSelection(config.configuration.generator_selection.generator_selection_bias))
        self.r = RandomGeneratorProvider(cl.ts, RandomSelection())
        for _, real_t, _, gens in self.table:
            for gobj in gens:
                self.h.add_for_type(real_t, gobj)
                self.r.add_for_type(real_t, gobj)
        self.type_of = {}
        for t, _, ids, _ in self.table:
            for i in ids:
                self.type_of.setdefault(i, []).append(t)

    def offered(self, which, typ):
        p = self.h if which == "h" else self.r
        res = p._get_generators_for(self.cl.to_real(typ))  # noqa: SLF001
        return sorted({self.gen_ids[id(g.generator)] for g in res})


def provider_failures(cl, orc, pv, typ):
    """Direct statement of the property for one request type.  Returns list of (signature, message, gen type)."""
    out = []
    h, r = pv.offered("h", typ), pv.offered("r", typ)
    for which, ids in (("heuristic", h), ("random", r)):
        for i in ids:
            gts = pv.type_of[i]
            if not any(orc.q("maybe", gt, typ) for gt in gts):
                gt = gts[0]
                kind = "generic-invariance" if which == "heuristic" and all(cm.invariance_only(cl, g, typ) for g in gts) else "other"
                out.append((f"offered-incompatible:{which}:{kind}",
                            f"{which} provider offers a generator returning {cm.t_str(gt)} for a parameter of type "
                            f"{cm.t_str(typ)}, but is_maybe_subtype({cm.t_str(gt)}, {cm.t_str(typ)}) is False", gt))
    for i in sorted(set(h) - set(r)):
        gts = [g for g in pv.type_of[i] if orc.q("maybe", g, typ)]
        if gts:  # compatible, yet withheld by the random provider (incompatible ones are reported above)
            out.append(("providers-differ:heuristic-only:compatible",
                        f"for a parameter of type {cm.t_str(typ)} only GeneratorProvider offers the generator returning "
                        f"{cm.t_str(gts[0])} although is_maybe_subtype holds", gts[0]))
    for i in sorted(set(r) - set(h)):
        gts = [g for g in pv.type_of[i] if orc.q("maybe", g, typ)]
        if not gts:
            continue  # already reported as incompatible
        causes = set()
        for gt in gts:
            if is_primitive(cl, typ):
                causes.add("primitive-request")
            elif typ[0] == "any" or orc.q("dist", typ, gt) is not None:
                causes.add("other")
            else:
                causes |= explain(cl, orc, typ, gt)
        for c in sorted(causes):
            out.append((f"providers-differ:random-only:{c}",
                        f"for a parameter of type {cm.t_str(typ)} only RandomGeneratorProvider offers the generator returning "
                        f"{cm.t_str(gts[0])} (GeneratorProvider: subtype_distance is None)", gts[0]))
    return out


# ------------------------------------------------------------------------------------------------
# histories on the real providers of real clusters (one cluster per generator selection algorithm)
def make_cluster(scratch, modname, src, class_names, kind):
    import pynguin.configuration as config

    sel = config.Selection.RANK_SELECTION if kind == "heuristic" else config.Selection.RANDOM_SELECTION
    old = config.configuration.generator_selection.generator_selection_algorithm
    config.configuration.generator_selection.generator_selection_algorithm = sel
    try:
        return cm.Cluster(scratch, modname, src, class_names)
    finally:
        config.configuration.generator_selection.generator_selection_algorithm = old


class PHist:
    """The real provider of a real cluster, observed through generator names."""

    def __init__(self, kind, cl):
        from pynguin.analyses.generator import GeneratorProvider, RandomGeneratorProvider

        self.kind, self.cl = kind, cl
        self.prov = cl.cluster.generator_provider
        assert type(self.prov) is (GeneratorProvider if kind == "heuristic" else RandomGeneratorProvider), type(self.prov)
        self.objs, self.name_of_obj, seen = {}, {}, {}
        for _, gens in self.prov.get_all().items():
            for g in gens:
                if id(g) in self.name_of_obj:
                    continue
                base = str(g).replace(cl.modname + "_dep.", "D.").replace(cl.modname + ".", "M.")
                k = seen.get(base, 0)
                seen[base] = k + 1
                name = base if k == 0 else f"{base}#{k}"
                self.name_of_obj[id(g)] = name
                self.objs[name] = g
        self.ids = {n: i for i, n in enumerate(sorted(self.objs))}

    def gid(self, g):
        return self.ids[self.name_of_obj[id(g)]]

    def table(self):
        """The provider's registrations in dict order; None when they leave the model."""
        out = []
        for real_t, gens in self.prov.get_all().items():
            t = self.cl.from_real(real_t)
            if t is None or not self.cl.wf(t) or any(id(g) not in self.name_of_obj for g in gens):
                return None
            out.append((t, sorted({self.gid(g) for g in gens})))
        if len({t for t, _ in out}) != len(out):   # two real keys with one abstraction (tuple vs tuple[Any])
            return None
        return out

    def table_by_signature(self):
        """What the registrations must be: every generator under its current generated type."""
        exp = {}
        for g in self.objs.values():
            t = self.cl.from_real(g.generated_type())
            if t is None:
                return None
            exp.setdefault(t, set()).add(self.gid(g))
        return exp

    def offered(self, typ):
        return sorted({self.gid(g.generator) for g in self.prov._get_generators_for(self.cl.to_real(typ))})  # noqa: SLF001

    def offered_fresh(self, typ):
        """A provider of the same class freshly built for the current signatures (every generator registered
        under its current generated type) on the current type system; not memoised."""
        from pynguin.ga.operators.selection import RandomSelection

        fresh = type(self.prov)(self.cl.ts, RandomSelection())
        for g in self.objs.values():
            fresh.add_for_type(g.generated_type(), g)
        res = type(self.prov)._get_generators_for.__wrapped__(fresh, self.cl.to_real(typ))  # noqa: SLF001
        return sorted({self.gid(g.generator) for g in res})

    def updatable(self):
        return sorted(n for n, g in self.objs.items()
                      if hasattr(g, "inferred_signature") and (g.is_function() or g.is_method()))


def gen_pplan(rng, ph: PHist, n_ops):
    cl = ph.cl
    pool = []
    for acc in cl.cluster.accessible_objects_under_test:
        sig = getattr(acc, "inferred_signature", None)
        if sig is not None:
            for p in sig.original_parameters.values():
                t = cl.from_real(p)
                if t is not None and cl.wf(t):
                    pool.append(t)
    keys = [t for t, _ in (ph.table() or [])]
    pool += keys + [cm.mutate_type(rng, cl, k) for k in keys[:8]] + [cm.t_inst(n) for n in cl.class_names]
    pool += [cm.t_inst("object"), cm.ANY_T]
    pool = [t for t in dict.fromkeys(pool) if cl.wf(t)]
    upd = ph.updatable()
    classes = [n for n in cl.class_names if cl.raw[n].__class__.__name__ != "EnumType"]
    newtypes = [cm.t_inst(n) for n in cl.class_names] + [cm.t_inst("int"), cm.t_inst("str"), cm.NONE_T,
                                                         cm.t_inst("list", [cm.t_inst("int")]), cm.t_tuple([cm.t_inst("int")])]
    plan, asked = [], []
    for _ in range(n_ops):
        c = rng.random()
        if c < 0.62 or not asked:
            t = rng.choice(asked) if asked and rng.random() < 0.5 else rng.choice(pool)
            asked.append(t)
            plan.append(("q", t))
        elif c < 0.82 and upd:
            nt = rng.choice(newtypes)
            plan.append(("update", rng.choice(upd), nt))
            for t in rng.sample(asked, min(len(asked), 2)):
                plan.append(("q", t))
            # requests unrelated to the observed type: a stale registration would show up here
            others = [t for t in newtypes + [cm.t_inst("object"), cm.t_tuple([cm.t_inst("str")])] if t != nt]
            for t in rng.sample(others, min(len(others), 3)):
                asked.append(t)
                plan.append(("q", t))
        elif c < 0.88:
            plan.append(("clear",))
        elif len(classes) >= 2:
            p, k = rng.sample(classes, 2)
            plan.append(("edge", p, k))
            plan.append(("q", rng.choice(asked)))
    for t in list(dict.fromkeys(asked))[:10]:
        plan.append(("q", t))
    return plan


def run_phistory(ph: PHist, plan):
    """Returns None when the table leaves the model, else (initial table, ops, answers, tables, fails)."""
    cl = ph.cl
    tb0 = ph.table()
    if tb0 is None:
        return None
    ops, answers, tables, fails = [], [], [], []
    cached_at, new_edges = {}, []
    names = {v: k for k, v in ph.ids.items()}

    def check_table(i, why):
        real, exp = ph.table(), ph.table_by_signature()
        if real is None or exp is None:
            return False
        got = {t: set(ids) for t, ids in real}
        if got != exp:
            wrong = sorted((cm.t_str(t), sorted(names[x] for x in got.get(t, set()) ^ exp.get(t, set())))
                           for t in set(got) | set(exp) if got.get(t, set()) != exp.get(t, set()))
            fails.append((f"generator-table:stale-registration:{ph.kind}",
                          f"after {why} the generator registrations differ from the generators' current return types: {wrong[:4]}", i))
        return True

    if not check_table(-1, "module analysis"):
        return None
    for i, st in enumerate(plan):
        if st[0] == "q":
            typ = st[1]
            ans, fresh = ph.offered(typ), ph.offered_fresh(typ)
            ops.append(("PQuery", typ))
            answers.append(ans)
            cached_at.setdefault(typ, i)
            if ans != fresh:
                excused = any(e > cached_at[typ] for e in new_edges)
                cause = "graph-update" if excused else "after-invalidation"
                diff = sorted(set(ans) ^ set(fresh))
                fails.append((f"provider-cache-stale:{cause}:{ph.kind}",
                              f"{type(ph.prov).__name__}._get_generators_for({cm.t_str(typ)}) differs from a provider freshly built for "
                              f"the current signatures in {[names[d] for d in diff]} "
                              + ("(the inheritance graph changed since the answer was memoised; add_subclass_edge cannot reach the provider cache)"
                                 if excused else "(although clear_generator_cache ran / nothing changed since it was memoised)"), i))
        elif st[0] == "update":
            acc = ph.objs.get(st[1])
            if acc is None or not cl.wf(st[2]):
                continue
            old_real = acc.inferred_signature.return_type
            cl.cluster.update_return_type(acc, cl.to_real(st[2]))
            new_real = acc.inferred_signature.return_type
            if new_real == old_real:
                continue
            old_t, new_t, tb = cl.from_real(old_real), cl.from_real(new_real), ph.table()
            if old_t is None or new_t is None or tb is None or not cl.wf(new_t):
                break
            ops.append(("PUpdate", ph.gid(acc), old_t, new_t))
            answers.append(None)
            tables.append(tb)
            cached_at.clear()
            check_table(i, f"update_return_type({st[1]}, {cm.t_str(st[2])})")
        elif st[0] == "clear":
            ph.prov.clear_generator_cache()
            ops.append(("PClear",))
            answers.append(None)
            cached_at.clear()
        elif st[0] == "edge":
            a, b = cl.info[st[1]], cl.info[st[2]]
            if not cl.ts._graph.has_edge(a, b):  # noqa: SLF001
                new_edges.append(i)
            cl.ts.add_subclass_edge(super_class=a, sub_class=b)
            ops.append(("PEdge", st[1], st[2]))
            answers.append(None)
    return tb0, ops, answers, tables, fails


def pplan_to_json(plan):
    return [[st[0]] + [cm.t_to_json(x) if isinstance(x, tuple) else x for x in st[1:]] for st in plan]


def pplan_from_json(js):
    return [tuple([st[0]] + [cm.t_from_json(x) if isinstance(x, list) else x for x in st[1:]]) for st in js]


def c_table(num, tb):
    return clist(cpair(num.ty(t), clist(cN(i) for i in ids)) for t, ids in tb)


def c_phcase(ph: PHist, names, edges, hgs, tb0, ops, answers, tables):
    cl = ph.cl
    num = cm.Numbering(names)
    prims = [n for n in names if cl.to_real(cm.t_inst(n, [cm.ANY_T] * (cl.hg_of(n) or 0))).accept(_prim())]
    ops_c = []
    for o in ops:
        if o[0] == "PQuery":
            ops_c.append(f"C26.PQuery {num.ty(o[1])}")
        elif o[0] == "PUpdate":
            ops_c.append(f"C26.PUpdate {cN(o[1])} {num.ty(o[2])} {num.ty(o[3])}")
        elif o[0] == "PEdge":
            ops_c.append(f"C26.PEdge {num.cls(o[1])} {num.cls(o[2])}")
        else:
            ops_c.append("C26.PClear")
    ans_c = clist("None" if a is None else f"(Some {clist(cN(i) for i in a)})" for a in answers)
    return ("C26.CPHistory {| C26.ph_kind := C26.%s; C26.ph_graph := %s; C26.ph_anyd := %s; C26.ph_prims := %s; "
            "C26.ph_table := %s; C26.ph_ops := %s; C26.ph_answers := %s; C26.ph_tables := %s |}" % (
                "PHeur" if ph.kind == "heuristic" else "PRand", num.graph(names, edges, hgs), cN(cm.any_distance()),
                clist(num.cls(n) for n in prims), c_table(num, tb0), clist(ops_c), ans_c,
                clist(c_table(num, t) for t in tables)))


# ------------------------------------------------------------------------------------------------
def c_answer(a):
    if a is None:
        return "None"
    _, kind, v = a
    if kind == "dist":
        return f"(Some (C26.ADist {cm.c_optN(v)}))"
    return f"(Some (C26.ABool {cbool(v)}))"


def c_key(num, q):
    k, a, b = q
    if k == "subclass":
        return f"(C26.KSubclass {num.cls(a)} {num.cls(b)})"
    name = {"sub": "KSub", "maybe": "KMaybe", "dist": "KDist"}[k]
    return f"(C26.{name} {num.ty(a)} {num.ty(b)})"


def work(arg):
    seed, idx, scratch, n_req, n_ops, entry = arg
    vlib.setup_impl_path()
    from pathlib import Path

    rng = random.Random(seed)
    stats, fails, cases = {}, [], []

    def count(k, n=1):
        stats[k] = stats.get(k, 0) + n

    if entry is not None and entry.get("kind") == "tower":
        cl = cm.Cluster.bare()
        src, class_names = None, []
    else:
        if entry is not None:
            src, class_names = entry["src"], entry["classes"]
        else:
            src, class_names = cm.gen_module_source(rng)
        modname = f"c26m_{seed % 10**9}_{idx}"
        try:
            cl = cm.Cluster(Path(scratch), modname, src, class_names)
        except Exception as e:  # noqa: BLE001  module analysis itself is not this property's subject
            if entry is not None:
                raise
            return {"skipped": f"{type(e).__name__}: {e}"[:300], "src": src}

    def factory():
        if src is None:
            return cm.Cluster.bare()
        return cm.Cluster(Path(scratch), f"c26s_{seed % 10**9}_{idx}_{rng.randrange(10**6)}", src, class_names)

    sample = None
    n_eval = 0
    canon = []
    try:
        orc = Oracle(cl)
        # ---------------- providers on the final graph of the cluster -------------------------
        if cl.cluster is not None:
            pv = Providers(cl)
            count("table-entries", len(pv.table))
            count("table-entries-outside-model", pv.skipped)
            count("generators", len(pv.gen_ids))
            requests = []
            for acc in cl.cluster.accessible_objects_under_test:
                sig = getattr(acc, "inferred_signature", None)
                if sig is None:
                    continue
                for p in sig.original_parameters.values():
                    t = cl.from_real(p)
                    if t is not None and cl.wf(t):
                        requests.append(t)
                        count("request:parameter")
            if entry is not None:
                requests += [cm.t_from_json(j) for j in entry.get("requests", [])]
            keys = [t for t, _, _, _ in pv.table]
            for k in keys:
                # a generated type with a union strictly inside vs requests that hold the narrowed type in a union:
                # only the lenient reading matches (tuple[A | B, A] for a parameter tuple[A, A] | None)
                nt = narrow(rng, k) if k[0] != "union" else None
                if nt is not None:
                    requests += [nt, cm.t_union([nt, cm.NONE_T]), cm.t_union([cm.t_inst("int"), nt])]
                    count("request:narrowed-generated-type", 3)
            for _ in range(n_req):
                c = rng.random()
                if c < 0.4 and keys:
                    requests.append(cm.mutate_type(rng, cl, rng.choice(keys)))
                    count("request:related-to-generated-type")
                elif c < 0.6 and keys:
                    requests.append(rng.choice(keys))
                    count("request:generated-type")
                else:
                    requests.append(cm.gen_type(rng, cl, 0, rng.choice([1, 2, 3])))
                    count("request:random")
            requests = [t for t in dict.fromkeys(requests) if cl.wf(t)]
            seen_sig = set()
            reqs_c = []
            used = set(cl.universe)
            for t, _, _, _ in pv.table:
                cm.t_classes(t, used)
            for typ in requests:
                cm.t_classes(typ, used)
            for typ in requests:
                h, r = pv.offered("h", typ), pv.offered("r", typ)
                count("offered:heuristic", len(h))
                count("offered:random", len(r))
                count("request-kind:" + typ[0])
                if h != r:
                    count("providers-differ")
                reqs_c.append((typ, h, r))
                for sig, msg, gt in provider_failures(cl, orc, pv, typ):
                    if sig in seen_sig:
                        count("oracle-repeat:" + sig)
                        continue
                    seen_sig.add(sig)
                    small = typ
                    for _ in range(40):
                        for cand in shrink_candidates(cl, small):
                            if any(s2 == sig and g2 == gt for s2, _, g2 in provider_failures(cl, orc, pv, cand)):
                                small = cand
                                break
                        else:
                            break
                    msg2 = next((m for s2, m, g2 in provider_failures(cl, orc, pv, small) if s2 == sig and g2 == gt), msg)
                    fails.append({"signature": sig, "what": msg2,
                                  "replay": {"kind": "providers", "request": cm.t_to_json(small), "generated": cm.t_to_json(gt),
                                             "src": src, "classes": class_names}})
            names, edges, hgs = cl.graph_for(used)
            num = cm.Numbering(names)
            prims = [n for n in names if cl.to_real(cm.t_inst(n, [cm.ANY_T] * (cl.hg_of(n) or 0))).accept(_prim())]
            table_c = clist(cpair(num.ty(t), clist(cN(i) for i in sorted(set(ids)))) for t, _, ids, _ in pv.table)
            reqs_s = clist(cpair(num.ty(t), clist(cN(i) for i in h), clist(cN(i) for i in r)) for t, h, r in reqs_c)
            cases.append("C26.CProviders {| C26.p_graph := %s; C26.p_anyd := %s; C26.p_prims := %s; C26.p_table := %s; "
                         "C26.p_requests := %s |}" % (num.graph(names, edges, hgs), cN(cm.any_distance()),
                                                      clist(num.cls(n) for n in prims), table_c, reqs_s))
            n_eval += 2 * len(reqs_c)
            canon.append(("providers", tuple(edges), tuple(t for t, _, _ in reqs_c)))
            sample = {"module_classes": class_names, "generated_types": [cm.t_str(t) for t in keys[:10]],
                      "requests": [[cm.t_str(t), h, r] for t, h, r in reqs_c[:6]]}
        # ---------------- the hierarchy fed edge by edge into a fresh TypeSystem, any order ---------
        if cl.cluster is not None:
            if entry is not None and "rebuild" in entry:
                rnames, _, _ = cl.graph_for(set(cl.universe))
                rplans = [plan_from_json(entry["rebuild"])]
            else:
                rplans = []
                for _ in range(0 if entry is not None else 2):
                    rnames, rp = rebuild_plan(rng, cl)
                    rplans.append(rp)
            for rp in rplans:
                bare = cm.Cluster.bare_from(cl, rnames)
                bnames, bedges, bhgs = bare.graph_for(set(rnames))
                bnum = cm.Numbering(bnames)
                ops, answers, hfails, _ = run_history(None, bare, None, 0, preset=rp)
                for sig, what, q in hfails:
                    if any(f["signature"] == sig for f in fails):
                        count("oracle-repeat:" + sig)
                        continue
                    small = shrink_history(lambda: cm.Cluster.bare_from(cl, rnames), rp, sig)
                    fails.append({"signature": sig, "what": what,
                                  "replay": {"kind": "rebuild", "history": plan_to_json(small), "src": src, "classes": class_names}})
                ops_c = []
                for o in ops:
                    if o[0] == "Query":
                        ops_c.append(f"C26.Query {c_key(bnum, o[1])}")
                        count("rebuild-op:query:" + o[1][0])
                    else:
                        ops_c.append(f"C26.AddEdge {bnum.cls(o[1])} {bnum.cls(o[2])}")
                        count("rebuild-op:add-edge")
                cases.append("C26.CHistory %s" % cpair(bnum.graph(bnames, bedges, bhgs), cN(cm.any_distance()), clist(ops_c),
                                                      clist(c_answer(a) for a in answers)))
                n_eval += sum(1 for a in answers if a is not None)
                canon.append(("rebuild", tuple(repr(o) for o in ops)))
        # ---------------- provider histories: real providers of real clusters, both kinds --------
        if cl.cluster is not None and n_ops >= 0:
            pplan = None
            for kind in ("heuristic", "random"):
                c2 = make_cluster(Path(scratch), f"c26p_{seed % 10**9}_{idx}_{kind[0]}", src, class_names, kind)
                try:
                    ph = PHist(kind, c2)
                    if pplan is None:
                        pplan = pplan_from_json(entry["phistory"]) if entry is not None and "phistory" in entry else \
                            gen_pplan(rng, ph, 24 if n_ops else 0)
                    used = set(c2.universe)
                    for st in pplan:
                        for x in st[1:]:
                            if isinstance(x, tuple):
                                cm.t_classes(x, used)
                    for t, _ in (ph.table() or []):
                        cm.t_classes(t, used)
                    try:
                        pnames, pedges, phgs = c2.graph_for(used)
                    except KeyError:
                        # the plan (drawn on the first cluster) mentions a class this cluster's type system does not know
                        count("provider-history:class-unknown-to-cluster")
                        continue
                    res = run_phistory(ph, pplan)
                    if res is None:
                        count("provider-history:table-outside-model")
                        continue
                    tb0, pops, pans, ptabs, pfails = res
                    extra = set()
                    for t in ptabs:
                        for k, _ in t:
                            cm.t_classes(k, extra)
                    if not extra <= set(pnames):
                        count("provider-history:class-outside-initial-graph")
                        continue
                    for sig, what, step in pfails:
                        if any(f["signature"] == sig for f in fails):
                            count("oracle-repeat:" + sig)
                            continue
                        fails.append({"signature": sig, "what": what,
                                      "replay": {"kind": "phistory", "provider": kind, "plan": pplan_to_json(pplan[:step + 1]),
                                                 "src": src, "classes": class_names}})
                    cases.append(c_phcase(ph, pnames, pedges, phgs, tb0, pops, pans, ptabs))
                    n_eval += sum(1 for a in pans if a is not None)
                    for o in pops:
                        count(f"provider-op:{kind}:{o[0]}")
                    canon.append(("phistory", kind, tuple(repr(o) for o in pops)))
                finally:
                    c2.close()
        # ---------------- history: cached queries interleaved with graph updates ---------------
        pool = [cm.gen_type(rng, cl, 0, rng.choice([1, 2, 2, 3])) for _ in range(8)]
        pool += [cm.mutate_type(rng, cl, t) for t in pool[:6]]
        pool += [cm.t_inst(n) for n in cl.universe if cl.hg_of(n) is None][:14]
        preset = plan_from_json(entry["history"]) if entry is not None and "history" in entry else None
        used = set(cl.universe)
        for t in pool:
            cm.t_classes(t, used)
        if preset:
            for st in preset:
                if st[0] == "q" and st[1][0] != "subclass":
                    cm.t_classes(st[1][1], used)
                    cm.t_classes(st[1][2], used)
        names, edges, hgs = cl.graph_for(used)       # the graph before the history
        num = cm.Numbering(names)
        ops, answers, hfails, plan = run_history(rng, cl, pool, n_ops, preset)
        for sig, what, q in hfails:
            if any(f["signature"] == sig for f in fails):
                count("oracle-repeat:" + sig)
                continue
            small = shrink_history(factory, plan, sig)
            fails.append({"signature": sig, "what": what,
                          "replay": {"kind": "history", "history": plan_to_json(small), "src": src, "classes": class_names}})
        ops_c = []
        for o in ops:
            if o[0] == "Query":
                ops_c.append(f"C26.Query {c_key(num, o[1])}")
                count("op:query:" + o[1][0])
            else:
                ops_c.append(f"C26.AddEdge {num.cls(o[1])} {num.cls(o[2])}")
                count("op:add-edge")
        cases.append("C26.CHistory %s" % cpair(num.graph(names, edges, hgs), cN(cm.any_distance()), clist(ops_c),
                                              clist(c_answer(a) for a in answers)))
        n_eval += sum(1 for a in answers if a is not None)
        canon.append(("history", tuple(edges), tuple(repr(o) for o in ops)))
        if sample is None:
            sample = {"history": [repr(o) for o in ops[:8]]}
        else:
            sample["history"] = [repr(o) for o in ops[:6]]
    finally:
        cl.close()
    return {"cases": cases, "fails": fails, "stats": stats, "sample": sample, "canon": repr(canon), "n_eval": n_eval}


def _prim():
    from pynguin.analyses.typesystem import is_primitive_type

    return is_primitive_type


# ------------------------------------------------------------------------------------------------
def run(ctx: vlib.Ctx):
    vlib.setup_impl_path()
    ctx.digest_sources(SRC)
    ctx.coq_static()
    ctx.log("static development built and audited")
    if not ctx.quick:
        ctx.coqchk()
    scratch = ctx.mkscratch()
    corpus = json.loads((vlib.VERIF / "corpus" / "C26.json").read_text())
    n_mod = 16 if ctx.quick else 180
    items = [(ctx.rng.randrange(2**31), i, str(scratch), 6, 0, e) for i, e in enumerate(corpus)]
    items += [(ctx.rng.randrange(2**31), len(corpus) + i, str(scratch), 14, 30, None) for i in range(n_mod)]
    with cf.ProcessPoolExecutor(max_workers=16, mp_context=mp.get_context("fork")) as ex:
        results = list(ex.map(work, items, chunksize=1))
    skipped = [r for r in results if "skipped" in r]
    results = [r for r in results if "skipped" not in r]
    ctx.log(f"{len(results)} modules analysed by the implementation, oracle done")
    ctx.count("modules-not-analysable", len(skipped))
    if skipped:
        ctx.notes.append({"modules the implementation could not analyse (left out)": [k["skipped"] for k in skipped[:5]]})
    if len(skipped) * 5 > len(items):
        ctx.broken("harness:clusters", "generate_test_cluster fails on more than 20% of the generated modules",
                   {"errors": [k["skipped"] for k in skipped[:5]], "module": skipped[0]["src"]})
    cases, owner = [], []
    n_or = 0
    for k, res in enumerate(results):
        for c in res["cases"]:
            cases.append(c)
            owner.append(k)
        ctx.case_seen(res["canon"], nontrivial=res["n_eval"] > 0)
        for key, v in res["stats"].items():
            ctx.count(key, v)
        for f in res["fails"]:
            n_or += 1
            ctx.fail(f["signature"], f["what"], f["replay"])
    ctx.sample(results[min(len(corpus), len(results) - 1)]["sample"])
    ctx.sample(results[-1]["sample"])
    ctx.cov["evaluations"] = sum(r["n_eval"] for r in results)
    ctx.cov["rule"] = ("one case = one generated module analysed by the real generate_test_cluster: (a) its generator table loaded "
                       "into real GeneratorProvider and RandomGeneratorProvider objects, queried for every parameter type of the "
                       "cluster plus related/random requests; (b) a history of ~30 cached TypeSystem queries interleaved with "
                       "add_subclass_edge / enable_numeric_tower; evaluations = provider answers and query answers compared with "
                       "the model; distinct = distinct (graph, requests, history)")
    ctx.leg("S", oracle_failures=n_or, modules=len(results))
    bad = ctx.run_cases("C26_cases", "From Verif Require Import Models.C25 Models.C26.", "C26.case", "C26.check_case", cases, shard=6)
    if bad is None:
        pass
    elif bad:
        ctx.leg("K2", ok=False, mismatches=len(bad))
        unknown = [f for f in ctx.failures if f.kind == "input" and vlib.match_finding(vlib.load_findings("C26"), f.signature) is None]
        if not unknown:
            kinds = sorted({cases[i].split(" ")[0] for i in bad})
            ctx.broken("correspondence:C26-model-vs-providers-and-caches",
                       "the model of the two generator providers / of the memoised TypeSystem queries (about which the theorems "
                       "are proved) no longer reproduces the implementation",
                       {"mismatching_cases": len(bad), "kinds": kinds, "first_case": cases[bad[0]][:3000]})
    else:
        ctx.leg("K2", ok=True, cases=len(cases))
    ctx.assumptions += [
        "the type model and its abstraction are those of C25 (classes = TypeInfo, ancestor-closed part of the graph, well-formed types)",
        "generators are identified by object identity; the generated type of a generator is the key it is stored under",
        "lru_cache is modelled as an unbounded table with arbitrary evictions; its maxsize, the hashing of proper types and the "
        "provider-level caches (_get_generators_for, which the type system cannot reach) are outside the model: providers are "
        "queried on the final graph only",
        "generator table entries whose type is outside the model (Unsupported, StringSubtype) are left out of both real providers",
    ]
    ctx.cov["trusted_base"] += ["hand-written models Models/C25.v, Models/C26.v tied by answer-for-answer correspondence (this run)",
                                "harness/props/C26.py, C25.py, _c25_common.py (module generator, abstraction, oracle, failure classification)"]


def replay(ctx, path):
    vlib.setup_impl_path()
    from pathlib import Path

    d = json.loads(open(path).read())
    rp = d.get("replay") or {}
    if "kind" not in rp:
        print(json.dumps(d, indent=1)[:3000])
        return 0
    cl = cm.Cluster.bare() if rp["src"] is None else cm.Cluster(Path(ctx.mkscratch()), "c26_replay", rp["src"], rp["classes"])
    if rp["kind"] == "rebuild":
        names, _, _ = cl.graph_for(set(cl.universe))
        bare = cm.Cluster.bare_from(cl, names)
        ops, answers, fails, _ = run_history(None, bare, None, 0, preset=plan_from_json(rp["history"]))
        for o, a in zip(ops, answers):
            print(o, "->", a)
        print("oracle:", [(f[0], f[1]) for f in fails])
        return 0
    if rp["kind"] == "phistory":
        cl.close()
        c2 = make_cluster(Path(ctx.mkscratch()), "c26_replay_p", rp["src"], rp["classes"], rp["provider"])
        ph = PHist(rp["provider"], c2)
        res = run_phistory(ph, pplan_from_json(rp["plan"]))
        if res is not None:
            names = {v: k for k, v in ph.ids.items()}
            for o, a in zip(res[1], res[2]):
                print(o[0], cm.t_str(o[1]) if o[0] == "PQuery" else o[1:], "->", None if a is None else [names[i] for i in a])
            print("oracle:", [(f[0], f[1]) for f in res[4]])
        return 0
    if rp["kind"] == "history":
        ops, answers, fails, _ = run_history(None, cl, None, 0, preset=plan_from_json(rp["history"]))
        for o, a in zip(ops, answers):
            print(o, "->", a)
        print("oracle:", [(f[0], f[1]) for f in fails])
        return 0
    orc, pv = Oracle(cl), Providers(cl)
    typ, gt = cm.t_from_json(rp["request"]), cm.t_from_json(rp["generated"])
    print("request:", cm.t_str(typ), " generated type:", cm.t_str(gt))
    print("GeneratorProvider offers:", pv.offered("h", typ))
    print("RandomGeneratorProvider offers:", pv.offered("r", typ))
    print("is_maybe_subtype(generated, request):", orc.q("maybe", gt, typ), " subtype_distance(request, generated):", orc.q("dist", typ, gt))
    print("oracle:", [(s, m) for s, m, _ in provider_failures(cl, orc, pv, typ)])
    return 0
