"""C13 — the archive never loses a covered goal or a better solution.

T  static proofs (Properties/C13.v) over every history of CoverageArchive / _GoalsManager /
   MIOPopulation / MIOArchive operations.
K2 random update histories with synthetic solutions (real TestCaseChromosome objects, table-driven
   fitness) on the REAL classes; full state after every step replayed by the Coq model.
TR real DYNAMOSA / MOSA / MIO runs: every observed CoverageArchive.update / add_goals /
   _GoalsManager.update / MIOPopulation.add_solution / shrink_population call (abstracted arguments,
   state before and after) must equal the model's step.
S  direct oracle on the same histories and runs: covered set grows, every assignment obeys the
   replacement rule, archived tests cover their goal (re-executed in real runs after every
   archive update), callbacks once per goal, MIO capacity / single solution.
"""
from __future__ import annotations

import json

import pipeline
import vlib
from vlib import cZ, cbool, clist, cpair

from props import _c13_impl as I

SRC = [
    "src/pynguin/ga/algorithms/archive.py",
    "src/pynguin/ga/algorithms/dynamosaalgorithm.py",
    "src/pynguin/ga/algorithms/mioalgorithm.py",
    "src/pynguin/ga/algorithms/abstractmosaalgorithm.py",
    "src/pynguin/ga/algorithms/mosaalgorithm.py",
]
HMAX = I.HMAX


# ------------------------------------------------------------------------------------------------
def gen_sols(rng, n_goals, allow_nores=True):
    sols = []
    sids = rng.sample(range(10, 100), rng.choice([2, 3, 4, 6, 8]))
    for sid in sids:
        size = rng.choice([1, 1, 2, 2, 3, 4, 5])
        st = rng.choice(["Clean"] * 5 + ["Exc"] * 3 + ["Timeout"] + (["NoRes"] * 2 if allow_nores else []))
        fit = {}
        for g in range(n_goals):
            if rng.random() < 0.9:
                fit[g] = rng.choice([0, 0, 0, 1, 1, 2, 4, 6, 10])
        sols.append({"sid": sid, "size": size, "st": st, "pos": rng.randrange(0, size + 1), "fit": fit})
    return sols


def gen_arch_case(rng):
    n_goals = rng.choice([1, 2, 3, 5])
    sols = gen_sols(rng, n_goals)
    sids = [s["sid"] for s in sols]
    init = [rng.randrange(n_goals) for _ in range(rng.choice([0, 1, 2, 4]))]
    ops = []
    for _ in range(rng.choice([1, 2, 4, 7])):
        if rng.random() < 0.75:
            ops.append(("Update", [rng.choice(sids) for _ in range(rng.choice([0, 1, 1, 2, 3, 5]))], rng.random() < 0.5))
        else:
            ops.append(("AddGoals", [rng.randrange(n_goals) for _ in range(rng.choice([0, 1, 2, 3]))]))
    return {"kind": "arch", "n_goals": n_goals, "sols": sols, "init": init, "ops": ops, "tiny": rng.choice([5e-324, 5.551115123125783e-17, 1e-12, 9e-10, 1.1e-9])}


def gen_gm_case(rng):
    n_goals = rng.choice([2, 3, 5, 7])
    sols = gen_sols(rng, n_goals)
    sids = [s["sid"] for s in sols]
    edges = {}
    for g in range(n_goals):
        ch = [c for c in range(n_goals) if (c > g and rng.random() < 0.4) or (c <= g and rng.random() < 0.06)]
        rng.shuffle(ch)
        if ch:
            edges[g] = ch
    roots = sorted(rng.sample(range(n_goals), rng.choice([1, 1, 2])))
    pre = [[rng.choice(sids) for _ in range(rng.choice([1, 2]))] for _ in range(rng.choice([0, 0, 1, 2]))]
    upd = [rng.choice(sids) for _ in range(rng.choice([0, 1, 2, 4]))]
    return {"kind": "gm", "n_goals": n_goals, "sols": sols, "edges": edges, "roots": roots, "pre": pre, "update": upd,
            "prefit": rng.random() < 0.5, "tiny": rng.choice([5e-324, 5.551115123125783e-17, 1e-12, 9e-10, 1.1e-9])}


def gen_pop_case(rng):
    sols = gen_sols(rng, 1, allow_nores=True)
    sids = [s["sid"] for s in sols]
    ops = []
    for _ in range(rng.choice([1, 3, 6, 10])):
        if rng.random() < 0.85:
            ops.append(("Add", rng.choice([0, HMAX, HMAX, 100, 250, 500, 500, 750, 999, 1]), rng.choice(sids)))
        else:
            ops.append(("Shrink", rng.choice([1, 1, 2, 3])))
    return {"kind": "pop", "sols": sols, "capacity": rng.choice([1, 2, 3, 4]), "ops": ops}


def gen_mio_case(rng):
    n_goals = rng.choice([1, 2, 3, 4])
    sols = gen_sols(rng, n_goals, allow_nores=False)
    sids = [s["sid"] for s in sols]
    ops = []
    for _ in range(rng.choice([1, 2, 4, 7])):
        if rng.random() < 0.85:
            ops.append(("Update", [rng.choice(sids) for _ in range(rng.choice([1, 1, 2, 3]))]))
        else:
            ops.append(("Shrink", rng.choice([1, 1, 2])))
    return {"kind": "mio", "n_goals": n_goals, "sols": sols, "capacity": rng.choice([1, 2, 3]), "ops": ops, "tiny": rng.choice([5e-324, 5.551115123125783e-17, 1e-12, 9e-10, 1.1e-9])}


# ------------------------------------------------------------------------------------------------
# Coq printers
def c_sol_full(s):
    cov = [g for g, f in sorted(s["fit"].items()) if f == 0]
    return "(C13.Build_sol %s %s C13.%s %s %s %s)" % (
        cZ(s["sid"]), cZ(s["size"]), s["st"], cZ(s["pos"]), clist(cZ(g) for g in cov),
        clist(cpair(cZ(g), cZ(f)) for g, f in sorted(s["fit"].items())))


def c_sol_obs(o):
    return "(C13.Build_sol %s %s C13.%s 0 [] [])" % (cZ(o[0]), cZ(o[1]), o[2])


def c_sol_real(s):
    return "(C13.Build_sol %s %s C13.%s %s %s [])" % (cZ(s["sid"]), cZ(s["size"]), s["st"], cZ(s["pos"]),
                                                     clist(cZ(g) for g in s["cov"]))


def c_arch(o, csol=c_sol_obs):
    return "(C13.Build_arch %s %s %s %s)" % (
        clist(cpair(cZ(g), csol(s)) for g, s in o["covered"]), clist(cZ(g) for g in o["uncovered"]),
        clist(cZ(g) for g in o["objectives"]), clist(cZ(g) for g in o["fired"]))


def c_out(o):
    return "C13.AUnit" if o[0] == "AUnit" else f"(C13.ABool {cbool(o[1])})"


def c_pop(o, csol=c_sol_obs):
    return "(C13.Build_pop %s %s)" % (cZ(o["capacity"]), clist(f"(C13.Build_pair {cZ(h)} {csol(s)})" for h, s in o["sols"]))


def c_march(o):
    return "(C13.Build_march %s %s)" % (clist(cpair(cZ(t), c_pop(p)) for t, p in o["pops"]), clist(cZ(g) for g in o["fired"]))


def real_obs_sol(s):
    return (s["sid"], s["size"], s["st"])


def c_arch_real(o):
    return c_arch({**o, "covered": [(g, real_obs_sol(s)) for g, s in o["covered"]]})


# ------------------------------------------------------------------------------------------------
# S: direct oracles (independent of the Coq model)
def err(st):
    return st in ("Exc", "Timeout")


def rule_strict(old, new):
    return (err(old[2]) and new[2] == "Clean") or new[1] < old[1]


def oracle_arch_steps(steps, covers):
    """covers(sid, g) -> bool or None (unknown).  Returns (signature, message, index) or None."""
    for k, s in enumerate(steps):
        b, a = s["before"], s["after"]
        bk, ak = [g for g, _ in b["covered"]], [g for g, _ in a["covered"]]
        if not set(bk) <= set(ak):
            return ("covered-goal-lost", f"covered goals {bk} -> {ak} after {s['op'][0]}", k)
        if set(ak) & set(a["uncovered"]):
            return ("covered-and-uncovered", f"goals {sorted(set(ak) & set(a['uncovered']))} are both covered and uncovered", k)
        if set(ak) | set(a["uncovered"]) != set(a["objectives"]):
            return ("partition", f"covered {ak} + uncovered {a['uncovered']} != objectives {a['objectives']}", k)
        if len(set(a["fired"])) != len(a["fired"]):
            return ("callback-twice", f"covered callback fired more than once: {a['fired']}", k)
        if set(a["fired"]) != set(ak):
            return ("callback-missing", f"callbacks {a['fired']} vs covered goals {ak}", k)
        for g, sol in a["covered"]:
            if covers(sol[0], g) is False:
                return ("archived-does-not-cover", f"solution {sol} archived for goal {g} does not cover it", k)
        if s["op"][0] == "Update" and s.get("offered"):
            for g in b["objectives"]:
                if g not in ak and any(covers(sid, g) for sid in s["offered"]):
                    return ("cover-not-recorded", f"objective {g} is covered by an offered solution but not recorded as covered", k)
        for g, old, new in s.get("assigns", []):
            if covers(new[0], g) is False:
                return ("replacement-not-covering", f"goal {g}: {new} stored but does not cover", k)
            if old is not None and not rule_strict(old, new):
                return ("replacement-rule", f"goal {g}: {old} replaced by {new} (neither error-free-for-erroneous nor strictly shorter)", k)
        if "assigns" not in s:
            # real runs: only before/after are visible; a changed entry must be explainable by a chain of
            # rule-conforming replacements among the offered solutions -> at least the new one covers
            bd = dict(b["covered"])
            for g, sol in a["covered"]:
                if g in bd and bd[g][0] != sol[0] and covers(sol[0], g) is False:
                    return ("replacement-not-covering", f"goal {g}: {sol} stored but does not cover", k)
    return None


def oracle_pop_step(b, a, op, fit0=None):
    """One population step.  fit0(sid) -> does the solution have fitness 0 for the target (or None)."""
    if len(a["sols"]) > a["capacity"]:
        return ("mio-capacity", f"population holds {len(a['sols'])} solutions, capacity {a['capacity']}")
    if b["covered"] and not a["covered"]:
        return ("mio-covered-lost", f"covered population became uncovered after {op}")
    if a["covered"]:
        if len(a["sols"]) != 1:
            return ("mio-covered-not-single", f"covered target holds {len(a['sols'])} solutions")
        h, new = a["sols"][0]
        if h != HMAX or (fit0 is not None and fit0(new[0]) is False):
            return ("mio-archived-does-not-cover", f"covered target holds {new} with h code {h}")
        if b["covered"]:
            old = b["sols"][0][1]
            if old != new or (op[0] == "Add" and a.get("_ret")):
                if not rule_strict(old, new):
                    if ((err(old[2]) and new[2] == "Clean") or new[1] <= old[1]):
                        return ("replacement:mio:equal-size", f"covered target: {old} replaced by equally long {new}")
                    return ("replacement:mio:worse", f"covered target: {old} replaced by {new}")
    if op[0] == "Add" and op[1] == HMAX and not a["covered"]:
        return ("cover-not-recorded", "a solution with h = 1.0 was offered but the target is not recorded as covered")
    hs = [h for h, _ in a["sols"]]
    if hs != sorted(hs, reverse=True):
        return ("mio-unsorted", f"population not sorted by h: {hs}")
    if op[0] == "Shrink" and b["sols"] and op[1] >= 1 and a["sols"][:1] != b["sols"][:1]:
        return ("mio-shrink-drops-best", f"shrink({op[1]}) dropped the best solution {b['sols'][0]}")
    return None


def oracle_pop_steps(steps, fit0=None):
    for k, s in enumerate(steps):
        a = dict(s["after"])
        a["_ret"] = s["out"][0] == "ABool" and s["out"][1]
        r = oracle_pop_step(s["before"], a, s["op"], fit0)
        if r:
            return (r[0], r[1], k)
    return None


def oracle_mio_steps(steps, world):
    for k, s in enumerate(steps):
        bp, ap = dict(s["before"]["pops"]), dict(s["after"]["pops"])
        for t in ap:
            a = dict(ap[t])
            a["_ret"] = False
            # a whole update may chain several replacements: the replacement rule is checked per
            # add_solution call (population histories and real runs), not across an update
            r = oracle_pop_step({**bp[t], "covered": bp[t]["covered"], "sols": ap[t]["sols"] if bp[t]["covered"] else bp[t]["sols"]},
                                a, ("Update",), lambda sid, t=t: world.covers(sid, t))
            if r:
                return (r[0], f"target {t}: {r[1]}", k)
        fired = s["after"]["fired"]
        cov = [t for t, p in s["after"]["pops"] if p["covered"]]
        if len(set(fired)) != len(fired):
            return ("callback-twice", f"covered callback fired more than once: {fired}", k)
        if set(fired) != set(cov):
            return ("callback-missing", f"callbacks {fired} vs covered targets {cov}", k)
        if s["num_covered"] != len(cov) or s["solutions"] != sorted({p["sols"][0][1][0] for t, p in s["after"]["pops"] if p["covered"]}):
            return ("mio-solutions-view", f"solutions {s['solutions']} / num_covered {s['num_covered']} vs covered populations {cov}", k)
    return None


# ------------------------------------------------------------------------------------------------
def run_case(case):
    """Runs a synthetic case on the real classes; returns (coq_term_kind, coq_term, oracle_result, steps)."""
    k = case["kind"]
    I.set_tiny(case.get("tiny"))
    solmap = {s["sid"]: s for s in case["sols"]}
    if k == "arch":
        w, steps = I.run_arch_history(case["n_goals"], case["sols"], case["init"], case["ops"])
        h = clist(cpair(c_aop(s["op"], solmap), cpair(c_arch(s["after"]), c_out(s["out"]))) for s in steps)
        term = cpair(clist(cZ(g) for g in case["init"]), h)
        return "ahist", term, oracle_arch_steps(steps, w.covers), steps
    if k == "gm":
        edges = {int(a): b for a, b in case["edges"].items()}
        w, before, after = I.run_gm_case(case["n_goals"], case["sols"], edges, case["roots"], case["pre"], case["update"],
                                        case.get("prefit", False))
        graph = clist(cpair(cZ(g), clist(cZ(c) for c in ch)) for g, ch in sorted(edges.items()))
        full = {sid: s for sid, s in solmap.items()}

        def csol(o):
            return c_sol_full({**full[o[0]], "size": o[1], "st": o[2]})
        gm = lambda o: "(C13.Build_gm %s %s)" % (c_arch(o["arch"], csol), clist(cZ(g) for g in o["current"]))  # noqa: E731
        term = cpair(graph, cpair(gm(before), cpair(clist(c_sol_full(solmap[s]) for s in case["update"]), gm(after))))
        steps = [{"op": ("GMUpdate",), "before": before["arch"], "after": after["arch"], "out": ("AUnit",)}]
        return "gcase", term, oracle_arch_steps(steps, w.covers), steps
    if k == "pop":
        w, steps = I.run_pop_history(case["sols"], case["capacity"], case["ops"])
        h = clist(cpair(c_pop_op(s["op"], solmap), cpair(c_pop(s["after"]), c_out(s["out"]))) for s in steps)
        return "phist", cpair(cZ(case["capacity"]), h), oracle_pop_steps(steps), steps
    w, steps = I.run_mio_history(case["n_goals"], case["sols"], case["capacity"], case["ops"])
    h = clist(cpair(c_mop(s["op"], solmap), cpair(c_march(s["after"]), c_out(s["out"]))) for s in steps)
    term = cpair(cpair(clist(cZ(g) for g in range(case["n_goals"])), cZ(case["capacity"])), h)
    return "mhist", term, oracle_mio_steps(steps, w), steps


def c_aop(op, solmap):
    if op[0] == "Update":
        return "(C13.AUpdate %s)" % clist(c_sol_full(solmap[s]) for s in op[1])
    return "(C13.AAddGoals %s)" % clist(cZ(g) for g in op[1])


def c_pop_op(op, solmap):
    if op[0] == "Add":
        return f"(C13.PAdd {cZ(op[1])} {c_sol_full(solmap[op[2]])})"
    return f"(C13.PShrink {cZ(op[1])})"


def c_mop(op, solmap):
    if op[0] == "Update":
        return "(C13.MUpdate %s)" % clist(c_sol_full(solmap[s]) for s in op[1])
    return f"(C13.MShrink {cZ(op[1])})"


CHECKERS = {"ahist": ("C13.ahist", "C13.check_ahist"), "gcase": ("C13.gcase", "C13.check_gcase"),
            "phist": ("C13.phist", "C13.check_phist"), "mhist": ("C13.mhist", "C13.check_mhist"),
            "acase": ("C13.acase", "C13.check_acase"), "pcase": ("C13.pcase", "C13.check_pcase")}


def shrink_case(case, sig):
    """Delta-debug the op list of a synthetic case."""
    if "ops" not in case:
        return case

    def fails(c):
        try:
            r = run_case(c)[2]
        except Exception:  # noqa: BLE001
            return False
        return r is not None and r[0] == sig
    ops = list(case["ops"])
    changed = True
    while changed:
        changed = False
        for i in range(len(ops)):
            cand = {**case, "ops": ops[:i] + ops[i + 1:]}
            if fails(cand):
                ops, changed = cand["ops"], True
                break
    case = {**case, "ops": ops}
    for i in range(len(case["sols"]) - 1, -1, -1):
        cand = {**case, "sols": case["sols"][:i] + case["sols"][i + 1:]}
        used = {s for op in ops for s in (op[1] if op[0] == "Update" else [op[2]] if op[0] == "Add" else [])}
        if case["sols"][i]["sid"] not in used and fails(cand):
            case = cand
    return case


def load_case(c):
    c = dict(c)
    for s in c["sols"]:
        s["fit"] = {int(k): v for k, v in s["fit"].items()}
    if "ops" in c:
        c["ops"] = [tuple(o) for o in c["ops"]]
    return c


def run(ctx: vlib.Ctx):
    vlib.setup_impl_path()
    ctx.digest_sources(SRC)
    ctx.coq_static()
    if not ctx.quick:
        ctx.coqchk()
    n = {"arch": 500, "gm": 250, "pop": 400, "mio": 350} if ctx.quick else {"arch": 3000, "gm": 1500, "pop": 2500, "mio": 2000}
    gens = {"arch": gen_arch_case, "gm": gen_gm_case, "pop": gen_pop_case, "mio": gen_mio_case}
    corpus = [load_case(c) for c in json.loads((vlib.VERIF / "corpus" / "C13.json").read_text())]
    cases = list(corpus)
    for kind, cnt in n.items():
        for _ in range(cnt):
            cases.append(gens[kind](ctx.rng))
    terms = {k: [] for k in CHECKERS}
    origin = {k: [] for k in CHECKERS}
    n_or = 0
    for ci, case in enumerate(cases):
        try:
            kind, term, res, steps = run_case(case)
        except Exception as e:  # noqa: BLE001  (the archive raised: assertion, IndexError, KeyError ...)
            n_or += 1
            ctx.fail(f"raises:{case['kind']}:{type(e).__name__}", f"archive operation raised {type(e).__name__}: {e}", {"case": case})
            continue
        terms[kind].append(term)
        origin[kind].append(("synthetic", ci))
        ctx.case_seen(json.dumps(case, sort_keys=True, default=str), nontrivial=bool(case.get("ops") or case.get("update")))
        ctx.count(f"history:{case['kind']}")
        for s in steps:
            ctx.count(f"op:{case['kind']}:{s['op'][0]}")
            for g, old, new in s.get("assigns", []):
                ctx.count("assign:first" if old is None else "assign:replace")
        if ci == len(corpus):
            ctx.sample({"case": {k: v for k, v in case.items() if k != "sols"}, "observed": [repr((s["after"], s["out"])) for s in steps[:3]]})
        if res:
            n_or += 1
            sig, msg, k = res
            small = shrink_case(case, sig)
            ctx.fail(sig, msg, {"case": small})
    ctx.leg("S-synthetic", oracle_failures=n_or, histories=len(cases))

    # TR + S on real search runs
    suts = sorted((p for p in (vlib.VERIF / "corpus" / "C13_sut").glob("*.py") if p.stem != "flags13"), key=lambda p: (p.stem not in ("floateq13", "bank13"), p.stem))
    jobs = []
    algos = ["DYNAMOSA", "MOSA", "MIO"]
    for k in range(6 if ctx.quick else 18):
        a = algos[k % 3]
        jobs.append(dict(sut=str(suts[(k // 3) % len(suts)]), algorithm=a, metrics=["BRANCH"],
                         iterations=(ctx.rng.choice(([3, 5] if a == "MOSA" else [6, 10]) if ctx.quick else [3, 5, 8, 15]) if a != "MIO"
                                     else ctx.rng.choice([20, 40] if ctx.quick else [30, 60, 120])),
                         near_miss="floateq" in str(suts[(k // 3) % len(suts)]),
                         seed=ctx.rng.randrange(10**6), pre=I.install_observers, max_records=100 if ctx.quick else 400,
                         extra=({"mio.initial_config.number_of_tests_per_target": ctx.rng.choice([2, 3, 10])} if a == "MIO" else
                                # DynaMOSA runs its test-suite local search on the archive's solutions after every
                                # generation: make it actually pick statements (default probability 0.02)
                                {"local_search.local_search": True,
                                 "local_search.local_search_probability": ctx.rng.choice([0.5, 1.0]),
                                 "local_search.local_search_time": 3000,
                                 "search_algorithm.population": ctx.rng.choice([6, 10, 50])} if a == "DYNAMOSA" else None)))
    # DynaMOSA local search on tests that execute one predicate twice (a rejected trial must leave the test with
    # the execution result of its restored statement)
    for _ in range(1 if ctx.quick else 4):
        jobs.append(dict(sut=str(vlib.VERIF / "corpus" / "C13_sut" / "flags13.py"), algorithm="DYNAMOSA", metrics=["BRANCH"],
                         iterations=ctx.rng.choice([3, 4, 6]), seed=ctx.rng.randrange(10**6), pre=I.install_observers,
                         max_records=100 if ctx.quick else 400, twice_seed=6,
                         extra={"local_search.local_search": True, "local_search.local_search_probability": 1.0,
                                "local_search.local_search_time": 3000, "search_algorithm.population": 6}))
    runs = pipeline.run_many(jobs, I.extract, workers=6 if ctx.quick else 12, timeout=600)
    n_real = {"arch": 0, "gm": 0, "pop": 0, "reexec": 0}
    for job, r in zip(jobs, runs):
        jd = {k: v for k, v in job.items() if k != "pre"}
        if "error" in r:
            ctx.notes.append(f"real run {jd} failed: {r['error']}")
            ctx.count("real-run-error")
            if "covered targets have a fitness" in r["error"] or "algorithms/archive.py" in r.get("traceback", ""):
                # pynguin's own check of the archive (Archive.solutions asserts that every archived test
                # covers its goal) or an exception inside the archive stopped the search
                ctx.fail("real-run:archive-assertion", f"real {job['algorithm']} run stopped inside the archive: {r['error']}",
                         {"job": jd, "traceback": r.get("traceback", "")[-1500:]})
            continue
        ctx.count(f"real-run:{job['algorithm']}")
        if job.get("twice_seed"):
            ctx.count("real-run:twice-call-tests-seeded", r.get("twice_seeded", 0))
        if job.get("near_miss"):
            ctx.count("real-run:near-miss-seeded" if r.get("near_miss_injected") else "real-run:near-miss-NOT-seeded")
            if r.get("near_miss_error"):
                ctx.notes.append(f"near-miss seeding failed: {r['near_miss_error']}")
        n_real["reexec"] += r["reexec_checked"]
        ctx.count("real:reexec-inconclusive(timeout)", r.get("reexec_inconclusive", 0))
        for f in r["reexec"]:
            ctx.fail("reexecution:archived-test-does-not-cover",
                     f"archived test for goal {f['goal']} does not cover it when re-executed:\n{f['code']}", {"job": jd})
        cov_tab = {}
        for rec in r["arch"]:
            if rec["op"][0] == "Update":
                for s in rec["op"][1]:
                    cov_tab[s["sid"]] = (set(s["cov"]), set(rec["before"]["objectives"]))

        def covers(sid, g, cov_tab=cov_tab):
            if sid not in cov_tab or g not in cov_tab[sid][1]:
                return None
            return g in cov_tab[sid][0]
        for prev, nxt in zip(r["arch"], r["arch"][1:]):
            pa = [(g, s["sid"], s["size"], s.get("dig")) for g, s in prev["after"]["covered"]]
            nb = [(g, s["sid"], s["size"], s.get("dig")) for g, s in nxt["before"]["covered"]]
            if pa != nb:
                diff = [(x, y) for x, y in zip(pa, nb) if x != y][:3]
                ctx.fail("archived-test-modified-in-place",
                         f"real run: archived (goal, test, size, code digest) entries changed between two archive calls: {diff} "
                         "(the archive stores the chromosome object; it was modified after being archived)", {"job": jd})
                break
        for rec in r["arch"]:
            op = rec["op"]
            cop = ("(C13.AUpdate %s)" % clist(c_sol_real(s) for s in op[1])) if op[0] == "Update" else \
                  ("(C13.AAddGoals %s)" % clist(cZ(g) for g in op[1]))
            terms["acase"].append(cpair(c_arch_real(rec["before"]), cpair(cop, cpair(c_arch_real(rec["after"]), c_out(rec["out"])))))
            origin["acase"].append(("real", jd))
            n_real["arch"] += 1
            st = [{"op": op, "before": {**rec["before"], "covered": [(g, real_obs_sol(s)) for g, s in rec["before"]["covered"]]},
                   "after": {**rec["after"], "covered": [(g, real_obs_sol(s)) for g, s in rec["after"]["covered"]]}, "out": rec["out"]}]
            res = oracle_arch_steps(st, covers)
            if res:
                ctx.fail(res[0], "real run: " + res[1], {"job": jd, "op": repr(op)[:400]})
        for rec in r["gm"]:
            def gmt(o):
                return "(C13.Build_gm %s %s)" % (c_arch_real(o["arch"]), clist(cZ(g) for g in o["current"]))
            graph = clist(cpair(cZ(g), clist(cZ(c) for c in ch)) for g, ch in rec["graph"])
            terms["gcase"].append(cpair(graph, cpair(gmt(rec["before"]), cpair(clist(c_sol_real(s) for s in rec["sols"]), gmt(rec["after"])))))
            origin["gcase"].append(("real", jd))
            n_real["gm"] += 1
        for rec in r["pop"]:
            op = rec["op"]
            if not rec["h_in_range"]:
                ctx.fail("mio-h-out-of-range", "add_solution called with h outside [0,1]", {"job": jd})
                continue

            def rp(o):
                return {"capacity": o["capacity"], "covered": o["covered"], "sols": [(h, real_obs_sol(s)) for h, s in o["sols"]]}
            cop = f"(C13.PAdd {cZ(op[1])} {c_sol_real(op[2])})" if op[0] == "Add" else f"(C13.PShrink {cZ(op[1])})"
            terms["pcase"].append(cpair(c_pop(rp(rec["before"])), cpair(cop, cpair(c_pop(rp(rec["after"])), c_out(rec["out"])))))
            origin["pcase"].append(("real", jd))
            n_real["pop"] += 1
            a = rp(rec["after"])
            a["_ret"] = rec["out"][0] == "ABool" and rec["out"][1]
            res = oracle_pop_step(rp(rec["before"]), a, op)
            if res:
                ctx.fail(res[0], "real run: " + res[1], {"job": jd, "op": repr(op)[:300]})
    for k, v in n_real.items():
        ctx.count(f"real:{k}", v)
    ctx.leg("TR", real_runs=len(jobs), observed_calls=n_real)
    if sum(1 for r in runs if "error" not in r) == 0:
        ctx.broken("real-runs", "no real search run could be observed", {"errors": [r.get("error") for r in runs][:3]})
    ctx.cov["rule"] = ("random update histories over synthetic solutions (real TestCaseChromosome objects; 1..5 goals, 2..8 solutions, "
                       "sizes 1..5, clean/exception/timeout/no result) for CoverageArchive, _GoalsManager.update (random goal graphs, also "
                       "cyclic), MIOPopulation (h in {0, 1, interior}, capacities 1..4, shrink) and MIOArchive; plus every archive call "
                       "observed in real DYNAMOSA/MOSA/MIO runs; non-trivial = at least one operation; distinct = distinct case data")
    for kind, (ctype, chk) in CHECKERS.items():
        if not terms[kind]:
            continue
        bad = ctx.run_cases(f"C13_{kind}", "From Verif Require Import Models.C13.", ctype, chk, terms[kind], shard=150)
        if bad is None:
            continue
        if bad:
            ctx.leg("K2-" + kind, ok=False, mismatches=len(bad))
            src, ref = origin[kind][bad[0]]
            detail = {"kind": kind, "mismatching": len(bad), "origin": src}
            if src == "synthetic":
                detail["case"] = cases[ref]
            else:
                detail["job"] = ref
                detail["term"] = terms[kind][bad[0]][:3000]
            if not [f for f in ctx.failures if f.kind == "input" and not f.signature.startswith("replacement:mio:equal-size")]:
                ctx.broken(f"correspondence:C13-model-vs-{kind}", "the archive model (about which the theorems are proved) no longer "
                           "reproduces the implementation", detail)
        else:
            ctx.leg("K2-" + kind, ok=True, cases=len(terms[kind]))
    ctx.assumptions += [
        "solutions are not mutated in place after they were handed to the archive and the SUT is deterministic (needed for "
        "'covers when re-executed'; monitored by re-executing archived tests after every archive update of real runs, not proved)",
        "`solutions` passed to update is re-iterable (a list), as in all callers",
        "MIO: fitness values small enough that 1 - f/(1+f) is strictly decreasing in binary64 (h = 0.0 only for huge f)",
        "CoverageArchive.reset() is not part of a search history (no caller in the search algorithms)",
    ]
    ctx.cov["trusted_base"] += ["hand-written model Models/C13.v tied by state-by-state correspondence on synthetic histories and on calls observed in real runs (this run)",
                                "harness/props/C13.py, _c13_impl.py (stub fitness functions, abstraction of chromosomes, observers, oracle)"]


def replay(ctx, path):
    vlib.setup_impl_path()
    d = json.loads(open(path).read())["replay"]
    if "case" not in d:
        print("real-run finding; job:", d.get("job"))
        return 0
    case = load_case(d["case"])
    kind, term, res, steps = run_case(case)
    for s in steps:
        print(s["op"], "->", s["out"], "| after:", s["after"], "| assigns:", s.get("assigns"))
    print("oracle:", res)
    print("model agrees:", ctx.coq_eval("From Verif Require Import Models.C13.", f"{CHECKERS[kind][1]} {term}"))
    return 0
