"""C17 — search stops as soon as a configured budget is exhausted.

T   static Coq proofs about the search-loop model (Properties/C17.v).
K1a the counting stopping conditions (is_fulfilled, observer hooks) and resources_left are
    re-translated from the Python source on every run (_c17_py2v, fail closed) and proved equal to
    the model's definitions.
K2  random hook sequences on the real stopping-condition objects vs. the model.
TR  real short searches of every algorithm with small budgets, observed through a
    SearchObserver/ExecutionObserver; the Coq loop model must accept every event trace and
    reproduce the counters the real conditions report after every event.
S   direct oracle on the same traces with independent counting: iterations <= budget, nothing
    happens after an iteration boundary at which a budget is reached, except after_search_finish.
"""
from __future__ import annotations

import json
import threading

import pipeline
import vlib
from vlib import cZ, cbool, clist, copt, cpair

from props import _c17_py2v as tr17

SRC = ["src/pynguin/ga/stoppingcondition.py", "src/pynguin/ga/algorithms/generationalgorithm.py",
       "src/pynguin/ga/generationalgorithmfactory.py"]
ALGOS = ["DYNAMOSA", "MOSA", "MIO", "WHOLE_SUITE", "RANDOM", "RANDOM_TEST_SUITE_SEARCH", "RANDOM_TEST_CASE_SEARCH"]
HAS_FIRST = {a: a != "MIO" for a in ALGOS}
KINDS = ["iter", "test", "stmt"]
CLS = {"iter": "MaxIterationsStoppingCondition", "test": "MaxTestExecutionsStoppingCondition",
       "stmt": "MaxStatementExecutionsStoppingCondition"}


# ------------------------------------------------------------------------------------------------
# observation of a real run (runs in the forked child)
def pre_attach(algorithm, executor, cluster, job):
    import pynguin.ga.searchobserver as so
    from pynguin.testcase.execution import ExecutionObserver, RemoteExecutionObserver

    class CountRemote(RemoteExecutionObserver):
        """Independent statement counter (per executing thread)."""

        def __init__(self):
            super().__init__()
            self._loc = threading.local()

        def before_test_case_execution(self, test_case):
            self._loc.n = 0

        def before_statement_execution(self, statement, node, namespace):
            self._loc.n = getattr(self._loc, "n", 0) + 1
            return node

        def after_test_case_execution(self, executor, test_case, result):
            result.verif_stmts = getattr(self._loc, "n", 0)

    class Obs(so.SearchObserver, ExecutionObserver):
        def __init__(self):
            self.events = []
            self.body = None
            self._remote = CountRemote()
            self.conds = {}
            for sc in algorithm.stopping_conditions:
                for k, name in CLS.items():
                    if type(sc).__name__ == name:
                        self.conds[k] = sc
            self.others = [type(sc).__name__ for sc in algorithm.stopping_conditions if type(sc).__name__ not in CLS.values()]

        def snap(self):
            return [self.conds[k].current_value() if k in self.conds else None for k in KINDS]

        def ev(self, name, k=None):
            if len(self.events) < 60000:
                self.events.append([name, k, self.snap()])

        @property
        def remote_observer(self):
            return self._remote

        def before_remote_test_case_execution(self, test_case):
            self.ev("Exec")

        def after_remote_test_case_execution(self, test_case, result):
            self.ev("ExecEnd", int(getattr(result, "verif_stmts", result.num_executed_statements)))

        def before_search_start(self, start_time_ns):
            self.ev("SearchStart")

        def before_first_search_iteration(self, initial):
            self.ev("FirstIter")

        def after_search_iteration(self, best):
            self.ev("IterEnd")

        def after_search_finish(self):
            self.ev("SearchEnd")

    obs = Obs()
    # every pass through the loop body: evolve() (MOSA, DynaMOSA, MIO, whole suite) / generate_sequence() (random)
    for body in ("evolve", "generate_sequence"):
        if hasattr(algorithm, body):
            original = getattr(algorithm, body)

            def wrapped(*a, __orig=original, **kw):
                obs.ev("IterStart")
                return __orig(*a, **kw)
            setattr(algorithm, body, wrapped)
            obs.body = body
            break
    algorithm.add_search_observer(obs)
    executor.add_observer(obs)
    algorithm._verif_obs = obs


def extract(algorithm, suite, executor, cluster, job):
    obs = algorithm._verif_obs
    return {"events": obs.events, "limits": [obs.conds[k].limit() if k in obs.conds else None for k in KINDS],
            "others": obs.others, "body": obs.body, "tests": suite.size() if hasattr(suite, "size") else -1,
            "job": {k: v for k, v in job.items() if k != "pre"}}


# ------------------------------------------------------------------------------------------------
# S: direct oracle with independent counting
def oracle_trace(events, limits, has_first):
    """None or (signature, message, index).  limits = [iter, test, stmt] (None = not configured)."""
    names = {"iter": "iterations", "test": "test-executions", "stmt": "statement-executions"}
    if not events or events[0][0] != "SearchStart":
        return ("trace:no-search-start", "the run does not begin with before_search_start", 0)
    cnt = {"iter": 0, "test": 0, "stmt": 0}
    at_head = not has_first
    ended = False
    starts = 0
    for i, (name, k, snap) in enumerate(events[1:], 1):
        if ended:
            if name in ("IterEnd", "FirstIter", "SearchStart", "SearchEnd", "IterStart"):
                return ("trace:event-after-search-finish", f"{name} after after_search_finish", i)
        elif at_head and name != "SearchEnd":
            for kind, lim in zip(KINDS, limits):
                if lim is not None and cnt[kind] >= lim:
                    return (f"budget:{names[kind]}:iteration-started",
                            f"an iteration started ({name}) although {cnt[kind]} {names[kind]} >= budget {lim} at the iteration boundary", i)
        if name == "IterStart":
            if not at_head and not ended:
                return ("budget:iterations:uncounted-loop-pass",
                        f"the loop body was entered again (pass {starts + 1}) without after_search_iteration since the previous pass: "
                        f"{cnt['iter']} iterations counted, budget {limits[0]}", i)
            starts += 1
            at_head = False
            if limits[0] is not None and starts > limits[0]:
                return ("budget:iterations:exceeded", f"{starts} passes through the loop body, budget {limits[0]}", i)
        elif name == "Exec":
            cnt["test"] += 1
            at_head = False
        elif name == "ExecEnd":
            cnt["stmt"] += k
            at_head = False
        elif name == "IterEnd":
            cnt["iter"] += 1
            at_head = True
            if limits[0] is not None and cnt["iter"] > limits[0]:
                return ("budget:iterations:exceeded", f"{cnt['iter']} completed iterations, budget {limits[0]}", i)
        elif name == "FirstIter":
            at_head = True
        elif name == "SearchEnd":
            ended = True
        for kind, real in zip(KINDS, snap):
            if real is not None and not ended and real != cnt[kind]:
                return (f"counter:{names[kind]}:mismatch",
                        f"after event {i} ({name}) the real condition reports {real} {names[kind]}, counted {cnt[kind]}", i)
    if not ended:
        return ("trace:no-search-finish", "after_search_finish never called", len(events))
    return None


# ------------------------------------------------------------------------------------------------
def c_cond(lim):
    return copt(None if lim is None else "{| C17.cnt := 0; C17.lim := %s |}" % cZ(lim))


def c_conds(limits):
    return "{| C17.c_iter := %s; C17.c_test := %s; C17.c_stmt := %s |}" % tuple(c_cond(l) for l in limits)


def c_event(name, k):
    return f"(C17.ExecEnd {cZ(k)})" if name == "ExecEnd" else f"C17.{name}"


def c_run(has_first, limits, events):
    evs = clist(cpair(c_event(n, k), cpair(*[copt(None if v is None else cZ(v)) for v in snap])) for n, k, snap in events)
    return f"C17.CRun {cbool(has_first)} {c_conds(limits)} {evs}"


COPS = {"OStart": "C17.OStart", "OIter": "C17.OIter", "OExec": "C17.OExec", "OReset": "C17.OReset"}


def run_cond(kind, limit, ops):
    import pynguin.ga.stoppingcondition as sc

    class R:
        def __init__(self, n):
            self.num_executed_statements = n
    c = getattr(sc, CLS[kind])(limit)
    out = []
    for op in ops:
        if op[0] == "OStart":
            c.before_search_start(0)
        elif op[0] == "OIter":
            c.after_search_iteration(None)
        elif op[0] == "OExec":
            c.before_remote_test_case_execution(None)
        elif op[0] == "OExecEnd":
            c.after_remote_test_case_execution(None, R(op[1]))
        elif op[0] == "OSetLimit":
            c.set_limit(op[1])
        elif op[0] == "OReset":
            c.reset()
        out.append((c.current_value(), bool(c.is_fulfilled()), c.limit()))
    return out


def c_cop(op):
    if op[0] == "OExecEnd":
        return f"(C17.OExecEnd {cZ(op[1])})"
    if op[0] == "OSetLimit":
        return f"(C17.OSetLimit {cZ(op[1])})"
    return COPS[op[0]]


def gen_jobs(rng, n, suts):
    jobs = []
    for i in range(n):
        algo = ALGOS[i % len(ALGOS)]
        mode = ["iter", "test", "stmt", "all", "iter1", "test-small"][(i + i // len(ALGOS)) % 6]
        if algo in ("MIO", "RANDOM") and mode in ("iter", "iter1", "all"):
            mode = "iter-large"        # many cheap loop passes, most of them without any improvement
        job = dict(sut=str(suts[rng.randrange(len(suts))]), algorithm=algo, seed=rng.randrange(10 ** 6), pre=pre_attach,
                   extra={"search_algorithm.population": rng.choice([4, 6, 10])})
        if mode == "iter":
            job["iterations"] = rng.randint(1, 10)
        elif mode == "iter1":
            job["iterations"] = 1
        elif mode == "iter-large":
            job["iterations"] = rng.choice([8, 10, 16, 25, 40])
        elif mode == "test":
            job["iterations"] = 40
            job["executions"] = rng.randint(1, 200)
        elif mode == "test-small":
            job["iterations"] = 10
            job["executions"] = rng.randint(1, 12)
        elif mode == "stmt":
            job["iterations"] = 40
            job["statements"] = rng.randint(1, 600)
        else:
            job["iterations"] = rng.randint(1, 10)
            job["executions"] = rng.randint(1, 200)
            job["statements"] = rng.randint(1, 600)
        jobs.append(job)
    return jobs


def run(ctx: vlib.Ctx):
    vlib.setup_impl_path()
    ctx.digest_sources(SRC)
    ctx.coq_static()
    if not ctx.quick:
        ctx.coqchk()
    rng = ctx.rng

    # ---- K1a: translate the conditions from the source and re-check the tie ----------------------
    k1_ok = False
    try:
        text, info = tr17.translate((ctx.repo / SRC[0]).read_text(), (ctx.repo / SRC[1]).read_text())
        gen = ctx.work / "C17_gen.v"
        gen.write_text(text)
        tie = ctx.work / "C17_tie.v"
        tie.write_text(tr17.TIE)
        k1_ok = ctx.coq_dyn([gen, tie], "stoppingcondition.py / resources_left translated by _c17_py2v")
        ctx.cov["translator"] = {"ok": k1_ok, "attributes": info}
    except tr17.Untranslatable as e:
        ctx.cov["translator"] = {"ok": False, "error": str(e)}
        ctx.leg("K1", ok=False, error=str(e))
        ctx.broken("translator:stoppingcondition", f"stopping conditions left the translatable fragment: {e}", {"error": str(e)})

    cases, recs = [], []
    n_fail = 0
    # ---- K2: hook sequences on the real condition objects ------------------------------------------
    for _ in range(120 if ctx.quick else 1500):
        kind = rng.choice(KINDS)
        limit = rng.choice([1, 2, 3, 5, 10, 200])
        ops = []
        for _ in range(rng.choice([1, 3, 6, 12, 25])):
            c = rng.random()
            if c < 0.08:
                ops.append(("OStart",))
            elif c < 0.40:
                ops.append(("OIter",))
            elif c < 0.70:
                ops.append(("OExec",))
            elif c < 0.92:
                ops.append(("OExecEnd", rng.choice([0, 1, 2, 3, 7, 50])))
            elif c < 0.97:
                ops.append(("OSetLimit", rng.choice([1, 2, 4, 9])))
            else:
                ops.append(("OReset",))
        obs = run_cond(kind, limit, ops)
        # direct: is_fulfilled <-> counter >= limit, counter counts its own events
        n = 0
        lim = limit
        for op, (cur, ful, lm) in zip(ops, obs):
            if op[0] in ("OStart", "OReset"):
                n = 0
            elif (op[0], kind) in (("OIter", "iter"), ("OExec", "test")):
                n += 1
            elif op[0] == "OExecEnd" and kind == "stmt":
                n += op[1]
            elif op[0] == "OSetLimit":
                lim = op[1]
            if cur != n or ful != (n >= lim) or lm != lim:
                n_fail += 1
                ctx.fail(f"condition:{kind}:counter-or-verdict", f"{CLS[kind]}({limit}) after {ops}: value {cur}, fulfilled {ful}, limit {lm}; expected {n}, {n >= lim}, {lim}",
                         {"kind": "cond", "cond": kind, "limit": limit, "ops": [list(o) for o in ops]})
                break
        cases.append("C17.CCond C17.K%s %s %s %s" % (kind.capitalize(), cZ(limit), clist(c_cop(o) for o in ops),
                                                     clist(cpair(cZ(a), cbool(b)) for a, b, _ in obs)))
        recs.append(("cond", {"cond": kind, "limit": limit, "ops": [list(o) for o in ops], "impl": [list(o) for o in obs]}))
        ctx.case_seen(("cond", kind, limit, ops), nontrivial=len(ops) > 1)
        ctx.count("cond:" + kind)

    # ---- TR: real runs -----------------------------------------------------------------------------
    suts = sorted((vlib.VERIF / "corpus" / "sut").glob("*.py")) + sorted((vlib.VERIF / "corpus" / "C17_sut").glob("*.py"))
    corpus = json.loads((vlib.VERIF / "corpus" / "C17.json").read_text())
    jobs = [dict(j, sut=str(vlib.VERIF / "corpus" / j["sut"]), pre=pre_attach) for j in corpus]
    jobs += gen_jobs(rng, 21 if ctx.quick else 420, suts)
    ctx.log(f"{len(jobs)} real runs ...")
    runs = pipeline.run_many(jobs, extract, workers=10 if ctx.quick else 14, timeout=300)
    ctx.log("real runs done")
    n_runs = 0
    for job, r in zip(jobs, runs):
        jd = {k: v for k, v in job.items() if k != "pre"}
        if "error" in r:
            ctx.notes.append(f"real run {jd} failed: {r['error']}")
            ctx.count("run-error")
            continue
        n_runs += 1
        hf = HAS_FIRST[job["algorithm"]]
        events, limits = r["events"], r["limits"]
        expected_limits = [job.get("iterations", 5) if job.get("iterations", 5) >= 0 else None,
                           job.get("executions", -1) if job.get("executions", -1) >= 0 else None,
                           job.get("statements", -1) if job.get("statements", -1) >= 0 else None]
        for oc in r["others"]:
            ctx.count("run:also-configured:" + oc)      # e.g. the default MaxMemoryStoppingCondition: can only end the search earlier
        if limits != expected_limits:
            n_fail += 1
            ctx.fail("factory:conditions-differ-from-configuration",
                     f"configured budgets {expected_limits} but the algorithm holds limits {limits}", {"kind": "run", "job": jd})
        o = oracle_trace(events, limits, hf)
        n_it = sum(1 for e in events if e[0] == "IterEnd")
        ctx.count("run:loop-body-observed" if r.get("body") else "run:loop-body-not-wrapped")
        n_ex = sum(1 for e in events if e[0] == "Exec")
        ctx.case_seen(("run", jd["algorithm"], jd["sut"], jd["seed"], limits), nontrivial=n_ex > 0)
        ctx.count("run:" + job["algorithm"])
        ctx.count("run:budgets=" + "+".join(k for k, l in zip(KINDS, limits) if l is not None))
        ctx.count("run:iterations=0" if n_it == 0 else ("run:iterations=budget" if n_it == limits[0] else "run:iterations<budget"))
        head_cnt = None
        if limits[1] is not None and n_ex >= limits[1]:
            ctx.count("run:test-budget-reached")
        if limits[2] is not None and sum(e[1] for e in events if e[0] == "ExecEnd") >= limits[2]:
            ctx.count("run:statement-budget-reached")
        ctx.sample({"job": jd, "iterations": n_it, "executions": n_ex, "limits": limits,
                    "trace_head": [e[0] for e in events[:12]]}, limit=4)
        if o:
            n_fail += 1
            sig, msg, idx = o
            ctx.fail(sig, f"{job['algorithm']} on {jd['sut'].split('/')[-1]} (limits iter/test/stmt = {limits}): {msg}",
                     {"kind": "run", "job": jd, "limits": limits, "has_first": hf, "failing_event_index": idx,
                      "events_until_failure": [[n, k] for n, k, _ in events[max(0, idx - 40):idx + 1]],
                      "counters_at_failure": events[min(idx, len(events) - 1)][2]})
        cases.append(c_run(hf, limits, events))
        recs.append(("run", {"job": jd, "limits": limits, "events": len(events)}))
    ctx.leg("TR", real_runs=n_runs, errors=len(jobs) - n_runs)
    if n_runs == 0:
        ctx.broken("real-runs", f"none of the {len(jobs)} real search runs produced a trace", {"notes": ctx.notes[:5]})
    ctx.leg("S", oracle_failures=n_fail, cases=len(cases))

    bad = ctx.run_cases("C17_cases", "From Verif Require Import Models.C17.", "C17.case", "C17.check_case", cases, shard=40)
    if bad is None:
        pass
    elif bad:
        ctx.leg("K2", ok=False, mismatches=len(bad), kinds=sorted({recs[i][0] for i in bad}))
        if n_fail == 0:
            ctx.broken("correspondence:C17-loop-model-vs-runs",
                       "the loop / stopping-condition model (about which the theorems are proved) rejects a real run or disagrees on a counter",
                       {"first": recs[bad[0]], "mismatching_cases": len(bad)})
    else:
        ctx.leg("K2", ok=True, cases=len(cases))
    ctx.cov["rule"] = ("real in-process searches (7 algorithms x 3 small modules x budgets: 1..10 iterations, 1..200 test executions, "
                       "1..600 statement executions, alone and combined) observed event by event, plus random hook sequences on the "
                       "real condition objects; non-trivial = at least one test execution / more than one hook call; distinct = "
                       "distinct (algorithm, module, seed, budgets) / hook sequences")
    ctx.assumptions += [
        "iteration boundaries are the observer calls before_first_search_iteration / after_search_iteration (MIO: before_search_start); "
        "an iteration has started iff any execution or after_search_iteration event follows a boundary",
        "only the three counting budgets are modelled; time and coverage conditions are left unconfigured in the runs; the default "
        "MaxMemoryStoppingCondition stays configured (it can only end the search earlier, which the loop model allows at every boundary)",
        "test executions inside an iteration are not interrupted: a budget reached in the middle of an iteration takes effect at the next boundary (as the property states)",
    ]
    ctx.cov["trusted_base"] += ["harness/props/_c17_py2v.py (translator; fail closed) and the tie lemmas re-checked by coqc in this run",
                                "harness/props/C17.py (observer, independent counting oracle), harness/pipeline.py",
                                "hand-written loop model Models/C17.v tied by trace acceptance of real runs (this run)"]


def replay(ctx, path):
    vlib.setup_impl_path()
    d = json.loads(open(path).read())["replay"]
    if d.get("kind") == "run":
        job = dict(d["job"], pre=pre_attach)
        r = pipeline.run_one(job, extract, timeout=300)
        if "error" in r:
            print("run failed:", r["error"])
            return 1
        hf = HAS_FIRST[job["algorithm"]]
        print("limits:", r["limits"], "events:", len(r["events"]))
        print("oracle:", oracle_trace(r["events"], r["limits"], hf))
        print("model accepts:", ctx.coq_eval("From Verif Require Import Models.C17.", "C17.check_case (" + c_run(hf, r["limits"], r["events"]) + ")"))
    elif d.get("kind") == "cond":
        ops = [tuple(o) for o in d["ops"]]
        print("implementation:", run_cond(d["cond"], d["limit"], ops))
    else:
        print(d)
    return 0
