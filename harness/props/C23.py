"""C23 — literal values round-trip through generated source.

T  static proofs (Properties/C23.v).
K2 real literal_to_cst / parse_literal / generate_literal / mutate_literal against the Coq model:
   rendered expression compared token by token (token = the value CPython reads from its text),
   Python's eval of the rendered code and parse_literal's answer compared bit-exactly with the model's
   evaluator / parser; generator outputs must lie in the shape the theorems are proved for.
S  direct oracle: render -> code -> compile -> eval / parse_literal, identical value (float.hex-level:
   signed zeros, NaN, infinities); generated / mutated literals compile and evaluate to the type."""
from __future__ import annotations

import builtins
import json
import math

import vlib
from props import _c20_pyexpr as px
from props._c20_pyexpr import c_expr, c_res, c_value, classify, cst_to_expr, ident

SRC = ["src/pynguin/testcase/literalgen.py"]
IMPORTS = ("From Coq Require Import String PrimFloat.\nFrom Verif Require Import Base.PyExpr Models.C23.\n"
           "Import PyExpr C23.\nOpen Scope list_scope.")
TYN = {bool: "TBool", int: "TInt", float: "TFloat", complex: "TComplex", str: "TStr", bytes: "TBytes",
       list: "TList", set: "TSet", tuple: "TTuple", dict: "TDict", None: "TNone"}
EVAL_NS = {"inf": math.inf, "nan": math.nan, **px.ENUM_NS}


def raw_of(v):
    return None if v is None else type(v)


# ---------------------------------------------------------------------------------------------
def run_render(lg, v):
    """Drive the real renderer / evaluator / parser on v."""
    rec = {"value": v}
    try:
        node = lg.literal_to_cst(v)
    except Exception as e:  # noqa: BLE001
        rec["render_exc"] = type(e).__name__
        return rec
    rec["node"] = node
    rec["code"] = code = px.code_of(node)
    try:
        compile(code, "<literal>", "eval")
    except (SyntaxError, ValueError, MemoryError, RecursionError) as e:
        rec["syntax"] = type(e).__name__
    try:
        rec["eval"] = ("ok", eval(code, {"__builtins__": builtins}))  # noqa: S307
    except Exception as e:  # noqa: BLE001
        rec["eval"] = ("err", type(e).__name__)
    try:
        rec["parsed"] = ("ok", lg.parse_literal(node, raw_of(v)))
    except Exception as e:  # noqa: BLE001
        rec["parsed"] = ("exc", type(e).__name__)
    return rec


def plain(v):
    if v is None or isinstance(v, (bool, int, str, bytes)):
        return True
    if isinstance(v, float):
        return math.isfinite(v)
    if isinstance(v, (list, tuple, set)):
        return all(plain(x) for x in v)
    if isinstance(v, dict):
        return all(plain(k) and plain(x) for k, x in v.items())
    return False


def parseable(v):
    if isinstance(v, complex):
        return math.isfinite(v.real) and math.isfinite(v.imag)
    return plain(v)


def oracle_render(rec):
    """What the property states, on the implementation alone.  -> None | (kind, message)."""
    v = rec["value"]
    if "render_exc" in rec:
        return ("render", f"literal_to_cst({px.srepr(v)}) raises {rec['render_exc']}")
    if "syntax" in rec:
        return ("syntax", f"literal_to_cst({px.srepr(v)}) renders {rec['code']!r}, which is not valid Python ({rec['syntax']})")
    k, r = rec["eval"]
    if k != "ok":
        return ("roundtrip:eval", f"{rec['code']!r} (rendered from {px.srepr(v)}) raises {r} when evaluated")
    if not ident(r, v):
        return ("roundtrip:eval", f"{px.srepr(v)} renders as {rec['code']!r}, which evaluates to {px.srepr(r)}")
    if parseable(v):
        k, p = rec["parsed"]
        if k != "ok":
            return ("roundtrip:parse", f"parse_literal({rec['code']!r}) raises {p}")
        if not (p is None and v is None) and (p is None or not ident(p, v)):
            return ("roundtrip:parse", f"{px.srepr(v)} renders as {rec['code']!r}, which parse_literal reads as {px.srepr(p)}")
    return None


def shrink_value(lg, v, kind):
    """Smallest sub-value that still fails the same way."""
    changed = True
    while changed:
        changed = False
        subs = []
        if isinstance(v, (list, tuple, set)):
            subs = list(v)
        elif isinstance(v, dict):
            subs = list(v.keys()) + list(v.values())
        for s in subs:
            r = oracle_render(run_render(lg, s))
            if r and r[0] == kind:
                v, changed = s, True
                break
    return v


# ---------------------------------------------------------------------------------------------
PARSE_SOURCES = [
    "complex(1, 2.0)", "complex(-1, -0.0)", "complex(1.5)", "complex(1, 2, 3)", "complex(1.0, imag=2.0)",
    "complex(real=1.0, imag=-2.0)", "complex(1.0, x)", "complex(float('inf'), 1.0)", "complex(-0.0, 0.0)",
    "-True", "--1", "- 1", "(1)", "[1, float('inf')]", "{[1]}", "set()", "{}", "{1: [2]}", "{(1,): 2}",
    "[[1], (2,), {3}]", "None", "True", "False", "float('nan')", "-float('inf')", "'a'", "b'a'", "set([1])",
    "{1, 1.0, True}", "{1.0, 1}", "{1: 'a', True: 'b', 1.0: 'c'}", "{0.0, -0.0}", "{-0.0, 0.0}", "[-0.0]", "(-0.0, 0.0)",
    "x", "[x]", "{'a': x}", "-1.5", "-0.0", "0.0", "1e400", "-1e400", "5e-324", "()", "(1,)", "[]", "{1: {2: {3}}}",
    "{(1, (2, 3)): [4]}", "{{1}}", "{1: 2, 'a': -3, b'b': (4,)}", "[None, True, -1, 'x']", "-(1)", "- -1.0",
    "float('inf')", "set(x)", "list()", "{1, 2, 1}", "{2: 'a', 1: 'b', 2: 'c'}", "(True, 1, 1.0)", "{True, 0, 1, False}",
    "9007199254740993", "{9007199254740993, 9007199254740992.0}", "{9007199254740992, 9007199254740992.0}", "{0, -0.0}",
]
ALL_RAWS = [bool, int, float, complex, str, bytes, list, set, tuple, dict, None]


def run_parse(lg, node, raw):
    try:
        return ("ok", lg.parse_literal(node, raw))
    except Exception as e:  # noqa: BLE001
        return ("exc", type(e).__name__)


def c_parsed(p):
    return "None" if p is None else f"(Some {c_value(p)})"


# ---------------------------------------------------------------------------------------------
class Provider:
    """Constant provider handing out adversarial seeded constants."""

    def __init__(self, rng, p):
        self.rng, self.p = rng, p
        self.strs = [px.gen_str(rng) for _ in range(rng.choice([0, 1, 2, 5]))]

    def get_constant_for(self, tp):
        r = self.rng
        if r.random() >= self.p:
            return None
        if tp is int:
            return px.gen_int(r)
        if tp is float:
            return px.gen_float(r)
        if tp is complex:
            return px.gen_complex(r)
        if tp is str:
            return r.choice(self.strs) if self.strs else None
        if tp is bytes:
            return px.gen_bytes(r)
        return None

    def get_all_constants_for(self, tp):
        from pynguin.utils.orderedset import OrderedSet

        return OrderedSet(self.strs) if tp is str else OrderedSet()


def random_config(rng):
    import pynguin.configuration as config
    from pynguin.utils import randomness

    c = config.configuration
    c.test_creation.max_int = rng.choice([0, 1, 5, 2048, 10 ** 6])
    c.test_creation.string_length = rng.choice([1, 2, 5, 20])   # 0 makes randrange(0, 0) raise: not a configuration
    c.test_creation.bytes_length = rng.choice([0, 1, 2, 20])
    c.test_creation.collection_size = rng.choice([1, 2, 5])
    c.test_creation.max_delta = rng.choice([0, 1, 20, 1000])
    c.test_creation.collection_reference_probability = rng.choice([0.0, 0.5, 1.0])
    c.seeding.seeded_primitives_reuse_probability = rng.choice([0.0, 0.2, 0.9, 1.0])
    c.string_statement.token_assembly_probability = rng.choice([0.0, 0.2, 1.0])
    c.string_statement.max_assembled_tokens = rng.choice([1, 2, 4])
    c.search_algorithm.random_perturbation = rng.choice([0.0, 0.2, 1.0])
    randomness.RNG.seed(rng.getrandbits(32))
    return {"max_int": c.test_creation.max_int, "collection_size": c.test_creation.collection_size,
            "seed_p": c.seeding.seeded_primitives_reuse_probability, "perturb": c.search_algorithm.random_perturbation}


def gen_draws(lg, rng):
    """One generate_literal call followed by 0..3 mutate_literal calls.  Yields records."""
    import libcst as cst

    cfg = random_config(rng)
    prov = Provider(rng, rng.choice([0.0, 0.5, 1.0]))
    raw = rng.choice(ALL_RAWS + [list, set, tuple, dict, float, complex])
    ns, pool = {}, []
    for i in range(rng.choice([0, 0, 1, 3])):
        val = rng.choice([px.gen_int(rng), px.gen_str(rng), px.gen_float(rng), (1, "a"), None, True,
                          [1, 2] if rng.random() < 0.4 else 7, {"k": 1} if rng.random() < 0.3 else b"x"])
        if isinstance(val, float) and math.isnan(val):
            val = 0.5       # object identity is not modelled: `{var_0, var_0}` with a NaN keeps one element (`is` shortcut)
        ns[f"var_{i}"] = val
        pool.append(cst.Name(f"var_{i}"))
    hashable_pool = all(px._hashable(v) for v in ns.values())
    out = []
    try:
        node = lg.generate_literal(raw, prov, pool)
    except Exception as e:  # noqa: BLE001
        return [{"raw": raw, "op": "generate", "exc": type(e).__name__, "cfg": cfg, "ns": ns}]
    out.append({"raw": raw, "op": "generate", "node": node, "cfg": cfg, "ns": ns, "refs_ok": raw is not set or hashable_pool})
    for _ in range(rng.choice([0, 1, 2, 3])):
        try:
            node = lg.mutate_literal(node, raw, prov, pool)
        except Exception as e:  # noqa: BLE001
            out.append({"raw": raw, "op": "mutate", "exc": type(e).__name__, "cfg": cfg, "ns": ns})
            break
        out.append({"raw": raw, "op": "mutate", "node": node, "cfg": cfg, "ns": ns, "refs_ok": raw is not set or hashable_pool})
    return out


def eval_gen(rec):
    code = rec["code"] = px.code_of(rec["node"])
    try:
        compile(code, "<literal>", "eval")
    except (SyntaxError, ValueError) as e:
        rec["syntax"] = type(e).__name__
    try:
        rec["eval"] = ("ok", eval(code, {"__builtins__": builtins, **rec["ns"]}))  # noqa: S307
    except Exception as e:  # noqa: BLE001
        rec["eval"] = ("err", type(e).__name__)


def oracle_gen(rec):
    raw = rec["raw"]
    tn = raw.__name__ if raw else "None"
    if "exc" in rec:
        return (f"generated:{tn}:raises", f"{rec['op']}_literal({tn}) raises {rec['exc']} under {rec['cfg']}")
    if "syntax" in rec:
        return (f"generated:{tn}:syntax", f"{rec['op']}_literal({tn}) produced {rec['code']!r}: not valid Python")
    if not rec["refs_ok"]:
        return None          # an unhashable pooled reference inside a set display: outside the statement
    k, r = rec["eval"]
    if k != "ok":
        return (f"generated:{tn}:eval", f"{rec['op']}_literal({tn}) produced {rec['code']!r}, which raises {r}")
    if (raw is None and r is not None) or (raw is not None and type(r) is not raw):
        return (f"generated:{tn}:type", f"{rec['op']}_literal({tn}) produced {rec['code']!r} of type {type(r).__name__}")
    return None


# ---------------------------------------------------------------------------------------------
def load_corpus():
    ents = json.loads((vlib.VERIF / "corpus" / "C23.json").read_text())
    return [eval(e["value"], {"__builtins__": builtins, **EVAL_NS}) for e in ents]  # noqa: S307


def run(ctx: vlib.Ctx):
    vlib.setup_impl_path()
    import libcst as cst
    import pynguin.testcase.literalgen as lg

    ctx.digest_sources(SRC)
    ctx.coq_static()
    if not ctx.quick:
        ctx.coqchk()
    rng = ctx.rng
    ctx.log("static development checked")
    n_val = 500 if ctx.quick else 6000
    n_parse = 300 if ctx.quick else 3000
    n_gen = 300 if ctx.quick else 4000

    # ---- values through literal_to_cst -> eval / parse_literal ------------------------------
    values = load_corpus()
    n_corpus = len(values)
    for _ in range(n_val):
        values.append(px.gen_value(rng, depth=rng.choice([0, 0, 1, 2, 3])))
    cases, case_of = [], []
    n_fail = 0
    for i, v in enumerate(values):
        rec = run_render(lg, v)
        for leaf in px.leaves(v):
            ctx.count("leaf:" + classify(leaf))
        ctx.count("top:" + (type(v).__name__))
        ctx.case_seen(("render", px.srepr(v)), nontrivial=True)
        r = oracle_render(rec)
        if r:
            n_fail += 1
            kind, msg = r
            small = shrink_value(lg, v, kind)
            r2 = oracle_render(run_render(lg, small)) or r
            cls = classify(small) if not isinstance(small, (list, tuple, set, dict)) else type(small).__name__
            ctx.fail(f"{kind}:{cls}", r2[1], {"kind": "value", "value": px.srepr(small), "from": px.srepr(v)[:300]})
        if i == n_corpus:
            ctx.sample({"value": px.srepr(v), "rendered": rec.get("code"), "evaluates_to": px.srepr(rec.get("eval")),
                        "parse_literal": px.srepr(rec.get("parsed"))})
        if not px.int_ok(v):
            continue
        try:
            if "node" in rec:
                try:
                    e = c_expr(cst_to_expr(rec["node"]))
                except px.Untranslatable:
                    e = "EBad"
                ev = c_res(*rec["eval"])
                pk, pv = rec["parsed"]
                pa = c_parsed(pv) if pk == "ok" else "(Some (VObj ""%string [] None))"      # an exception: never what the model says
                cases.append(f"CRender {c_value(v)} {TYN[raw_of(v)]} (Some {e}) {ev} {pa}")
            else:
                cases.append(f"CRender {c_value(v)} {TYN[raw_of(v)]} None (Err Unsupported) None")
            case_of.append(("value", px.srepr(v)))
        except px.Untranslatable:
            ctx.count("skipped-untranslatable")

    # ---- arbitrary expressions through parse_literal ----------------------------------------
    srcs = [(s, raw) for s in PARSE_SOURCES for raw in ALL_RAWS]
    for _ in range(n_parse):
        v = px.gen_value(rng, depth=rng.choice([0, 1, 2]))
        if not px.int_ok(v):
            continue
        try:
            srcs.append((px.code_of(lg.literal_to_cst(v)), rng.choice(ALL_RAWS)))
        except Exception:  # noqa: BLE001
            continue
    if ctx.quick:
        rng.shuffle(srcs)
        srcs = srcs[:500]
    for s, raw in srcs:
        node = cst.parse_expression(s)
        pk, pv = run_parse(lg, node, raw)
        ctx.case_seen(("parse", s, TYN[raw]), nontrivial=True)
        ctx.count("parse:" + TYN[raw] + (":none" if pv is None else ":value"))
        try:
            e = c_expr(cst_to_expr(node))
            pa = c_parsed(pv) if pk == "ok" else "(Some (VObj ""%string [] None))"
            cases.append(f"CParse {e} {TYN[raw]} {pa}")
            case_of.append(("parse", s, TYN[raw], px.srepr(pv)))
        except px.Untranslatable:
            ctx.count("skipped-untranslatable")

    # ---- generate_literal / mutate_literal under random configurations ----------------------
    n_genfail = 0
    for _ in range(n_gen):
        for rec in gen_draws(lg, rng):
            tn = TYN.get(rec["raw"], "TNone")
            ctx.count(f"gen:{rec['op']}:{tn}")
            if "node" in rec:
                eval_gen(rec)
            ctx.case_seen(("gen", rec.get("code"), tn, px.srepr(sorted(rec["ns"].items(), key=px.srepr))), nontrivial=True)
            r = oracle_gen(rec)
            if r:
                n_genfail += 1
                ctx.fail(r[0], r[1], {"kind": "generated", "type": tn, "code": rec.get("code"), "config": rec["cfg"],
                                      "namespace": {k: px.srepr(v) for k, v in rec["ns"].items()}})
            if "node" not in rec:
                continue
            try:
                if not all(px.int_ok(v) for v in rec["ns"].values()) or (rec["eval"][0] == "ok" and not px.int_ok(rec["eval"][1])):
                    continue
                e = c_expr(cst_to_expr(rec["node"]))
                if "10 ^" in e or len(e) > 20000:
                    continue
                names = vlib.clist(f"({px.cstring(k)}, {c_value(v)})" for k, v in rec["ns"].items())
                cases.append(f"CGen {tn} {names} {e} {c_res(*rec['eval'])}")
                case_of.append(("gen", rec["op"], tn, rec["code"], px.srepr(rec["eval"])))
            except px.Untranslatable:
                cases.append(f"CGen {tn} [] EBad (Err Unsupported)")
                case_of.append(("gen", rec["op"], tn, rec["code"], "untranslatable"))
    ctx.log(f"implementation runs done: {len(cases)} model cases")
    ctx.leg("S", value_failures=n_fail, generator_failures=n_genfail, values=len(values))
    ctx.cov["rule"] = ("adversarial values (ints to 10**4299, every float class incl. -0.0/inf/NaN/subnormal/random bit patterns, "
                       "complex, str/bytes with quotes, NUL, surrogates, astral; nested list/tuple/set/dict to depth 3) plus the "
                       "corpus, through literal_to_cst -> code -> eval and parse_literal; hand-written and rendered expressions "
                       "through parse_literal under every type; generate_literal + up to 3 mutate_literal calls under random "
                       "configurations, seeded constants and reference pools; distinct = distinct input")

    # ---- K2 ------------------------------------------------------------------------------------
    bad = ctx.run_cases("C23_cases", IMPORTS, "C23.case", "C23.check_case", cases, shard=250)
    if bad:
        ctx.leg("K2", ok=False, mismatches=len(bad))
        if True:
            ctx.broken("correspondence:C23-model-vs-literalgen",
                       "the literal model (about which the theorems are proved) no longer reproduces literalgen",
                       {"first_mismatches": [case_of[i] for i in bad[:5]], "count": len(bad),
                        "case_terms": [cases[i][:600] for i in bad[:2]]})
    elif bad is not None:
        ctx.leg("K2", ok=True, cases=len(cases))
    ctx.assumptions += [
        "atom round trips (Section hypotheses of the theorems): float(repr(x)) == x for finite x, int(str(n)) == n, "
        "the tokenizer reads repr(s) back as s — sampled on every rendered token of this run (token value compared bit-exactly)",
        "ints below the interpreter's int->str digit limit (4300 digits); nesting below CPython's parser limits",
        "names float/complex/set are not shadowed in the namespace; pooled references inside set displays are hashable",
    ]
    ctx.cov["trusted_base"] += [
        "hand-written model Models/C23.v + Base/PyExpr.v (evaluator for the rendered fragment, ast.literal_eval on it) tied by this run's correspondence",
        "harness/props/C23.py, _c20_pyexpr.py (value generators, cst -> expression translation, identity oracle); libcst code generation; CPython compile/eval",
    ]


def replay(ctx, path):
    vlib.setup_impl_path()
    import pynguin.testcase.literalgen as lg

    d = json.loads(open(path).read())["replay"]
    if d.get("kind") == "value":
        v = eval(d["value"], {"__builtins__": builtins, **EVAL_NS})  # noqa: S307
        rec = run_render(lg, v)
        print("value:", px.srepr(v))
        print("implementation:", {k: rec.get(k) for k in ("render_exc", "code", "syntax", "eval", "parsed")})
        print("oracle:", oracle_render(rec))
        if "node" in rec and px.int_ok(v):
            print("model renders the same expression:", ctx.coq_eval(
                IMPORTS, f"expr_eqb0 (literal_to_cst0 {c_value(v)}) {c_expr(cst_to_expr(rec['node']))}"))
            print("model evaluates it to:", ctx.coq_eval(IMPORTS, f"eval0 (env_of []) (literal_to_cst0 {c_value(v)})"))
    else:
        print(json.dumps(d, indent=1))
    return 0
