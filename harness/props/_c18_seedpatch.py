"""Differential of the two copies of the random.Random.seed patch: the one Pynguin installs while it
generates and asserts (generator._patch_random) and the text TestSuiteWriter._create_patch_nodes writes
into the test file.  A statement must behave under pytest as it did during generation, so for every
seed object both must do the same (same stream or same exception type).

usage: _c18_seedpatch.py gen|export <repo> <seed>     prints `RESULT {label: outcome}`
Each mode runs in its own fresh interpreter (the patch is process global)."""
from __future__ import annotations

import json
import os
import sys

OBJECTS = {
    "none": "None", "int": "12345", "negint": "-7", "bigint": "10**40", "bool": "True", "float": "2.5", "negzero": "-0.0", "inf": "float('inf')",
    "str": "'key'", "emptystr": "''", "bytes": "b'key'", "bytearray": "bytearray(b'key')",
    "tuple": "(1, 2)", "strtuple": "('a', 'b')", "emptytuple": "()", "list": "[1, 2]", "dict": "{'a': 1}", "set": "{1, 2}",
    "frozenset": "frozenset({1, 2})", "complex": "complex(1, 2)", "range": "range(3)", "object": "object()",
    "lambda": "(lambda: 0)", "plain_instance": "Plain()", "hashing_instance": "Hashing()", "unhashable_instance": "Unhashable()",
    "intsubclass": "MyInt(5)", "strsubclass": "MyStr('s')", "type": "int", "ellipsis": "...", "decimal": "__import__('decimal').Decimal('1.5')",
    "fraction": "__import__('fractions').Fraction(1, 3)",
}
PRELUDE = """
class Plain: pass
class Hashing:
    def __hash__(self): return 99
class Unhashable:
    __hash__ = None
class MyInt(int): pass
class MyStr(str): pass
"""


def main() -> int:
    mode, repo, seed = sys.argv[1], sys.argv[2], int(sys.argv[3])
    sys.path.insert(0, os.path.join(repo, "src"))
    os.environ["PYNGUIN_DANGER_AWARE"] = "1"
    import random

    if mode == "gen":
        import pynguin.configuration as config
        import pynguin.generator as gen

        config.configuration.seeding.seed = seed
        gen._patch_random()  # noqa: SLF001
    else:
        import libcst as cst
        from pynguin.testcase.export import TestSuiteWriter

        code = cst.Module(body=TestSuiteWriter._create_patch_nodes(seed)).code  # noqa: SLF001
        exec(compile(code, "<exported patch>", "exec"), {"random": random, "__builtins__": __builtins__})  # noqa: S102
    ns: dict = {}
    exec(PRELUDE, ns)  # noqa: S102
    out = {}
    for label, expr in OBJECTS.items():
        try:
            x = eval(expr, ns)  # noqa: S307
            r = random.Random(0)
            r.seed(x)
            a = repr(r.random())
            out[label + ":Random.seed"] = a
            out[label + ":Random(x)"] = repr(random.Random(x).random())
        except BaseException as e:  # noqa: BLE001
            out[label + ":Random.seed"] = "raises " + type(e).__name__
            try:
                out[label + ":Random(x)"] = repr(random.Random(eval(expr, ns)).random())  # noqa: S307
            except BaseException as e2:  # noqa: BLE001
                out[label + ":Random(x)"] = "raises " + type(e2).__name__
    print("RESULT " + json.dumps(out))
    return 0


if __name__ == "__main__":
    sys.exit(main())
