"""C09 helper: program generator, shadow dynamic-dependence interpreter, real-run driver.

Everything here is used by harness/props/C09.py.  Three independent pieces:

* ``gen_case(rng, ...)``     a small module (globals, class ``Box``, helper functions, entry functions
                             ``f`` and ``g``) in a mini language + a test case calling the entries.
* ``shadow_run(case)``       the independent dynamic-dependence interpreter: evaluates the mini
                             language directly (never looks at bytecode, traces or the slicer) and
                             tags every value with the set of module lines it depends on
                             (data dependences through locals, globals, attributes, list elements,
                             call/return, and control dependences on the enclosing executed
                             predicates incl. early returns).
* ``run_real(case, dir)``    executes the rendered module with CheckedCoverageInstrumentation through
                             the real ``TestCaseExecutor`` + ``RemoteStatementSlicingObserver`` +
                             ``RemoteAssertionExecutionObserver``, re-slices every criterion with the
                             real ``DynamicSlicer`` while recording the instruction states the
                             ``ExecutionFlowBuilder`` hands to it, and runs the un-instrumented twin
                             under ``sys.monitoring`` (LINE + INSTRUCTION) as ground truth.
"""
from __future__ import annotations

import dis
import importlib
import os
import sys
import threading
from pathlib import Path

# ------------------------------------------------------------------------------------------------
# mini language
#
# expr  : ("c", int) | ("v", name) | ("g", name) | ("attr", var, attr) | ("idx", var, int)
#         | ("bin", op, e, e) | ("call", fname, [e...]) | ("len", var)
#         | ("idx2", nestvar, int, int)           nested element  grid[i][j]
#         (("idx", nestvar, int) also denotes the inner LIST when passed as argument for a parameter r)
# cond  : ("cmp", op, e, e) | ("andor", "and"|"or", cond, cond)
# stmt  : ("assign", name, e) | ("gassign", name, e) | ("setattr", var, attr, e)
#         | ("setidx", var, int, e) | ("append", var, e) | ("newlist", name, [e...])
#         | ("alias", name, var) | ("if", cond, [stmt], [stmt]) | ("while", ivar, bound_e, [stmt])
#         | ("return", e) | ("callstmt", fname, [e...]) | ("pass",)
#         | ("newnest", name, e, listvar|None)    name = [[e], listvar]   (second inner list is an ALIAS)
#         | ("setidx2", nestvar, int, int, e)     grid[i][j] = e
# func  : {"name", "params": [...], "globals": [...], "body": [stmt]}

BINOPS = ["+", "-", "*"]
CMPOPS = ["<", ">", "==", "!=", "<=", ">="]
GLOBALS = ["G0", "G1", "_G2"]
ATTRS = ["v", "w"]
CLASS_ATTRS = ["step", "_start"]          # defined in the class body of Box, read through instances and the class


class Gen:
    def __init__(self, rng, features):
        self.rng = rng
        self.feat = features  # set of: "branch","globals","attrs","lists","calls","early","alias","loops","andor"

    # -- expressions ----------------------------------------------------------------------------
    def expr(self, env, depth=0, helpers=()):
        r = self.rng
        ints, objs, lists = env["ints"], env["objs"], env["lists"]
        choices = ["c", "v", "v", "v"]
        if depth < 2:
            choices += ["bin", "bin"]
        if "globals" in self.feat:
            choices.append("g")
        if "attrs" in self.feat and objs:
            choices += ["attr", "attr", "scaled"]
        if "attrs" in self.feat:
            choices += ["cattr"]
        if "lists" in self.feat and lists:
            choices += ["idx", "idx", "len"]
        if "lists" in self.feat and env["nests"]:
            choices += ["idx2", "idx2", "idx2"]
        if "calls" in self.feat and helpers and depth < 2:
            choices += ["call"]
        k = r.choice(choices)
        if k == "v" and not ints:
            k = "c"
        if k == "c":
            return ("c", r.randrange(0, 9))
        if k == "v":
            return ("v", r.choice(ints))
        if k == "g":
            return ("g", r.choice(GLOBALS))
        if k == "attr":
            return ("attr", r.choice(objs), r.choice(ATTRS + CLASS_ATTRS))
        if k == "cattr":
            return ("cattr", r.choice(CLASS_ATTRS))
        if k == "scaled":
            return ("scaled", r.choice(objs), self.expr(env, depth + 1, ()))
        if k == "idx":
            name = r.choice(lists)
            return ("idx", name, r.randrange(0, env["listlen"][name]))
        if k == "len":
            return ("len", r.choice(lists))
        if k == "idx2":
            name = r.choice(sorted(env["nests"]))
            i = r.randrange(0, 2)
            return ("idx2", name, i, r.randrange(0, env["nests"][name][i]))
        if k == "bin":
            return ("bin", r.choice(BINOPS), self.expr(env, depth + 1, helpers), self.expr(env, depth + 1, helpers))
        h = r.choice(helpers)
        if ("o" in h["params"] and not objs) or ("r" in h["params"] and not (lists or env["nests"])):
            return ("c", r.randrange(0, 9))
        return ("call", h["name"], self.args_for(h, env, depth + 1))

    def args_for(self, h, env, depth):
        args = []
        for p in h["params"]:
            if p == "o":
                args.append(("v", self.rng.choice(env["objs"])) if env["objs"] else None)
            elif p == "r":
                # a list: a list variable, or the inner list of a nested list reached by a subscript
                if env["nests"] and (not env["lists"] or self.rng.random() < 0.6):
                    args.append(("idx", self.rng.choice(sorted(env["nests"])), self.rng.randrange(0, 2)))
                else:
                    args.append(("v", self.rng.choice(env["lists"])))
            else:
                args.append(self.expr(env, depth + 1, ()))
        return args

    def cond(self, env, helpers=(), depth=0):
        r = self.rng
        if "andor" in self.feat and depth == 0 and r.random() < 0.2:
            return ("andor", r.choice(["and", "or"]), self.cond(env, helpers, 1), self.cond(env, helpers, 1))
        a = self.expr(env, 1, helpers)
        if a[0] == "c":
            a = ("v", r.choice(env["ints"])) if env["ints"] else ("g", "G0")
        return ("cmp", r.choice(CMPOPS), a, self.expr(env, 1, ()))

    # -- statements -----------------------------------------------------------------------------
    def block(self, env, n, depth, helpers, may_return):
        body = []
        for _ in range(n):
            body.append(self.stmt(env, depth, helpers, may_return))
        return body

    def stmt(self, env, depth, helpers, may_return):
        r = self.rng
        choices = ["assign"] * 4
        if "globals" in self.feat and env["gdecl"]:
            choices += ["gassign"]
        if "attrs" in self.feat and env["objs"]:
            choices += ["setattr", "setattr"]
            if "alias" in self.feat:
                choices += ["alias"]
        if "lists" in self.feat:
            choices += ["newlist"]
            if env["lists"]:
                choices += ["setidx", "append", "newnest", "newnest"]
            if env["nests"]:
                choices += ["setidx2", "setidx", "setidx"] if env["lists"] else ["setidx2"]
        if "branch" in self.feat and depth < 2:
            choices += ["if", "if", "if"]
        if "loops" in self.feat and depth < 1:
            choices += ["while"]
        if "calls" in self.feat and helpers:
            choices += ["callstmt"]
        if "condbound" in self.feat and env["ints"]:
            choices += ["condassign"]
        if len(choices) and r.random() < 0.12:
            names = r.sample(["a", "b", "c", "d", "e"], 2)
            e = self.expr(env, 0, helpers)
            for nm in names:
                if nm not in env["ints"]:
                    env["ints"].append(nm)
            return ("chain", names[0], names[1], e)
        k = r.choice(choices)
        if k == "condassign":
            return self.cond_assign(env, r.choice(["u", "w"]))
        if k == "assign":
            e = self.expr(env, 0, helpers)
            name = r.choice(["a", "b", "c", "d", "e"])
            if name not in env["ints"]:
                env["ints"].append(name)
            return ("assign", name, e)
        if k == "gassign":
            return ("gassign", r.choice(env["gdecl"]), self.expr(env, 0, helpers))
        if k == "setattr":
            return ("setattr", r.choice(env["objs"]), r.choice(ATTRS), self.expr(env, 0, helpers))
        if k == "alias":
            src = r.choice(env["objs"])
            name = r.choice(["p", "q"])
            if name not in env["objs"]:
                env["objs"].append(name)
            return ("alias", name, src)
        if k == "newlist":
            name = r.choice(["l", "m"])
            n = r.randrange(1, 4)
            st = ("newlist", name, [self.expr(env, 1, ()) for _ in range(n)])
            if name not in env["lists"]:
                env["lists"].append(name)
            env["listlen"][name] = n
            return st
        if k == "newnest":
            name = r.choice(["n", "t"])
            inner = r.choice(env["lists"])
            st = ("newnest", name, self.expr(env, 1, ()), inner)
            env["nests"][name] = [1, env["listlen"][inner]]
            return st
        if k == "setidx2":
            name = r.choice(sorted(env["nests"]))
            i = r.randrange(0, 2)
            return ("setidx2", name, i, r.randrange(0, env["nests"][name][i]), self.expr(env, 0, helpers))
        if k == "setidx":
            name = r.choice(env["lists"])
            return ("setidx", name, r.randrange(0, env["listlen"][name]), self.expr(env, 0, helpers))
        if k == "append":
            return ("append", r.choice(env["lists"]), self.expr(env, 1, helpers))
        if k == "callstmt":
            h = r.choice(helpers)
            if ("o" in h["params"] and not env["objs"]) or ("r" in h["params"] and not (env["lists"] or env["nests"])):
                return ("pass",)
            return ("callstmt", h["name"], self.args_for(h, env, 1))
        if k == "while":
            iv = "i"
            sub = self.fork(env)
            if iv not in sub["ints"]:
                sub["ints"].append(iv)
            body = self.block(sub, r.randrange(1, 3), depth + 1, helpers, False)
            self.join(env, sub, sub)
            if iv not in env["ints"]:
                env["ints"].append(iv)
            return ("while", iv, ("c", r.randrange(0, 4)), body)
        # if
        c = self.cond(env, helpers)
        e1, e2 = self.fork(env), self.fork(env)
        then = self.block(e1, r.randrange(1, 3), depth + 1, helpers, may_return)
        if may_return and "early" in self.feat and r.random() < 0.25:
            then.append(("return", self.expr(e1, 0, ())))
        els = self.block(e2, r.randrange(0, 3), depth + 1, helpers, may_return) if r.random() < 0.6 else []
        self.join(env, e1, e2)
        return ("if", c, then, els)

    def closure(self, env):
        """z = e1; def in_z(): [nonlocal z; z = z + c;] return z [+ c]; z = e2; r = in_z()
        the enclosing function reassigns the free variable AFTER the closure was created"""
        r = self.rng
        z = r.choice(["z", "s"])
        res = r.choice(["d", "e"])
        st = ("closure", z, self.expr(env, 1, ()), self.expr(env, 1, ()), res,
              r.choice(["read", "read", "nonlocal"]), r.randrange(1, 5))
        for nm in (z, res):
            if nm not in env["ints"]:
                env["ints"].append(nm)
        return st

    def cond_assign(self, env, name):
        r = self.rng
        p = r.choice(env["ints"])
        cond = r.choice([("cmp", ">=", ("v", p), ("v", p)), ("cmp", "==", ("v", p), ("v", p)),
                         ("cmp", "==", ("bin", "*", ("v", p), ("c", 0)), ("c", 0))])
        e = self.expr(env, 0, ())
        if name not in env["ints"]:
            env["ints"].append(name)
        return ("if", cond, [("assign", name, e)], [])

    @staticmethod
    def fork(env):
        return {"ints": list(env["ints"]), "objs": list(env["objs"]), "lists": list(env["lists"]),
                "listlen": dict(env["listlen"]), "gdecl": env["gdecl"],
                "nests": {k: list(v) for k, v in env["nests"].items()}}

    @staticmethod
    def join(env, e1, e2):
        # only names defined on both paths (or before) stay usable; list lengths: minimum
        for key in ("ints", "objs", "lists"):
            env[key] = [x for x in e1[key] if x in e2[key]]
        env["listlen"] = {k: min(e1["listlen"][k], e2["listlen"][k]) for k in env["lists"]}
        env["nests"] = {k: [min(a, b) for a, b in zip(e1["nests"][k], e2["nests"][k])]
                        for k in e1["nests"] if k in e2["nests"]}

    def func(self, name, params, helpers, n_stmts):
        r = self.rng
        gdecl = [g for g in GLOBALS if "globals" in self.feat and r.random() < 0.4]
        env = {"ints": [p for p in params if p not in ("o", "r")], "objs": ["o"] if "o" in params else [],
               "lists": ["r"] if "r" in params else [], "listlen": {"r": 1} if "r" in params else {},
               "gdecl": gdecl, "nests": {}}
        body0 = []
        if "r" in params:
            # the callee stores into the list it was handed (an alias of the caller's container)
            body0.append(("setidx", "r", 0, self.expr(env, 0, ())))
        if "nested" in self.feat and "lists" in self.feat:
            # make the nested / aliased shapes frequent: an inner list, an outer list that holds it, and a
            # result that is read back through the subscript chain
            n0 = r.randrange(1, 3)
            body0.append(("newlist", "l", [self.expr(env, 1, ()) for _ in range(n0)]))
            env["lists"].append("l")
            env["listlen"]["l"] = n0
            body0.append(("newnest", "n", self.expr(env, 1, ()), "l"))
            env["nests"]["n"] = [1, n0]
        clos_var = None
        if "closures" in self.feat:
            st = self.closure(env)
            body0.append(st)
            clos_var = st[4]
        cond_var = None
        if "condbound" in self.feat and env["ints"]:
            # a local the compiler cannot prove bound where it is read (LOAD_FAST_CHECK): its only
            # assignment sits under a condition that is always true at run time
            body0.append(self.cond_assign(env, "u"))
            cond_var = "u"
        shadow_ret = None
        if "shadowing" in self.feat:
            # the same local name is defined in caller and callee; in the entry functions its use stays
            # pending across the calls made by the body
            body0.append(("assign", "a", self.expr(env, 1, ())))
            if "a" not in env["ints"]:
                env["ints"].append("a")
            if name in ("f", "g") and helpers:
                h = r.choice(helpers)
                if not (("o" in h["params"] and not env["objs"]) or ("r" in h["params"] and not (env["lists"] or env["nests"]))):
                    body0.append(("assign", "b", ("call", h["name"], self.args_for(h, env, 1))))
                    if "b" not in env["ints"]:
                        env["ints"].append("b")
                    shadow_ret = ("bin", "+", ("v", "a"), ("v", "b"))
        body = body0 + self.block(env, n_stmts, 0, helpers, True)
        if clos_var is not None and clos_var in env["ints"] and r.random() < 0.7:
            ret = ("v", clos_var)
            if r.random() < 0.5:
                ret = ("bin", r.choice(BINOPS), ret, ("v", body0[-1][1] if body0[-1][0] == "closure" else clos_var))
            body.append(("return", ret))
        elif cond_var is not None and cond_var in env["ints"] and r.random() < 0.7:
            ret = ("v", cond_var)
            if r.random() < 0.5:
                ret = ("bin", r.choice(BINOPS), ret, self.expr(env, 1, helpers))
            body.append(("return", ret))
        elif shadow_ret is not None and "a" in env["ints"] and "b" in env["ints"] and r.random() < 0.7:
            body.append(("return", shadow_ret))
        elif env["nests"] and r.random() < 0.6:
            nname = r.choice(sorted(env["nests"]))
            i = r.randrange(0, 2)
            ret = ("idx2", nname, i, r.randrange(0, env["nests"][nname][i]))
            if r.random() < 0.5:
                ret = ("bin", r.choice(BINOPS), ret, self.expr(env, 1, helpers))
            body.append(("return", ret))
        else:
            body.append(("return", self.expr(env, 0, helpers)))
        return {"name": name, "params": params, "globals": gdecl, "body": body}


ALL_FEATURES = ["branch", "globals", "attrs", "lists", "calls", "early", "alias", "andor", "nested", "shadowing", "condbound", "closures"]


def gen_case(rng, features=None, size=None):
    if features is None:
        features = {f for f in ALL_FEATURES if rng.random() < 0.6}
    features = set(features)
    g = Gen(rng, features)
    size = size or rng.choice([2, 3, 5, 7])
    helpers = []
    if "calls" in features and "shadowing" in features:
        # recursion (bounded by x < 4): every activation has its own a / c, pending across the inner call
        helpers.append({"name": "hr", "params": ["x", "y"], "globals": [], "body": [
            ("assign", "a", ("bin", "+", ("v", "x"), ("v", "y"))),
            ("if", ("andor", "and", ("cmp", ">", ("v", "x"), ("c", 0)), ("cmp", "<", ("v", "x"), ("c", 4))),
             [("assign", "c", ("call", "hr", [("bin", "-", ("v", "x"), ("c", 1)), ("v", "y")])),
              ("return", ("bin", "+", ("v", "a"), ("v", "c")))], []),
            ("return", ("v", "a"))]})
    if "calls" in features:
        for k in range(rng.randrange(1, 3)):
            params = ["x", "y"] + (["o"] if "attrs" in features and rng.random() < 0.5 else [])
            if "lists" in features and rng.random() < 0.5:
                params.append("r")
            helpers.append(g.func(f"h{k}", params, tuple(helpers[:k]) if rng.random() < 0.3 else (), rng.randrange(1, 4)))
    params = ["x", "y"] + (["o"] if "attrs" in features else [])
    f = g.func("f", params, tuple(helpers), size)
    gg = g.func("g", params, tuple(helpers), rng.randrange(1, 4))
    consts = [rng.randrange(0, 9) for _ in range(3)]
    g_none = rng.random() < 0.2
    if g_none:
        # g ends with an explicit `return None` and its statement carries no assertion: the statement
        # criterion is the STORE itself and _cleanse_included_implicit_return_none is exercised
        gg["body"][-1] = ("return", ("c", None))
    return {"g_none": g_none, "features": sorted(features), "globals": {n: rng.randrange(0, 9) for n in GLOBALS},
            "funcs": helpers + [f, gg], "consts": consts, "use_box": "attrs" in features}


# ------------------------------------------------------------------------------------------------
# rendering (line numbers are fixed here; the shadow interpreter uses the same numbering)
def r_expr(e):
    k = e[0]
    if k == "c":
        return str(e[1])
    if k in ("v", "g"):
        return e[1]
    if k == "attr":
        return f"{e[1]}.{e[2]}"
    if k == "idx":
        return f"{e[1]}[{e[2]}]"
    if k == "len":
        return f"len({e[1]})"
    if k == "cattr":
        return f"Box.{e[1]}"
    if k == "scaled":
        return f"{e[1]}.scaled({r_expr(e[2])})"
    if k == "idx2":
        return f"{e[1]}[{e[2]}][{e[3]}]"
    if k == "bin":
        return f"({r_expr(e[2])} {e[1]} {r_expr(e[3])})"
    if k == "call":
        return f"{e[1]}({', '.join(r_expr(a) for a in e[2])})"
    raise ValueError(e)


def r_cond(c):
    if c[0] == "cmp":
        return f"{r_expr(c[2])} {c[1]} {r_expr(c[3])}"
    return f"({r_cond(c[2])}) {c[1]} ({r_cond(c[3])})"


class Renderer:
    def __init__(self):
        self.lines = []
        self.lineof = {}  # id(stmt) -> line number

    def emit(self, text, stmt=None):
        self.lines.append(text)
        if stmt is not None:
            self.lineof[id(stmt)] = len(self.lines)

    def block(self, body, ind):
        pad = "    " * ind
        if not body:
            self.emit(pad + "pass")
        for s in body:
            k = s[0]
            if k == "assign" or k == "gassign":
                self.emit(f"{pad}{s[1]} = {r_expr(s[2])}", s)
            elif k == "setattr":
                self.emit(f"{pad}{s[1]}.{s[2]} = {r_expr(s[3])}", s)
            elif k == "setidx":
                self.emit(f"{pad}{s[1]}[{s[2]}] = {r_expr(s[3])}", s)
            elif k == "append":
                self.emit(f"{pad}{s[1]}.append({r_expr(s[2])})", s)
            elif k == "newlist":
                self.emit(f"{pad}{s[1]} = [{', '.join(r_expr(a) for a in s[2])}]", s)
            elif k == "alias":
                self.emit(f"{pad}{s[1]} = {s[2]}", s)
            elif k == "chain":
                self.emit(f"{pad}{s[1]} = {s[2]} = {r_expr(s[3])}", s)
            elif k == "closure":
                _, z, e1, e2, res, mode, c = s
                self.emit(f"{pad}{z} = {r_expr(e1)}")
                self.lineof[("cl0", id(s))] = len(self.lines)
                self.emit(f"{pad}def in_{z}():")
                if mode == "nonlocal":
                    self.emit(f"{pad}    nonlocal {z}")
                    self.emit(f"{pad}    {z} = ({z} + {c})")
                    self.lineof[("cl_set", id(s))] = len(self.lines)
                    self.emit(f"{pad}    return {z}")
                else:
                    self.emit(f"{pad}    return ({z} + {c})")
                self.lineof[("cl_ret", id(s))] = len(self.lines)
                self.emit(f"{pad}{z} = {r_expr(e2)}")
                self.lineof[("cl2", id(s))] = len(self.lines)
                self.emit(f"{pad}{res} = in_{z}()", s)
            elif k == "newnest":
                self.emit(f"{pad}{s[1]} = [[{r_expr(s[2])}], {s[3]}]", s)
            elif k == "setidx2":
                self.emit(f"{pad}{s[1]}[{s[2]}][{s[3]}] = {r_expr(s[4])}", s)
            elif k == "callstmt":
                self.emit(f"{pad}{s[1]}({', '.join(r_expr(a) for a in s[2])})", s)
            elif k == "return":
                self.emit(f"{pad}return {r_expr(s[1])}", s)
            elif k == "pass":
                self.emit(f"{pad}pass", s)
            elif k == "if":
                self.emit(f"{pad}if {r_cond(s[1])}:", s)
                self.block(s[2], ind + 1)
                if s[3]:
                    self.emit(f"{pad}else:")
                    self.block(s[3], ind + 1)
            elif k == "while":
                self.emit(f"{pad}{s[1]} = 0", ("whileinit", id(s)))
                self.lineof[("init", id(s))] = len(self.lines)
                self.emit(f"{pad}while {s[1]} < {r_expr(s[2])}:", s)
                self.block(s[3], ind + 1)
                self.emit(f"{pad}    {s[1]} = {s[1]} + 1")
                self.lineof[("inc", id(s))] = len(self.lines)
            else:
                raise ValueError(s)


def render(case):
    r = Renderer()
    glines = {}
    for n, v in case["globals"].items():
        r.emit(f"{n} = {v}")
        glines[n] = len(r.lines)
    r.emit("")
    r.emit("")
    r.emit("class Box:")
    r.emit("    step = 2")
    box_step = len(r.lines)
    r.emit("    _start = 4")
    box_start = len(r.lines)
    r.emit("    _Box__scale = 3")       # what `self.__scale` inside the class refers to (name mangling)
    box_scale = len(r.lines)
    r.emit("")
    r.emit("    def __init__(self, v):")
    r.emit("        self.v = v")
    box_v = len(r.lines)
    r.emit("        self.w = 1")
    box_w = len(r.lines)
    r.emit("")
    r.emit("    def set(self, v):")
    r.emit("        self.v = v")          # implicit `return None` sits on this line
    box_set = len(r.lines)
    r.emit("")
    r.emit("    def get(self):")
    r.emit("        return self.v")
    box_get = len(r.lines)
    r.emit("")
    r.emit("    def scaled(self, value):")
    r.emit("        return value * self.__scale")
    box_scaled = len(r.lines)
    flines = {}
    for fn in case["funcs"]:
        r.emit("")
        r.emit("")
        r.emit(f"def {fn['name']}({', '.join(fn['params'])}):")
        flines[fn["name"]] = len(r.lines)
        if fn["globals"]:
            r.emit(f"    global {', '.join(fn['globals'])}")
        r.block(fn["body"], 1)
    return "\n".join(r.lines) + "\n", {"stmt": r.lineof, "glob": glines, "box_v": box_v, "box_w": box_w, "box_set": box_set,
                                        "box_get": box_get, "func": flines,
                                        "box_cls": {"step": (2, box_step), "_start": (4, box_start),
                                                    "_Box__scale": (3, box_scale)},
                                        "box_scaled": box_scaled}


# ------------------------------------------------------------------------------------------------
# shadow dynamic-dependence interpreter
class _Ret(Exception):
    def __init__(self, val):
        self.val = val


class TV:
    """tagged value: python value + frozenset of module lines it depends on"""
    __slots__ = ("val", "dep")

    def __init__(self, val, dep=frozenset()):
        self.val, self.dep = val, dep


class SBox:
    def __init__(self):
        self.f = {}


def may_return(body):
    for s in body:
        if s[0] == "return":
            return True
        if s[0] == "if" and (may_return(s[2]) or may_return(s[3])):
            return True
        if s[0] == "while" and may_return(s[3]):
            return True
    return False


class Shadow:
    def __init__(self, case, lm, nobase=False, noappend=False, nosetidx=False):
        self.case, self.lm = case, lm
        self.nobase, self.noappend, self.nosetidx = nobase, noappend, nosetidx
        self.funcs = {f["name"]: f for f in case["funcs"]}
        self.globals = {n: TV(v, frozenset({lm["glob"][n]})) for n, v in case["globals"].items()}
        self.executed = set(lm["glob"].values())
        self.steps = 0

    def line(self, s):
        return self.lm["stmt"][id(s)]

    def cls(self, name):
        """class-level attribute of Box: defined by its line in the class body"""
        val, line = self.lm["box_cls"][name]
        return TV(val, frozenset({line}))

    def base(self, tv):
        """dependences of the variable that holds the object/list an attribute/element is taken
        from (which object is accessed); switched off in the `nobase` classification mode"""
        return frozenset() if self.nobase else tv.dep

    def ev(self, e, env, ctx):
        k = e[0]
        if k == "c":
            return TV(e[1])
        if k == "v":
            return env[e[1]]
        if k == "g":
            return self.globals[e[1]]
        if k == "attr":
            o = env[e[1]]
            fld = o.val.f[e[2]] if e[2] in o.val.f else self.cls(e[2])
            return TV(fld.val, fld.dep | self.base(o))
        if k == "cattr":
            return self.cls(e[1])
        if k == "scaled":
            o = env[e[1]]
            v = self.ev(e[2], env, ctx)
            sc = self.cls("_Box__scale")
            return TV(v.val * sc.val, v.dep | sc.dep | self.base(o) | ctx | {self.lm["box_scaled"]})
        if k == "idx":
            l = env[e[1]]
            el = l.val[e[2]]
            return TV(el.val, el.dep | self.base(l))
        if k == "idx2":
            outer = env[e[1]]
            inner = outer.val[e[2]]
            el = inner.val[e[3]]
            return TV(el.val, el.dep | self.base(inner) | self.base(outer))
        if k == "len":
            l = env[e[1]]
            # the length depends on the creation and on every append that happened
            return TV(len(l.val), self.base(l) | self.lenDeps.get(id(l.val), frozenset()))
        if k == "bin":
            a, b = self.ev(e[2], env, ctx), self.ev(e[3], env, ctx)
            v = {"+": a.val + b.val, "-": a.val - b.val, "*": a.val * b.val}[e[1]]
            return TV(v, a.dep | b.dep)
        if k == "call":
            return self.call(e[1], [self.ev(a, env, ctx) for a in e[2]], ctx)
        raise ValueError(e)

    def cnd(self, c, env, ctx):
        if c[0] == "cmp":
            a, b = self.ev(c[2], env, ctx), self.ev(c[3], env, ctx)
            v = {"<": a.val < b.val, ">": a.val > b.val, "==": a.val == b.val, "!=": a.val != b.val,
                 "<=": a.val <= b.val, ">=": a.val >= b.val}[c[1]]
            return TV(v, a.dep | b.dep)
        a = self.cnd(c[2], env, ctx)
        if (c[1] == "and" and not a.val) or (c[1] == "or" and a.val):
            return a
        b = self.cnd(c[3], env, ctx)
        return TV(b.val, a.dep | b.dep)

    def call(self, name, args, ctx):
        fn = self.funcs[name]
        env = dict(zip(fn["params"], args))
        self.executed.add(self.lm["func"][name])
        try:
            self.run(fn["body"], env, [ctx])
        except _Ret as r:
            return r.val
        raise AssertionError("function without return")

    def run(self, body, env, ctxbox):
        """ctxbox[0] is the control context (set of lines) of the function body at this point;
        it grows when an `if` that may return is passed without returning."""
        for s in body:
            self.steps += 1
            if self.steps > 20000:
                raise RuntimeError("shadow budget")
            k = s[0]
            ctx = ctxbox[0]
            if k == "pass":
                self.executed.add(self.line(s))
                continue
            L = self.line(s)
            self.executed.add(L)
            here = ctx | {L}
            ctx = frozenset(here)  # everything evaluated on this line (incl. calls) is under it
            if k == "assign":
                v = self.ev(s[2], env, ctx)
                env[s[1]] = TV(v.val, v.dep | here)
            elif k == "gassign":
                v = self.ev(s[2], env, ctx)
                self.globals[s[1]] = TV(v.val, v.dep | here)
            elif k == "alias":
                o = env[s[2]]
                env[s[1]] = TV(o.val, o.dep | here)
            elif k == "closure":
                _, z, e1, e2, res, mode, c = s
                st_ = self.lm["stmt"]
                l0, l2, lret = st_[("cl0", id(s))], st_[("cl2", id(s))], st_[("cl_ret", id(s))]
                outer = ctx - {L}
                self.executed |= {l0, l2, lret}
                self.ev(e1, env, frozenset(outer | {l0}))
                v2 = self.ev(e2, env, frozenset(outer | {l2}))
                cell = TV(v2.val, v2.dep | outer | {l2})          # the cell when the closure is CALLED
                if mode == "nonlocal":
                    lset = st_[("cl_set", id(s))]
                    cell = TV(cell.val + c, cell.dep | here | {lset})
                    env[z] = cell
                    env[res] = TV(cell.val, cell.dep | here | {lret})
                else:
                    env[z] = cell
                    env[res] = TV(cell.val + c, cell.dep | here | {lret})
            elif k == "chain":
                v = self.ev(s[3], env, ctx)
                env[s[1]] = TV(v.val, v.dep | here)
                env[s[2]] = TV(v.val, v.dep | here)
            elif k == "setattr":
                v = self.ev(s[3], env, ctx)
                o = env[s[1]]
                o.val.f[s[2]] = TV(v.val, v.dep | here | self.base(o))
            elif k == "newlist":
                els = [self.ev(a, env, ctx) for a in s[2]]
                lst = [TV(x.val, x.dep | here) for x in els]
                env[s[1]] = TV(lst, frozenset(here))
                self.lenDeps[id(lst)] = frozenset()
                self.keep.append(lst)
            elif k == "setidx":
                v = self.ev(s[3], env, ctx)
                l = env[s[1]]
                old = l.val[s[2]]
                l.val[s[2]] = TV(v.val, old.dep if self.nosetidx else v.dep | here | self.base(l))
            elif k == "newnest":
                v = self.ev(s[2], env, ctx)
                fresh = [TV(v.val, v.dep | here)]
                alias = env[s[3]]
                outer = [TV(fresh, frozenset(here)), TV(alias.val, alias.dep | here)]
                for lst in (fresh, outer):
                    self.lenDeps[id(lst)] = frozenset()
                    self.keep.append(lst)
                env[s[1]] = TV(outer, frozenset(here))
            elif k == "setidx2":
                v = self.ev(s[4], env, ctx)
                outer = env[s[1]]
                inner = outer.val[s[2]]
                old = inner.val[s[3]]
                inner.val[s[3]] = TV(v.val, old.dep if self.nosetidx
                                     else v.dep | here | self.base(inner) | self.base(outer))
            elif k == "append":
                v = self.ev(s[2], env, ctx)
                l = env[s[1]]
                l.val.append(TV(v.val, v.dep | here | self.base(l)))
                if not self.noappend:
                    self.lenDeps[id(l.val)] = self.lenDeps[id(l.val)] | here | self.base(l)
            elif k == "callstmt":
                self.call(s[1], [self.ev(a, env, ctx) for a in s[2]], frozenset(here))
            elif k == "return":
                v = self.ev(s[1], env, frozenset(here))
                raise _Ret(TV(v.val, v.dep | here))
            elif k == "if":
                c = self.cnd(s[1], env, frozenset(here))
                inner = frozenset(here | c.dep)
                box = [inner]
                self.run(s[2] if c.val else s[3], env, box)
                if may_return(s[2]) or may_return(s[3]):
                    # reaching the rest of the function depends on this predicate
                    ctxbox[0] = frozenset(ctxbox[0] | inner | box[0])
            elif k == "while":
                li, lc = self.lm["stmt"][("init", id(s))], self.lm["stmt"][("inc", id(s))]
                self.executed.add(li)
                env[s[1]] = TV(0, frozenset(ctx | {li}))
                loopctx = frozenset(ctx)
                while True:
                    b = self.ev(s[2], env, loopctx)
                    cdep = frozenset(loopctx | {L} | env[s[1]].dep | b.dep)
                    if not env[s[1]].val < b.val:
                        break
                    box = [cdep]
                    self.run(s[3], env, box)
                    self.executed.add(lc)
                    iv = env[s[1]]
                    env[s[1]] = TV(iv.val + 1, iv.dep | cdep | {lc})
                    loopctx = cdep
            else:
                raise ValueError(s)

    lenDeps: dict
    keep: list


def shadow_run(case, lm, nobase=False, noappend=False, nosetidx=False):
    """Returns {"values": [...], "deps": [set(lines) per entry call], "executed": set(lines)}.
    The three switches turn single dependence kinds off; they are only used to name the kind of a
    missing dependence (failure signatures), never to accept one."""
    sh = Shadow(case, lm, nobase, noappend, nosetidx)
    sh.lenDeps, sh.keep = {}, []
    c0, c1, c2 = case["consts"]
    box = None
    if case["use_box"]:
        b = SBox()
        sh.executed |= {lm["box_v"], lm["box_w"]}
        b.f["v"] = TV(c2, frozenset({lm["box_v"]}))
        b.f["w"] = TV(1, frozenset({lm["box_w"]}))
        box = TV(b, frozenset())
    vals, deps = [], []
    for name, (a, bb) in (("f", (c0, c1)), ("g", (c1, c0))):
        args = [TV(a), TV(bb)] + ([box] if case["use_box"] else [])
        r = sh.call(name, args, frozenset())
        vals.append(r.val)
        deps.append(set(r.dep))
    # test statements after the entry calls:  none_0 = box.set(c0); var_2 = box.get(); none_1 = box.set(c1)
    if box is None:
        b = SBox()
        b.f["v"] = TV(c2, frozenset({lm["box_v"]}))
        b.f["w"] = TV(1, frozenset({lm["box_w"]}))
        box = TV(b, frozenset())
    box.val.f["v"] = TV(c0, frozenset({lm["box_set"]}))
    got = box.val.f["v"]
    vals.append(got.val)
    deps.append(set(got.dep | {lm["box_get"]}))
    box.val.f["v"] = TV(c1, frozenset({lm["box_set"]}))
    return {"values": vals, "deps": deps, "executed": sh.executed}


# ------------------------------------------------------------------------------------------------
# real run
_patched = False
REC: dict = {"flow": None, "crit": None, "calls": [], "phase": None}
STORE: dict = {}


def _patch():
    """Record (a) every DynamicSlicer.slice call of this process — criterion, the instruction states
    the ExecutionFlowBuilder hands to the slicer, the result — whoever makes it (the real observer
    inside the executor thread, compute_assertion_checked_coverage, or this harness), (b) the
    arguments and result of compute_statement_checked_lines as called by the real observer."""
    global _patched
    if _patched:
        return
    _patched = True
    import pynguin.slicer.dynamicslicer as ds
    import pynguin.slicer.executionflowbuilder as efb
    import pynguin.slicer.statementslicingobserver as sso

    orig_prev = efb.ExecutionFlowBuilder.get_previous_instruction_state
    orig_create = efb.ExecutionFlowBuilder.create_instruction_state
    orig_slice = ds.DynamicSlicer.slice

    def prev(self, state, import_back_call=None):
        st = orig_prev(self, state, import_back_call)
        if REC["flow"] is not None and st is not None:
            REC["flow"].append(st)
        return st

    def create(self, pos):
        st = orig_create(self, pos)
        if REC["flow"] is not None:
            REC["crit"] = st
        return st

    def slice_(self, trace, criterion):
        REC["flow"], REC["crit"] = [], None
        res, err = None, None
        try:
            res = orig_slice(self, trace, criterion)
            return res
        except Exception as e:
            err = type(e).__name__
            raise
        finally:
            REC["calls"].append({"phase": REC["phase"], "pos": criterion.trace_position, "crit": REC["crit"],
                                 "flow": REC["flow"], "slice": res, "error": err})
            REC["flow"] = None

    efb.ExecutionFlowBuilder.get_previous_instruction_state = prev
    efb.ExecutionFlowBuilder.create_instruction_state = create
    ds.DynamicSlicer.slice = slice_

    orig_cscl = sso.compute_statement_checked_lines

    def cscl(statements, trace, subject_properties, criteria):
        STORE["stmt_args"] = (list(statements), dict(criteria))
        res = orig_cscl(statements, trace, subject_properties, criteria)
        STORE["stmt_result"] = set(res)
        return res

    sso.compute_statement_checked_lines = cscl


class Interner:
    def __init__(self):
        self.d = {}

    def __call__(self, x):
        if x not in self.d:
            self.d[x] = len(self.d) + 1
        return self.d[x]


def _abstract_state(st, crit, known, names, addrs, files, uids, is_crit=False):
    """The model's einstr for one InstrState.  Returns (dict, out_of_fragment_reason|None)."""
    from pynguin.instrumentation import AST_FILENAME
    from pynguin.instrumentation import version as V
    from pynguin.slicer.executedinstruction import ExecutedAttributeInstruction, ExecutedMemoryInstruction

    ins = st.instr
    oof = None
    pops, pushes = ins.stack_effects(jump=False if is_crit else st.jump)
    ukey = (ins.name, ins.code_object_id, ins.node_id, ins.instr_original_index)
    d = {
        "uid": uids(ukey), "ukey": ukey, "code": ins.code_object_id, "node": ins.node_id,
        "line": ins.lineno if isinstance(ins.lineno, int) else 0, "file": files(ins.file),
        "in_test": ins.file == AST_FILENAME,
        "pops": pops, "pushes": pushes,
        "is_def": ins.is_def, "is_use": ins.is_use, "is_cond": ins.is_cond_branch,
        "ujump": bool(st.jump and ins.is_uncond_jump()), "has_jump": bool(ins.has_jump()),
        "is_store": ins.name in V.STORE_NAMES, "is_access": ins.name in V.ACCESS_NAMES and not ins.is_method,
        "call": st.call, "ret": st.returned, "exc": st.exception,
        "retnone": ins.name == "RETURN_CONST" and ins.arg is None,
        "mem": ("none",), "pos": st.trace_position, "name": ins.name,
    }
    if st.import_start or st.import_back_call is not None or ins.name in V.IMPORT_NAME_NAMES + V.IMPORT_FROM_NAMES:
        oof = "import"
    ti = st.traced_instr
    if isinstance(ti, ExecutedMemoryInstruction):
        if not isinstance(ti.argument, str):
            oof = oof or "two-argument-memory-instruction"
        else:
            nm = ins.name
            is_module = (ti.code_object_id in known and known[ti.code_object_id].code_object.co_name == "<module>")
            if nm in V.LOAD_FAST_NAMES + V.MODIFY_FAST_NAMES:
                sc = ("L", ti.code_object_id)
            elif nm in V.LOAD_NAME_NAMES + V.MODIFY_NAME_NAMES:
                sc = ("G", files(ti.file)) if is_module else ("L", ti.code_object_id)
            elif nm in V.LOAD_GLOBAL_NAMES + V.MODIFY_GLOBAL_NAMES:
                sc = ("G", files(ti.file))
            else:
                sc = ("L", 0)
                oof = oof or "scope:" + nm
            d["mem"] = ("var", sc[0] == "G", names(ti.argument), sc[1], addrs(ti.arg_address) if ti.arg_address else 0,
                        bool(ti.is_mutable_type), bool(ti.object_creation))
    elif isinstance(ti, ExecutedAttributeInstruction):
        d["mem"] = ("attr", names(ti.argument), addrs(ti.src_address) if ti.src_address else 0,
                    addrs(ti.arg_address) if ti.arg_address else 0, bool(ti.is_mutable_type),
                    ti.argument == "None")
    return d, oof


def _cdg_tables(known, codes):
    """Per (code, node): descendants (indices), ctrl-dependent flag, dominator loops, cfg successors,
    computed by the real CDG/CFG objects exactly as check_/add_control_dependency query them."""
    from pynguin.instrumentation.controlflow import BasicBlockNode

    tab = {}
    for cid in sorted(codes):
        meta = known[cid]
        cdg, cfg = meta.cdg, meta.cfg
        for node in cdg.graph.nodes:
            if not isinstance(node, BasicBlockNode):
                continue
            desc = cdg.get_descendants(node)
            anc = cdg.get_ancestors(node)
            ctrl = any(isinstance(a, BasicBlockNode) for a in anc if a not in desc)
            loops = cdg.get_dominator_loops(node)
            try:
                succ = cfg.get_successors(node)
            except Exception:  # noqa: BLE001
                succ = set()
            tab[(cid, node.index)] = {
                "desc": sorted(n.index for n in desc if isinstance(n, BasicBlockNode)),
                "ctrl": bool(ctrl),
                "loops": sorted(n.index for n in loops if isinstance(n, BasicBlockNode)),
                "succ": sorted(n.index for n in succ if isinstance(n, BasicBlockNode)),
            }
    return tab


def _ground_truth(src, path, case):
    """Run the un-instrumented twin under sys.monitoring: executed lines and (code, opname, line)."""
    mon = sys.monitoring
    tool = 4
    code0 = compile(src, path, "exec")
    lines, instrs = set(), set()
    cache = {}

    def on_line(code, line):
        if code.co_filename == path:
            lines.add(line)

    def on_instr(code, off):
        if code.co_filename != path:
            return
        m = cache.get(code)
        if m is None:
            m = {i.offset: i for i in dis.get_instructions(code)}
            cache[code] = m
        i = m.get(off)
        if i is not None:
            ln = i.positions.lineno if i.positions is not None else None
            instrs.add((code.co_name, code.co_firstlineno, i.opname, ln))

    mon.use_tool_id(tool, "c09")
    try:
        mon.register_callback(tool, mon.events.LINE, on_line)
        mon.register_callback(tool, mon.events.INSTRUCTION, on_instr)
        mon.set_events(tool, mon.events.LINE | mon.events.INSTRUCTION)
        ns = {"__name__": "twin"}
        exec(code0, ns)  # noqa: S102
        c0, c1, c2 = case["consts"]
        extra = []
        if case["use_box"]:
            extra = [ns["Box"](c2)]
        vals = [ns["f"](c0, c1, *extra), ns["g"](c1, c0, *extra)]
        bx = extra[0] if extra else ns["Box"](c2)
        bx.set(c0)
        vals.append(bx.get())
        bx.set(c1)
    finally:
        mon.set_events(tool, 0)
        mon.register_callback(tool, mon.events.LINE, None)
        mon.register_callback(tool, mon.events.INSTRUCTION, None)
        mon.free_tool_id(tool)
    return {"lines": lines, "instrs": instrs, "values": vals}


def run_real(case, src, workdir, modname):
    """Execute the test case on the real machinery.  Returns a plain-data record."""
    import libcst as cst

    import pynguin.assertion.assertion as ass
    import pynguin.configuration as config
    import pynguin.testcase.testcase as tc
    from pynguin.ga.checked_coverage import (
        _cleanse_included_implicit_return_none,
        compute_assertion_checked_coverage,
    )
    from pynguin.instrumentation import AST_FILENAME
    from pynguin.instrumentation.machinery import install_import_hook
    from pynguin.instrumentation.tracer import SubjectProperties
    from pynguin.slicer.dynamicslicer import DynamicSlicer, SlicingCriterion
    from pynguin.slicer.statementslicingobserver import RemoteStatementSlicingObserver
    from pynguin.testcase.execution import RemoteAssertionExecutionObserver, TestCaseExecutor

    _patch()
    workdir = Path(workdir)
    workdir.mkdir(parents=True, exist_ok=True)
    path = workdir / f"{modname}.py"
    path.write_text(src)
    if str(workdir) not in sys.path:
        sys.path.insert(0, str(workdir))
    importlib.invalidate_caches()

    def mk(code, bv=None, bt=None):
        node = cst.parse_module(code + "\n").body[0]
        return tc.Statement(node=node, bound_variable=bv, bound_type=bt)

    config.configuration = config.Configuration(
        algorithm=config.Algorithm.RANDOM, project_path=str(workdir),
        test_case_output=config.TestCaseOutputConfiguration(output_path=str(workdir)), module_name=modname)
    config.configuration.statistics_output.coverage_metrics = [config.CoverageMetric.CHECKED]
    gt = _ground_truth(src, str(path), case)
    sp = SubjectProperties()
    STORE.clear()
    REC["calls"], REC["phase"] = [], None
    rec = {"oof": None, "gt_values": gt["values"]}
    try:
        with install_import_hook(modname, sp):
            with sp.instrumentation_tracer:
                module = importlib.import_module(modname)
            # generous timeouts: a loaded machine must not turn into a different trace
            ex = TestCaseExecutor(sp, maximum_test_execution_timeout=300, test_execution_time_per_statement=100)
            ex.set_instrument(True)
            ex.add_remote_observer(RemoteStatementSlicingObserver())
            ex.add_remote_observer(RemoteAssertionExecutionObserver())
            c0, c1, c2 = case["consts"]
            t = tc.TestCase()
            t.add_statement(mk(f"int_0 = {c0}", "int_0", int))
            t.add_statement(mk(f"int_1 = {c1}", "int_1", int))
            extra = ""
            if case["use_box"]:
                t.add_statement(mk(f"int_2 = {c2}", "int_2", int))
                t.add_statement(mk(f"box_0 = {modname}_.Box(int_2)", "box_0"))
                extra = ", box_0"
            alias = modname + "_"
            s_f = mk(f"var_0 = {alias}.f(int_0, int_1{extra})", "var_0", int)
            s_g = mk(f"var_1 = {alias}.g(int_1, int_0{extra})", "var_1", int)
            s_f.assertions.append(ass.ObjectAssertion("var_0", gt["values"][0]))
            if not case.get("g_none"):
                s_g.assertions.append(ass.ObjectAssertion("var_1", gt["values"][1]))
            t.add_statement(s_f)
            t.add_statement(s_g)
            roles = {t.size() - 2: 0, t.size() - 1: 1}
            if not case["use_box"]:
                t.add_statement(mk(f"int_2 = {c2}", "int_2", int))
                t.add_statement(mk(f"box_0 = {modname}_.Box(int_2)", "box_0"))
            # bound None-returning setter calls around a getter: the setter's implicit `return None` shares
            # its line with the attribute write the getter's value depends on
            t.add_statement(mk("none_0 = box_0.set(int_0)", "none_0"))
            t.add_statement(mk("var_2 = box_0.get()", "var_2", int))
            roles[t.size() - 1] = 2
            t.add_statement(mk("none_1 = box_0.set(int_1)", "none_1"))
            rec["roles"] = roles
            REC["phase"] = "execute"
            res = ex.execute(t)
            REC["phase"] = None
            rec["timeout"] = bool(res.timeout)
            trace = res.execution_trace
            known = sp.existing_code_objects
            rec["exceptions"] = {k: type(v).__name__ for k, v in res.exceptions.items()}
            rec["n_trace"] = len(trace.executed_instructions)
            lines_meta = {lid: (m.file_name, m.line_number) for lid, m in sp.existing_lines.items()}
            rec["lines_meta"] = lines_meta
            rec["path"] = str(path)
            rec["checked_lines"] = sorted(trace.checked_lines)
            names, addrs, files, uids = Interner(), Interner(), Interner(), Interner()
            # (a) statement slices: the calls the real observer made, in statement order
            stmt_calls = [c for c in REC["calls"] if c["phase"] == "execute"]
            crits = []
            if "stmt_args" in STORE:
                stmts, criteria = STORE["stmt_args"]
                rec["stmt_result"] = sorted(STORE["stmt_result"]) if "stmt_result" in STORE else None
                k = 0
                for pos, st in enumerate(stmts):
                    if st.bound_variable is None:
                        continue
                    if pos not in criteria:
                        break
                    if k < len(stmt_calls) and stmt_calls[k]["pos"] == criteria[pos].trace_position:
                        crits.append(("stmt", pos, stmt_calls[k]))
                        k += 1
            # (b) assertion slices: the calls compute_assertion_checked_coverage makes
            REC["phase"] = "assert"
            n0 = len(REC["calls"])
            try:
                rec["assertion_cov"] = compute_assertion_checked_coverage(trace, sp)
            except Exception as e:  # noqa: BLE001
                rec["assertion_cov"] = "error:" + type(e).__name__
            for k, c in enumerate(REC["calls"][n0:]):
                crits.append(("assert", k, c))
            # (c) the STORE instructions of the two entry calls as extra criteria
            REC["phase"] = "store"
            slicer = DynamicSlicer(known)
            for k, var in enumerate(("var_0", "var_1")):
                for pos, ei_ in enumerate(trace.executed_instructions):
                    if ei_.file == AST_FILENAME and ei_.name == "STORE_NAME" and ei_.argument == var:
                        n0 = len(REC["calls"])
                        try:
                            slicer.slice(trace, SlicingCriterion(pos))
                        except Exception:  # noqa: BLE001
                            pass
                        crits.append(("store", k, REC["calls"][n0]))
            REC["phase"] = None
            slices = []
            codes = set()
            for kind, idx, call in crits:
                pos, sl, err, flow, crit = call["pos"], call["slice"] or [], call["error"], call["flow"], call["crit"]
                if crit is None:
                    slices.append({"kind": kind, "idx": idx, "pos": pos, "error": err or "no-criterion-state"})
                    continue
                cd, oof = _abstract_state(crit, crit, known, names, addrs, files, uids, is_crit=True)
                fl = []
                for stt in flow:
                    d, o2 = _abstract_state(stt, crit, known, names, addrs, files, uids)
                    oof = oof or o2
                    fl.append(d)
                    codes.add(d["code"])
                codes.add(cd["code"])
                sl_abs = []
                for u in sl:
                    meta = known[u.code_object_id].code_object
                    sl_abs.append({
                        "uid": uids((u.name, u.code_object_id, u.node_id, u.instr_original_index)),
                        "name": u.name, "file_is_test": u.file == AST_FILENAME, "file": u.file,
                        "line": u.lineno, "co": (meta.co_name, meta.co_firstlineno)})
                # the real line mapping of this slice (what compute_* adds for it)
                try:
                    mapped = DynamicSlicer.map_instructions_to_lines(sl, sp)
                    if kind == "stmt" and err is None:
                        _cleanse_included_implicit_return_none(sp, mapped, sl)
                    mapped = sorted(mapped)
                except Exception as e:  # noqa: BLE001
                    mapped = "error:" + type(e).__name__
                slices.append({"kind": kind, "idx": idx, "pos": pos, "crit": cd, "flow": fl, "slice": sl_abs,
                               "error": err, "oof": oof, "lines": mapped})
            rec["slices"] = slices
            rec["cdg"] = {f"{c},{n}": v for (c, n), v in _cdg_tables(known, codes).items()}
            rec["file_ids"] = dict(files.d)
            rec["n_lines"] = len(sp.existing_lines)
            rec["assert_count"] = (round(rec["assertion_cov"] * rec["n_lines"])
                                   if isinstance(rec["assertion_cov"], float) and rec["n_lines"] else None)
            # value of the entry calls as the instrumented run saw them is not observable without
            # touching the namespace; the assertions (built from the twin's values) executed, which
            # is recorded by the number of executed assertions
            rec["n_assertions"] = len(trace.executed_assertions)
    finally:
        sys.modules.pop(modname, None)
    rec["gt_lines"] = sorted(gt["lines"])
    rec["gt_instrs"] = sorted(gt["instrs"], key=repr)
    return rec
