"""C27: fail-closed translator of the visibility predicates of pynguin/analyses/module.py to Gallina.

Fragment: a function whose body is (docstring)? followed by
    return <bexpr>
or the shape of __should_skip_by_visibility:
    if not <param>: return <bexpr>
    match config.configuration.element_visibility:
        case ElementVisibility.X: return <bexpr> ...   case _: return <bexpr>
<bexpr> ::= True | False | b and b | b or b | not b | <name>.startswith("lit") | <name>.endswith("lit")
          | f(<name>) for an already translated f | bool(PATTERN.fullmatch(<name>))
PATTERN must be assigned `re.compile(r"<the known pattern>")`: the regular expression itself is not
translated, its text is pinned (any other text aborts the translation); its recogniser C27.re_mangled
is tied by the exhaustive comparison with the real function.
Anything else raises Untranslatable."""
from __future__ import annotations

import ast

KNOWN_PATTERN = r"^_[A-Za-z][A-Za-z0-9]*__\w+$"
TARGETS = ["__is_protected", "__is_private", "__is_name_mangled", "__should_skip_by_visibility"]


class Untranslatable(Exception):
    pass


def lit(s: str) -> str:
    return "[" + "; ".join(f"{ord(c)}%N" for c in s) + "]"


class Tr:
    def __init__(self, tree: ast.Module):
        self.tree = tree
        self.done: dict[str, str] = {}   # python name -> coq name
        self.patterns: dict[str, str] = {}
        for st in tree.body:
            if (isinstance(st, ast.Assign) and len(st.targets) == 1 and isinstance(st.targets[0], ast.Name)
                    and isinstance(st.value, ast.Call) and ast.unparse(st.value.func) == "re.compile"
                    and len(st.value.args) == 1 and isinstance(st.value.args[0], ast.Constant)
                    and not st.value.keywords):
                self.patterns[st.targets[0].id] = st.value.args[0].value

    def bexpr(self, e, params) -> str:
        if isinstance(e, ast.Constant) and isinstance(e.value, bool):
            return "true" if e.value else "false"
        if isinstance(e, ast.BoolOp):
            op = "andb" if isinstance(e.op, ast.And) else "orb"
            parts = [self.bexpr(v, params) for v in e.values]
            out = parts[0]
            for p in parts[1:]:
                out = f"({op} {out} {p})"
            return out
        if isinstance(e, ast.UnaryOp) and isinstance(e.op, ast.Not):
            return f"(negb {self.bexpr(e.operand, params)})"
        if isinstance(e, ast.Call) and not e.keywords:
            f = e.func
            if (isinstance(f, ast.Attribute) and f.attr in ("startswith", "endswith") and isinstance(f.value, ast.Name)
                    and f.value.id in params and len(e.args) == 1 and isinstance(e.args[0], ast.Constant)
                    and isinstance(e.args[0].value, str)):
                return f"(C27.{f.attr} {f.value.id} {lit(e.args[0].value)})"
            if isinstance(f, ast.Name) and f.id in self.done and len(e.args) == 1 and isinstance(e.args[0], ast.Name) \
                    and e.args[0].id in params:
                return f"({self.done[f.id]} {e.args[0].id})"
            if isinstance(f, ast.Name) and f.id == "bool" and len(e.args) == 1:
                c = e.args[0]
                if (isinstance(c, ast.Call) and isinstance(c.func, ast.Attribute) and c.func.attr == "fullmatch"
                        and isinstance(c.func.value, ast.Name) and c.func.value.id in self.patterns
                        and len(c.args) == 1 and isinstance(c.args[0], ast.Name) and c.args[0].id in params
                        and not c.keywords):
                    if self.patterns[c.func.value.id] != KNOWN_PATTERN:
                        raise Untranslatable(f"pattern changed: {self.patterns[c.func.value.id]!r}")
                    return f"(C27.re_mangled {c.args[0].id})"
        raise Untranslatable("expression outside the fragment: " + ast.unparse(e))

    @staticmethod
    def body_of(fn: ast.FunctionDef):
        body = list(fn.body)
        if body and isinstance(body[0], ast.Expr) and isinstance(body[0].value, ast.Constant) and isinstance(body[0].value.value, str):
            body = body[1:]
        return body

    def simple(self, fn: ast.FunctionDef) -> str:
        if len(fn.args.args) != 1 or fn.args.kwonlyargs or fn.args.vararg or fn.args.kwarg or fn.args.defaults:
            raise Untranslatable(f"{fn.name}: unexpected signature")
        p = fn.args.args[0].arg
        body = self.body_of(fn)
        if len(body) != 1 or not isinstance(body[0], ast.Return) or body[0].value is None:
            raise Untranslatable(f"{fn.name}: body is not a single return")
        coq = "gen_" + fn.name.lstrip("_")
        self.done[fn.name] = coq
        return f"Definition {coq} ({p} : C27.name) : bool :=\n  {self.bexpr(body[0].value, {p})}.\n"

    def skip(self, fn: ast.FunctionDef) -> str:
        a = fn.args
        if [x.arg for x in a.args] != ["name"] or [x.arg for x in a.kwonlyargs] != ["add_to_test"] or a.vararg or a.kwarg:
            raise Untranslatable(f"{fn.name}: unexpected signature")
        body = self.body_of(fn)
        if len(body) != 2:
            raise Untranslatable(f"{fn.name}: unexpected body")
        g, m = body
        if not (isinstance(g, ast.If) and not g.orelse and isinstance(g.test, ast.UnaryOp) and isinstance(g.test.op, ast.Not)
                and isinstance(g.test.operand, ast.Name) and g.test.operand.id == "add_to_test"
                and len(g.body) == 1 and isinstance(g.body[0], ast.Return) and g.body[0].value is not None):
            raise Untranslatable(f"{fn.name}: first statement is not `if not add_to_test: return ...`")
        dep = self.bexpr(g.body[0].value, {"name"})
        if not (isinstance(m, ast.Match) and ast.unparse(m.subject) == "config.configuration.element_visibility"):
            raise Untranslatable(f"{fn.name}: second statement is not a match on the visibility")
        arms, default = {}, None
        for c in m.cases:
            if c.guard is not None or len(c.body) != 1 or not isinstance(c.body[0], ast.Return) or c.body[0].value is None:
                raise Untranslatable(f"{fn.name}: case body is not a single return")
            val = self.bexpr(c.body[0].value, {"name"})
            pat = c.pattern
            if isinstance(pat, ast.MatchValue) and ast.unparse(pat.value) in (
                    "ElementVisibility.ALL", "ElementVisibility.PROTECTED", "ElementVisibility.PUBLIC"):
                k = ast.unparse(pat.value).split(".")[1]
                if k in arms or default is not None:
                    raise Untranslatable(f"{fn.name}: duplicate / unreachable case")
                arms[k] = val
            elif isinstance(pat, ast.MatchAs) and pat.pattern is None and pat.name is None:
                default = val
            else:
                raise Untranslatable(f"{fn.name}: unsupported pattern {ast.unparse(pat)}")
        rows = []
        for k in ("PUBLIC", "PROTECTED", "ALL"):
            v = arms.get(k, default)
            if v is None:
                raise Untranslatable(f"{fn.name}: no case for {k}")
            rows.append(f"       | C27.{k} => {v}")
        self.done[fn.name] = "gen_should_skip"
        return ("Definition gen_should_skip (name : C27.name) (add_to_test : bool) (v : C27.visibility) : bool :=\n"
                f"  if negb add_to_test then {dep}\n  else match v with\n" + "\n".join(rows) + "\n       end.\n")


GUARD_ATOMS = {"type_info.is_abstract": "is_abstract",
               "type_info.raw_type in COLLECTIONS": "in_collections",
               "type_info.raw_type in PRIMITIVES": "in_primitives"}
BUILTIN_SETS = {"PRIMITIVES": "OrderedSet([int, str, bytes, bool, float, complex])",
                "COLLECTIONS": "OrderedSet([list, set, tuple, dict])"}


def ctor_guard(fns, path) -> str:
    """The guard of __analyse_class that withholds the constructor of a class:
        if not (<atom> or <atom> ...):  test_cluster.add_generator(generic); if add_to_test: ...under_test...
    translated over the three atoms it is written with; PRIMITIVES / COLLECTIONS are pinned."""
    import os
    if "__analyse_class" not in fns:
        raise Untranslatable("function __analyse_class not found")
    tu = os.path.join(os.path.dirname(os.path.dirname(str(path))), "utils", "type_utils.py")
    for st in ast.parse(open(tu).read()).body:
        if isinstance(st, ast.Assign) and len(st.targets) == 1 and isinstance(st.targets[0], ast.Name) \
                and st.targets[0].id in BUILTIN_SETS and ast.unparse(st.value) != BUILTIN_SETS[st.targets[0].id]:
            raise Untranslatable(f"{st.targets[0].id} changed: {ast.unparse(st.value)}")
    guards = []
    for node in ast.walk(fns["__analyse_class"]):
        if isinstance(node, ast.If) and any(
                isinstance(c, ast.Call) and ast.unparse(c.func) == "test_cluster.add_accessible_object_under_test"
                for b in node.body for c in ast.walk(b)) and any(
                isinstance(c, ast.Call) and ast.unparse(c.func) == "test_cluster.add_generator" for b in node.body for c in ast.walk(b)):
            guards.append(node)
    if len(guards) != 1:
        raise Untranslatable(f"__analyse_class: expected one guard around add_generator/add_accessible_object_under_test, found {len(guards)}")
    g = guards[0]
    if g.orelse or not (isinstance(g.test, ast.UnaryOp) and isinstance(g.test.op, ast.Not)):
        raise Untranslatable("__analyse_class: constructor guard is not `if not (...)`")

    def tr(e):
        if isinstance(e, ast.BoolOp):
            op = "orb" if isinstance(e.op, ast.Or) else "andb"
            parts = [tr(v) for v in e.values]
            out = parts[0]
            for q in parts[1:]:
                out = f"({op} {out} {q})"
            return out
        if isinstance(e, ast.UnaryOp) and isinstance(e.op, ast.Not):
            return f"(negb {tr(e.operand)})"
        txt = ast.unparse(e)
        if txt in GUARD_ATOMS:
            return GUARD_ATOMS[txt]
        raise Untranslatable("constructor guard outside the fragment: " + txt)
    inner = g.body
    ok = (len(inner) == 2 and ast.unparse(inner[0]) == "test_cluster.add_generator(generic)"
          and isinstance(inner[1], ast.If) and ast.unparse(inner[1].test) == "add_to_test" and not inner[1].orelse
          and len(inner[1].body) == 1
          and ast.unparse(inner[1].body[0]) == "test_cluster.add_accessible_object_under_test(generic, method_data)")
    if not ok:
        raise Untranslatable("__analyse_class: body of the constructor guard changed")
    return ("Definition gen_ctor_withheld (is_abstract in_collections in_primitives : bool) : bool :=\n"
            f"  {tr(g.test.operand)}.\n")


def translate(path) -> str:
    tree = ast.parse(open(path).read())
    fns = {st.name: st for st in tree.body if isinstance(st, ast.FunctionDef)}
    tr = Tr(tree)
    out = ["(* generated by harness/props/_c27_py2v.py from src/pynguin/analyses/module.py — do not edit *)",
           "From Coq Require Import List NArith Bool.", "From Verif Require Import Models.C27.",
           "Import ListNotations.", "Open Scope N_scope.", ""]
    for t in TARGETS:
        if t not in fns:
            raise Untranslatable(f"function {t} not found")
        out.append(tr.skip(fns[t]) if t == "__should_skip_by_visibility" else tr.simple(fns[t]))
    out.append(ctor_guard(fns, path))
    out += [
        "(* equality with the hand model, as a propositional tautology over the atomic string tests (robust",
        "   against reordering of the disjuncts/conjuncts in the source) *)",
        "Ltac atoms := repeat match goal with",
        "  | |- context [C27.startswith ?x ?y] => generalize (C27.startswith x y); intro",
        "  | |- context [C27.endswith ?x ?y] => generalize (C27.endswith x y); intro",
        "  | |- context [C27.re_mangled ?x] => generalize (C27.re_mangled x); intro end.",
        "Ltac decide_eq := unfold gen_should_skip, gen_is_name_mangled, gen_is_private, gen_is_protected,",
        "  C27.should_skip, C27.is_name_mangled, C27.is_private, C27.is_protected, C27.us; atoms;",
        "  repeat match goal with b : bool |- _ => destruct b end; reflexivity.",
        "Lemma gen_is_protected_ok : forall n, gen_is_protected n = C27.is_protected n.",
        "Proof. intro n. decide_eq. Qed.",
        "Lemma gen_is_private_ok : forall n, gen_is_private n = C27.is_private n.",
        "Proof. intro n. decide_eq. Qed.",
        "Lemma gen_is_name_mangled_ok : forall n, gen_is_name_mangled n = C27.is_name_mangled n.",
        "Proof. intro n. decide_eq. Qed.",
        "Lemma gen_should_skip_ok : forall n a v, gen_should_skip n a v = C27.should_skip n a v.",
        "Proof. intros n a v. destruct v; decide_eq. Qed.",
        "Lemma gen_ctor_withheld_ok : forall a c p, gen_ctor_withheld a c p = C27.ctor_withheld a c p.",
        "Proof. intros a c p. destruct a, c, p; reflexivity. Qed.",
    ]
    return "\n".join(out) + "\n"


if __name__ == "__main__":
    import sys
    print(translate(sys.argv[1]))
