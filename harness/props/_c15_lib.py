"""Shared helpers for C15 / C19: generated SUT modules and clusters, abstraction of real
`TestCase` objects to the Coq IR (Base/TestCaseIR.v), a recorder for container-level calls and an
independent (ast based) well-formedness oracle."""
from __future__ import annotations

import ast
import builtins
import importlib
import re
import sys
from pathlib import Path

VAR_RE = re.compile(r"^var_(\d+)$")
VAR_SUB = re.compile(r"\bvar_\d+\b")

# ------------------------------------------------------------------------------------------------
# generated modules under test: classes (constructors, methods, properties, class attributes ->
# fields), enums, functions with collection / callable / union / untyped parameters, higher-order
# functions.  Bodies are trivial and terminate.
PRIMS = ["int", "str", "float", "bool", "bytes"]
COLLS = ["list[int]", "list[str]", "dict[str, int]", "set[str]", "set[float]", "tuple[int, str]",
         "tuple[int, ...]", "list", "dict", "tuple", "set"]


def _ptype(rng, classes, enums):
    c = rng.random()
    if c < 0.22:
        return rng.choice(PRIMS)
    if c < 0.40:
        return rng.choice(COLLS)
    if c < 0.62 and classes:
        return rng.choice(classes)
    if c < 0.70 and enums:
        return rng.choice(enums)
    if c < 0.78:
        return rng.choice(["Callable[[int], int]", "Callable", "type"])
    if c < 0.84 and classes:
        return f"list[{rng.choice(classes)}]"
    if c < 0.90:
        return rng.choice(["int | None", "int | str", "Any"])
    return None  # unannotated


def _params(rng, classes, enums, method):
    ps = ["self"] if method else []
    n = rng.choice([0, 1, 1, 2, 2, 3])
    seen_default = False
    kinds = []
    for k in range(n):
        t = _ptype(rng, classes, enums)
        name = f"p{k}"
        s = name if t is None else f"{name}: {t}"
        if seen_default or rng.random() < 0.25:
            seen_default = True
            s += " = None" if t is None else "=None"
        kinds.append(s)
    posonly = rng.random() < 0.12 and kinds and "=" not in kinds[0]
    if posonly:
        kinds.insert(1, "/")
    ps += kinds
    if rng.random() < 0.15:
        ps.append("*args: int")
    if rng.random() < 0.12:
        ps.append("**kw: str")
    return ", ".join(ps)


def gen_module_source(rng) -> str:
    n_cls = rng.choice([1, 2, 3])
    n_enum = rng.choice([0, 1, 1])
    classes = [f"K{i}" for i in range(n_cls)]
    enums = [f"E{i}" for i in range(n_enum)]
    out = ["from __future__ import annotations", "import enum", "from typing import Any, Callable", ""]
    for e in enums:
        out.append(f"class {e}(enum.Enum):")
        for j in range(rng.choice([1, 2, 3])):
            out.append(f"    M{j} = {j}")
        out.append("")
    for i, c in enumerate(classes):
        base = f"({classes[i - 1]})" if i and rng.random() < 0.3 else ""
        out.append(f"class {c}{base}:")
        for j in range(rng.choice([0, 1, 2])):
            out.append(f"    attr{j} = {rng.choice(['0', '1.5', repr('s'), '[1]', 'True'])}")
        out.append(f"    def __init__({_params(rng, classes, enums, True)}):")
        out.append("        self.v = 1")
        if rng.random() < 0.5:
            out.append("    @property")
            out.append(f"    def prop(self) -> {rng.choice(PRIMS + classes)}:")
            out.append("        return None")
        for j in range(rng.choice([1, 2, 3])):
            rt = _ptype(rng, classes, enums)
            arrow = "" if rt is None else f" -> {rt}"
            out.append(f"    def m{j}({_params(rng, classes, enums, True)}){arrow}:")
            out.append("        return None")
        out.append("")
    for j in range(rng.choice([1, 2, 3, 4])):
        rt = _ptype(rng, classes, enums)
        arrow = "" if rt is None else f" -> {rt}"
        out.append(f"def f{j}({_params(rng, classes, enums, False)}){arrow}:")
        if rt is None and rng.random() < 0.6:
            out.append("    return lambda *a, **k: 1")
        else:
            out.append("    return None")
        out.append("")
    return "\n".join(out) + "\n"


def load_cluster(scratch: Path, name: str, source: str):
    """Write the module, make it importable, point pynguin's configuration at it, analyse it."""
    import pynguin.configuration as config
    from pynguin.analyses.module import generate_test_cluster

    (scratch / f"{name}.py").write_text(source)
    if str(scratch) not in sys.path:
        sys.path.insert(0, str(scratch))
    importlib.invalidate_caches()
    config.configuration.module_name = name
    config.configuration.test_creation.generate_field_statements = True
    cluster = generate_test_cluster(name)
    return cluster, importlib.import_module(name)


# ------------------------------------------------------------------------------------------------
# abstraction real TestCase -> IR
def _conv(node) -> bool:
    import libcst as cst

    return isinstance(node, cst.SimpleStatementLine) and any(
        isinstance(ss, cst.Assign) and len(ss.targets) == 1 for ss in node.body)


_NODE_CACHE: dict = {}


def node_info(node):
    """(convertible flag, normalised text, code, free loads, top-level stores) of a CST statement
    node; cached per node object (nodes are immutable)."""
    import libcst as cst

    hit = _NODE_CACHE.get(id(node))
    if hit is not None and hit[0] is node:
        return hit[1]
    conv = _conv(node)
    if conv and len(node.body) == 1:
        txt = cst.Module(body=[]).code_for_node(node.body[0].value)
    elif isinstance(node, cst.SimpleStatementLine) and len(node.body) == 1 and isinstance(node.body[0], cst.Expr):
        txt = cst.Module(body=[]).code_for_node(node.body[0].value)
    else:
        txt = cst.Module(body=[node]).code
    code = cst.Module(body=[node]).code
    try:
        f = _Free()
        f.visit(ast.parse(code))
        loads, stores, err = frozenset(f.loads), frozenset(f.stores), None
    except SyntaxError as e:
        loads, stores, err = frozenset(), frozenset(), str(e)
    info = (conv, VAR_SUB.sub("V", txt).strip(), code, loads, stores, err)
    if len(_NODE_CACHE) > 200000:
        _NODE_CACHE.clear()
    _NODE_CACHE[id(node)] = (node, info)
    return info


def node_text(node) -> str:
    return node_info(node)[1]


def abs_assertion(a):
    from pynguin.assertion.assertion import ExceptionAssertion

    src = getattr(a, "source", None)
    root = None
    if isinstance(src, str):
        r = src.split(".", 1)[0]
        if VAR_RE.match(r):
            root = r
    return (root, not isinstance(a, ExceptionAssertion), repr(a))


def abs_stmt(s) -> dict:
    return {
        "bound": s.bound_variable,
        "uses": [n for n in s.used_variables() if VAR_RE.match(n)],
        "ty": s.bound_type,
        "asserts": [abs_assertion(a) for a in s.assertions],
        "conv": node_info(s.node)[0],
        "node": node_info(s.node)[1],
    }


def abs_tc(tc) -> dict:
    return {
        "stmts": [abs_stmt(s) for s in tc._statements],
        "counter": tc._var_counter,
        "reg": [(t, list(vs)) for t, vs in tc._type_registry.items()],
    }


class Coder:
    """Per-case coding of variable names, types, node texts and assertion ids to numbers."""

    def __init__(self):
        self.types, self.nodes, self.extra, self.aids = {}, {}, {}, {}

    def var(self, name) -> int:
        m = VAR_RE.match(name)
        if m:
            return int(m.group(1))
        return 10**6 + self.extra.setdefault(name, len(self.extra))

    def ty(self, t) -> int:
        return self.types.setdefault(t, len(self.types) + 1)

    def node(self, txt) -> int:
        return self.nodes.setdefault(txt, len(self.nodes) + 1)

    def aid(self, r) -> int:
        return self.aids.setdefault(VAR_SUB.sub("V", r), len(self.aids) + 1)


def cN(n):
    # the case files open N_scope (see IMPORTS in C15.py / C19.py)
    return f"{int(n)}"


def copt(x):
    return "None" if x is None else f"(Some {x})"


def clist(xs):
    return "[" + "; ".join(xs) + "]"


def c_stmt(a, cd: Coder, sort_uses=True) -> str:
    uses = [cd.var(u) for u in a["uses"]]
    if sort_uses:
        uses = sorted(set(uses))
    asserts = clist(
        "(IR.Build_assertion %s %s %s)"
        % (copt(cN(cd.var(r))) if r is not None else "None", "true" if rd else "false", cN(cd.aid(i)))
        for r, rd, i in a["asserts"])
    return ("(IR.Build_stmt %s %s %s %s %s %s)" % (
        copt(cN(cd.var(a["bound"]))) if a["bound"] is not None else "None",
        clist(cN(u) for u in uses),
        copt(cN(cd.ty(a["ty"]))) if a["ty"] is not None else "None",
        asserts, "true" if a["conv"] else "false", cN(cd.node(a["node"]))))


def c_tc(a, cd: Coder, sort_uses=True) -> str:
    reg = clist("(%s, %s)" % (cN(cd.ty(t)), clist(cN(cd.var(v)) for v in vs)) for t, vs in a["reg"])
    return "(IR.Build_tc %s %s %s)" % (
        clist(c_stmt(s, cd, sort_uses) for s in a["stmts"]), cN(a["counter"]), reg)


def c_op(op, cd: Coder) -> str:
    k = op[0]
    if k in ("OAdd",):
        return f"C15.OAdd {c_stmt(op[1], cd)}"
    if k in ("OInsert", "OReplace"):
        return f"C15.{k} {int(op[1])}%nat {c_stmt(op[2], cd)}"
    if k in ("ORemove", "ORemoveFwd", "ODeleteGracefully"):
        return f"C15.{k} {int(op[1])}%nat"
    if k == "OBatch":
        return "C15.OBatch " + clist(f"{int(i)}%nat" for i in op[1])
    if k == "OChop":
        return f"C15.OChop ({int(op[1])})%Z"
    if k == "OAppendFrom":
        # the other test case keeps the iteration order of used_variables(): it drives resolve
        return "C15.OAppendFrom %s %d%%nat %s" % (c_tc(op[1], cd, sort_uses=False), int(op[2]),
                                                  clist(cN(cd.var(v)) for v in op[3]))
    return f"C15.{k}"


def c_case(rec) -> str:
    cd = Coder()
    pre, op, post = rec["pre"], rec["op"], rec["post"]
    return "(%s, %s, %s)" % (c_tc(pre, cd), c_op(op, cd), c_tc(post, cd))


def c_xcase(rec) -> str:
    cd = Coder()
    return "(%d%%nat, %s, %s, %d%%nat, %d%%nat, %s, %s)" % (
        rec["maxlen"], c_tc(rec["parent"], cd), c_tc(rec["other"], cd, sort_uses=False), rec["p1"], rec["p2"],
        clist(cN(cd.var(v)) for v in rec["choices"]), c_tc(rec["result"], cd))


def c_lcase(rec) -> str:
    cd = Coder()
    return "(%s, %s, %s)" % (c_tc(rec["before"], cd), "true" if rec["found"] else "false", c_tc(rec["after"], cd))


def c_acase(rec) -> str:
    cd = Coder()
    return "(%s, %s)" % (c_tc(rec["before"], cd), c_tc(rec["after"], cd))


def c_icase(rec) -> str:
    return "(%d%%nat, %d%%nat, %s, %d%%nat)" % (rec["maxlen"], rec["before"],
                                               clist(f"{p}%nat" for p in rec["proposed"]), rec["after"])


def canon_rec(rec):
    """Hashable canonical form of a step record (for distinct counting / dedup)."""
    return c_case(rec)


# ------------------------------------------------------------------------------------------------
class Recorder:
    """Records every outermost call on the TestCase container (and delete_statement_gracefully),
    every crossover and every _mutation_insert, with abstract states before and after."""

    def __init__(self):
        self.steps, self.xover, self.inserts = [], [], []
        self.ls = []           # local-search searches with rollback: kind, before, found, after
        self.alias = []        # (op, abstract state of ANOTHER test case before, after): must be equal
        self.alias_ok = []     # sample of unchanged bystanders (for the Coq side)
        self._live = {}        # id -> (weakref, fingerprint, abstract state)
        self.unsupported = []
        self.depth = 0
        self.origin = "factory"
        self.capture = []  # stack of lists collecting randomness.choice results
        self.insert_trace = None
        self.max_steps = 10**9
        self._installed = False

    # -- value semantics: a call on one test case must not change any other live test case -----
    @staticmethod
    def fingerprint(t):
        return (tuple(map(id, t._statements)), t._var_counter,
                tuple((ty, tuple(vs)) for ty, vs in t._type_registry.items()))

    def track(self, t):
        import weakref

        self._live[id(t)] = (weakref.ref(t), self.fingerprint(t), abs_tc(t))

    def bystanders(self, op, touched):
        """After an outermost call that may only change the objects in `touched`: every other live test
        case must be unchanged (e.g. a clone must not share its registry lists with the original)."""
        ids = {id(x) for x in touched}
        for k, (ref, fp, ab) in list(self._live.items()):
            t = ref()
            if t is None:
                del self._live[k]
                continue
            if k in ids:
                continue
            now = self.fingerprint(t)
            if now != fp:
                self.alias.append({"op": op, "before": ab, "after": abs_tc(t)})
                self.track(t)
            elif len(self.alias_ok) < 400 and len(ab["stmts"]) > 0 and op in ("OAdd", "OAppendFrom", "OInsert", "OReplace"):
                self.alias_ok.append({"op": op, "before": ab, "after": abs_tc(t)})
        for x in touched:
            self.track(x)

    # -- installation -------------------------------------------------------------------------
    def install(self):
        if self._installed:
            return
        self._installed = True
        import pynguin.ga.operators.crossover as xo
        import pynguin.ga.operators.mutation as mu
        import pynguin.testcase.testcase as tcm
        import pynguin.testcase.testfactory as tfm
        from pynguin.utils import randomness

        TC = tcm.TestCase
        rec = self

        def wrap(name, mkop, result_is_state=False):
            orig = getattr(TC, name)

            def wrapper(self_tc, *a, **k):
                if rec.depth > 0:
                    return orig(self_tc, *a, **k)
                rec.depth += 1
                if id(self_tc) not in rec._live:
                    rec.track(self_tc)
                for a_ in a:
                    if isinstance(a_, TC) and id(a_) not in rec._live:
                        rec.track(a_)
                pre = abs_tc(self_tc)
                cap = []
                rec.capture.append(cap)
                res = None
                op = None
                try:
                    op = mkop(self_tc, cap, *a, **k)
                    res = orig(self_tc, *a, **k)
                    return res
                finally:
                    rec.capture.pop()
                    rec.depth -= 1
                    target = res if (result_is_state and res is not None) else self_tc
                    rec.bystanders(op[0] if op else name, [self_tc] + ([res] if (result_is_state and res is not None) else []))
                    if op is None:
                        rec.unsupported.append(name)
                    elif len(rec.steps) < rec.max_steps:
                        if op[0] == "OAppendFrom":
                            op = op[:3] + (list(cap),)
                        rec.steps.append({"pre": pre, "op": op, "post": abs_tc(target), "origin": rec.origin})

            wrapper.__name__ = name
            setattr(TC, name, wrapper)

        nonneg = lambda i: isinstance(i, int) and i >= 0  # noqa: E731
        wrap("add_statement", lambda t, c, stmt: ("OAdd", abs_stmt(stmt)))
        wrap("insert_statement", lambda t, c, index, stmt: ("OInsert", index, abs_stmt(stmt)) if nonneg(index) else None)
        wrap("remove_statement", lambda t, c, index: ("ORemove", index) if nonneg(index) else None)
        wrap("replace_statement", lambda t, c, index, stmt: ("OReplace", index, abs_stmt(stmt)) if nonneg(index) else None)
        wrap("remove_statements_batch", lambda t, c, indices: ("OBatch", sorted(indices)) if all(nonneg(i) for i in indices) else None)
        wrap("chop", lambda t, c, position: ("OChop", position))
        wrap("next_var_name", lambda t, c: ("ONextVar",))
        wrap("clone", lambda t, c: ("OClone",), result_is_state=True)
        wrap("remove_statement_with_forward_dependencies", lambda t, c, index: ("ORemoveFwd", index) if nonneg(index) else None)
        wrap("append_test_case_from", lambda t, c, other, start: ("OAppendFrom", abs_tc(other), start, None) if nonneg(start) else None)
        wrap("remove_unused_variables", lambda t, c: ("ORuv",))

        orig_dsg = tfm.TestFactory.__dict__["delete_statement_gracefully"].__func__

        def dsg(test_case, position):
            if rec.depth > 0 or not nonneg(position):
                return orig_dsg(test_case, position)
            rec.depth += 1
            if id(test_case) not in rec._live:
                rec.track(test_case)
            pre = abs_tc(test_case)
            try:
                return orig_dsg(test_case, position)
            finally:
                rec.depth -= 1
                rec.bystanders("ODeleteGracefully", [test_case])
                if len(rec.steps) < rec.max_steps:
                    rec.steps.append({"pre": pre, "op": ("ODeleteGracefully", position), "post": abs_tc(test_case),
                                      "origin": rec.origin})

        tfm.TestFactory.delete_statement_gracefully = staticmethod(dsg)

        orig_choice = randomness.choice

        def choice(seq):
            r = orig_choice(seq)
            for cap in rec.capture:
                cap.append(r)
            return r

        randomness.choice = choice

        orig_splice = xo.splice_test_case_chromosomes

        def splice(parent, other, position1, position2):
            import pynguin.configuration as config

            pre_parent, pre_other = abs_tc(parent.test_case), abs_tc(other.test_case)
            cap = []
            rec.capture.append(cap)
            try:
                return orig_splice(parent, other, position1, position2)
            finally:
                rec.capture.pop()
                rec.xover.append({"maxlen": config.configuration.search_algorithm.chromosome_length,
                                  "parent": pre_parent, "other": pre_other, "p1": position1, "p2": position2,
                                  "choices": [c for c in cap if isinstance(c, str)],
                                  "result": abs_tc(parent.test_case)})

        xo.splice_test_case_chromosomes = splice

        orig_irs = tfm.TestFactory.insert_random_statement

        def irs(self_f, test_case, position):
            r = orig_irs(self_f, test_case, position)
            if rec.insert_trace is not None:
                rec.insert_trace.append(test_case.size())
            return r

        tfm.TestFactory.insert_random_statement = irs

        import pynguin.testcase.localsearch as lsm
        import pynguin.testcase.localsearchstatement as lss

        orig_sdd = lsm.TestCaseLocalSearch._search_different_datatype

        def sdd(self_ls, chromosome, factory, objective, position):
            before = abs_tc(chromosome.test_case)
            found = None
            try:
                found = orig_sdd(self_ls, chromosome, factory, objective, position)
                return found
            finally:
                if found is not None:
                    rec.ls.append({"kind": "different_datatype", "before": before, "found": bool(found),
                                   "after": abs_tc(chromosome.test_case)})

        lsm.TestCaseLocalSearch._search_different_datatype = sdd

        orig_ps = lss.ParametrizedStatementLocalSearch.search

        def ps(self_s):
            before = abs_tc(self_s._chromosome.test_case)
            found = None
            try:
                found = orig_ps(self_s)
                return found
            finally:
                if found is not None:
                    rec.ls.append({"kind": "parametrized", "before": before, "found": bool(found),
                                   "after": abs_tc(self_s._chromosome.test_case)})

        lss.ParametrizedStatementLocalSearch.search = ps

        orig_mi = mu.TestCaseMutation._mutation_insert

        def mi(self_m, chromosome):
            import pynguin.configuration as config

            before = chromosome.size()
            outer = rec.insert_trace
            rec.insert_trace = []
            try:
                return orig_mi(self_m, chromosome)
            finally:
                rec.inserts.append({"maxlen": config.configuration.search_algorithm.chromosome_length,
                                    "before": before, "proposed": rec.insert_trace, "after": chromosome.size()})
                rec.insert_trace = outer

        mu.TestCaseMutation._mutation_insert = mi


# ------------------------------------------------------------------------------------------------
# S: independent well-formedness oracle on the rendered code (python's own parser, not libcst /
# Statement.used_variables)
BUILTINS = set(dir(builtins))


class _Free(ast.NodeVisitor):
    """Free variable reads and top-level bindings of one statement."""

    def __init__(self):
        self.loads, self.stores, self.scopes = set(), set(), []

    def _bound(self, name):
        return any(name in s for s in self.scopes)

    def visit_Name(self, n):
        if isinstance(n.ctx, ast.Load):
            if not self._bound(n.id):
                self.loads.add(n.id)
        elif self.scopes:
            self.scopes[-1].add(n.id)
        else:
            self.stores.add(n.id)

    def visit_Lambda(self, n):
        a = n.args
        for d in a.defaults + [d for d in a.kw_defaults if d is not None]:
            self.visit(d)
        names = {x.arg for x in a.posonlyargs + a.args + a.kwonlyargs}
        if a.vararg:
            names.add(a.vararg.arg)
        if a.kwarg:
            names.add(a.kwarg.arg)
        self.scopes.append(names)
        self.visit(n.body)
        self.scopes.pop()

    def _comp(self, n):
        self.scopes.append(set())
        for g in n.generators:
            self.visit(g.iter)
            self.visit(g.target)
            for c in g.ifs:
                self.visit(c)
        for f in ("elt", "key", "value"):
            if hasattr(n, f):
                self.visit(getattr(n, f))
        self.scopes.pop()

    visit_ListComp = visit_SetComp = visit_DictComp = visit_GeneratorExp = _comp


def stmt_code(s) -> str:
    return node_info(s.node)[2]


def oracle_wf(tc, alias: str, module=None, execute=True):
    """Returns a list of (signature, message).  Checks exactly what C15 states: the test case is
    valid Python; each variable read is bound by an earlier statement; bound names are unique
    (and are the names the code binds); the per-type registry matches the statements."""
    errs = []
    stmts = list(tc._statements)
    fresh_code = tc.to_module().code
    if tc.to_code() != fresh_code:
        errs.append(("stale-code", "to_code() differs from the code of the current statements"))
    try:
        compile(fresh_code, "<testcase>", "exec")
    except SyntaxError as e:
        errs.append(("syntax", f"test case is not valid Python: {e}"))
        return errs
    defined, seen = set(), set()
    for i, s in enumerate(stmts):
        _conv_, _txt, code_i, loads, stores, err = node_info(s.node)
        if err is not None:
            errs.append(("syntax", f"statement {i} is not valid Python: {err}"))
            continue

        class f:  # noqa: N801
            pass
        f.loads, f.stores = loads, stores
        for name in sorted(f.loads):
            if name in BUILTINS or name == alias:
                continue
            if name not in defined:
                errs.append(("unbound-read", f"statement {i} `{code_i.strip()}` reads {name}, not bound by an earlier statement"))
        bv = s.bound_variable
        if bv is not None:
            if bv in seen:
                errs.append(("duplicate-name", f"statement {i} binds {bv} again"))
            seen.add(bv)
            if bv not in f.stores:
                errs.append(("binding-mismatch", f"statement {i} is recorded to bind {bv} but its code binds {sorted(f.stores)}"))
        elif f.stores:
            errs.append(("binding-mismatch", f"statement {i} binds {sorted(f.stores)} but records no bound variable"))
        defined |= f.stores
    expect = {}
    for s in stmts:
        if s.bound_variable is not None and s.bound_type is not None:
            expect.setdefault(s.bound_type, []).append(s.bound_variable)
    if dict(tc._type_registry) != expect:
        errs.append(("registry", f"type registry {dict(tc._type_registry)!r} != rebuilt {expect!r}"))
    if execute and module is not None and not errs:
        ns = {alias: module, "__builtins__": builtins}
        for i, s in enumerate(stmts):
            try:
                exec(compile(stmt_code(s), "<stmt>", "exec"), ns)  # noqa: S102
            except NameError as e:
                errs.append(("name-error", f"statement {i} `{stmt_code(s).strip()}` raised {type(e).__name__}: {e}"))
                break
            except BaseException:  # noqa: BLE001  (SUT behaviour is not the subject)
                break
    return errs
